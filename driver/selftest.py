#!/usr/bin/env python3
"""Validates the monitors against property-breaking changes (DESIGN §8).

  python3 driver/selftest.py [--tests] [--props C03,C07] [--dir mutants|seeded] [id ...]

For every patch: a scratch worktree of /repo (never /repo itself) gets the patch, a scratch copy of
the harness is pointed at it, and the quick checks run with their work / evidence / replay
directories redirected to the scratch area. Records which checks fire in <dir>/RESULTS.json.
With --tests the repository's own unit tests are run on the mutant too (does the existing suite
notice it?).
"""
import json, os, subprocess, sys, shutil, time, glob

VERIF = os.path.dirname(os.path.dirname(os.path.abspath(__file__)))
ROOT = os.environ.get("VERIF_SELFTEST_ROOT") or "/tmp/ep_selftest"
WT = os.path.join(ROOT, "repo")
HARN = os.path.join(ROOT, "harness")
ALL = ["C%02d" % i for i in range(1, 18)]


def sh(*a, **k):
    return subprocess.run(a, stdout=subprocess.PIPE, stderr=subprocess.STDOUT, text=True, **k)


def prepare():
    os.makedirs(ROOT, exist_ok=True)
    if os.path.exists(WT):
        sh("git", "-C", "/repo", "worktree", "remove", "--force", WT)
        shutil.rmtree(WT, ignore_errors=True)
    r = sh("git", "-C", "/repo", "worktree", "add", "--detach", WT, "HEAD")
    assert r.returncode == 0, r.stdout
    # harness copy (keeps its target dirs between mutants: only etherparse is rebuilt)
    os.makedirs(HARN, exist_ok=True)
    sh("rsync", "-a", "--delete", "--exclude", "target*", (os.environ.get("VERIF_SELFTEST_HARNESS_SRC") or os.path.join(VERIF, "harness")) + "/", HARN + "/")
    p = os.path.join(HARN, "Cargo.toml")
    s = open(p).read().replace('path = "/repo/etherparse"', 'path = "%s/etherparse"' % WT)
    open(p, "w").write(s)


def cleanup():
    sh("git", "-C", "/repo", "worktree", "remove", "--force", WT)
    shutil.rmtree(ROOT, ignore_errors=True)


def run_checks(props):
    env = dict(os.environ)
    env.update({"VERIF_HARNESS_DIR": HARN, "VERIF_WORK_DIR": os.path.join(ROOT, "work"),
                "VERIF_EVIDENCE_DIR": os.path.join(ROOT, "evidence"), "VERIF_REPLAYS_DIR": os.path.join(ROOT, "replays"),
                "VERIF_SELFTEST": "1"})
    out = {}
    for p in props:
        t0 = time.time()
        r = subprocess.run([os.path.join(VERIF, "check"), p, "quick"], cwd=VERIF, env=env, stdout=subprocess.PIPE,
                           stderr=subprocess.STDOUT, text=True)
        sigs = [l.strip()[len("signature: "):] for l in r.stdout.split("\n") if l.strip().startswith("signature: ")]
        out[p] = {"rc": r.returncode, "signatures": sigs[:12], "n_signatures": len(sigs), "wall_s": round(time.time() - t0, 1)}
        if r.returncode == 2:
            out[p]["inconclusive"] = [l for l in r.stdout.split("\n") if l.startswith("INCONCLUSIVE") or "BUILD FAILED" in l][:3]
    return out


def main():
    a = sys.argv[1:]
    with_tests = "--tests" in a
    d = "mutants"
    props = None
    ids = []
    i = 0
    while i < len(a):
        if a[i] == "--dir":
            d = a[i + 1]
            i += 1
        elif a[i] == "--props":
            props = a[i + 1].split(",")
            i += 1
        elif not a[i].startswith("--"):
            ids.append(a[i])
        i += 1
    base = os.path.join(VERIF, d)
    if d == "mutants":
        patches = {os.path.basename(p)[:-6]: p for p in sorted(glob.glob(os.path.join(base, "*.patch")))}
        cat = {e["id"]: e for e in json.load(open(os.path.join(base, "catalogue.json")))}
    else:
        patches = {os.path.basename(os.path.dirname(p)): p for p in sorted(glob.glob(os.path.join(base, "*", "patch.diff")))}
        cat = {}
        for k in patches:
            mp = os.path.join(base, k, "meta.json")
            cat[k] = json.load(open(mp)) if os.path.exists(mp) else {}
    if ids:
        patches = {k: v for k, v in patches.items() if k in ids}
    resp = os.path.join(base, "RESULTS.json")
    results = json.load(open(resp)) if os.path.exists(resp) else {}
    prepare()
    try:
        for mid, path in patches.items():
            r = sh("git", "-C", WT, "apply", path)
            if r.returncode != 0:
                print(mid, "PATCH DOES NOT APPLY:", r.stdout[:300])
                results[mid] = {"error": "patch does not apply"}
                continue
            entry = {"description": cat.get(mid, {}).get("description", cat.get(mid, {}).get("what", ""))}
            if with_tests:
                t = sh("cargo", "test", "-p", "etherparse", "--lib", "--offline", cwd=WT,
                       env=dict(os.environ, CARGO_NET_OFFLINE="true", CARGO_TARGET_DIR=os.path.join(ROOT, "test-target")))
                last = [l for l in t.stdout.split("\n") if l.startswith("test result")]
                entry["existing_tests"] = "pass" if t.returncode == 0 else "FAIL"
                entry["existing_tests_summary"] = last[-1] if last else t.stdout[-300:]
            expected = cat.get(mid, {}).get("expected") or cat.get(mid, {}).get("property") or []
            if isinstance(expected, str):
                expected = [expected]
            run = props or (expected if expected else ALL)
            # partial re-runs refine an earlier entry instead of replacing it
            prev = results.get(mid, {})
            if not with_tests:
                for k in ("existing_tests", "existing_tests_summary"):
                    if k in prev:
                        entry[k] = prev[k]
            entry["checks"] = dict(prev.get("checks", {}))
            entry["checks"].update(run_checks(run))
            entry["fired"] = sorted(p for p, v in entry["checks"].items() if v["rc"] == 1)
            entry["expected"] = expected
            entry["detected"] = bool(entry["fired"])
            results[mid] = entry
            print("%-28s tests=%-5s fired=%s%s" % (mid, entry.get("existing_tests", "-"), ",".join(entry["fired"]) or "NONE",
                                                  "" if set(expected) <= set(entry["fired"]) or not expected else "   (expected %s)" % ",".join(expected)), flush=True)
            sh("git", "-C", WT, "checkout", "--", ".")
            sh("git", "-C", WT, "clean", "-fdq")
            json.dump(results, open(resp, "w"), indent=1)
    finally:
        cleanup()


if __name__ == "__main__":
    main()
