#!/usr/bin/env python3
"""Confirms an independently written property-breaking change before it is kept under seeded/:
applies seeded/<id>/patch.diff to a scratch worktree of /repo's HEAD, runs the repository's unit
tests (must pass) and the demonstration test (must FAIL with the change and PASS without it).
Records the outcome in seeded/<id>/meta.json under "confirmed".

  python3 driver/verify_seeded.py <id> [...]
"""
import json, os, subprocess, sys, shutil

VERIF = os.path.dirname(os.path.dirname(os.path.abspath(__file__)))
WT = "/tmp/ep_seedverify"


def sh(*a, **k):
    return subprocess.run(a, stdout=subprocess.PIPE, stderr=subprocess.STDOUT, text=True, **k)


def cargo(args):
    return sh("cargo", *args, cwd=WT, env=dict(os.environ, CARGO_NET_OFFLINE="true", CARGO_TARGET_DIR="/tmp/ep_seedverify_target"))


def main():
    for sid in sys.argv[1:]:
        d = os.path.join(VERIF, "seeded", sid)
        if os.path.exists(WT):
            sh("git", "-C", "/repo", "worktree", "remove", "--force", WT)
            shutil.rmtree(WT, ignore_errors=True)
        assert sh("git", "-C", "/repo", "worktree", "add", "--detach", WT, "HEAD").returncode == 0
        try:
            shutil.copy(os.path.join(d, "seeded_demo.rs"), os.path.join(WT, "etherparse/tests/seeded_demo.rs"))
            without = cargo(["test", "-p", "etherparse", "--test", "seeded_demo", "--offline"])
            r = sh("git", "-C", WT, "apply", os.path.join(d, "patch.diff"))
            if r.returncode != 0:
                print(sid, "patch does not apply:", r.stdout[:300])
                continue
            lib = cargo(["test", "-p", "etherparse", "--lib", "--offline"])
            doc = cargo(["test", "-p", "etherparse", "--doc", "--offline"])
            with_ = cargo(["test", "-p", "etherparse", "--test", "seeded_demo", "--offline"])
            last = lambda t: ([l for l in t.stdout.split("\n") if l.startswith("test result")] or [t.stdout[-200:]])[-1]
            conf = {
                "repo_head": sh("git", "-C", "/repo", "log", "--format=%h", "-1").stdout.strip(),
                "unit_tests_with_change": "pass" if lib.returncode == 0 else "FAIL", "unit_tests_summary": last(lib),
                "doc_tests_with_change": "pass" if doc.returncode == 0 else "FAIL",
                "demo_without_change": "pass" if without.returncode == 0 else "FAIL",
                "demo_with_change": "pass" if with_.returncode == 0 else "FAIL", "demo_with_change_summary": last(with_),
            }
            conf["ok"] = (conf["unit_tests_with_change"] == "pass" and conf["doc_tests_with_change"] == "pass"
                          and conf["demo_without_change"] == "pass" and conf["demo_with_change"] == "FAIL")
            mp = os.path.join(d, "meta.json")
            m = json.load(open(mp))
            m["confirmed"] = conf
            json.dump(m, open(mp, "w"), indent=1)
            print(sid, "CONFIRMED" if conf["ok"] else "NOT CONFIRMED", conf)
        finally:
            sh("git", "-C", "/repo", "worktree", "remove", "--force", WT)
            shutil.rmtree(WT, ignore_errors=True)
    shutil.rmtree("/tmp/ep_seedverify_target", ignore_errors=True) if "--keep-target" not in sys.argv else None


if __name__ == "__main__":
    main()
