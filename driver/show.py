import json,sys
f=sys.argv[1]
for l in open(f):
    d=json.loads(l)
    if d['t']=='sum':
        print('evals',d['evals'],'sigs',len(d['sigs']))
        for k,v in sorted(d['viol_count'].items()): print(v,k)
        print('notes',d['notes']); print('selfcheck',d['selfcheck_failures'][:3])
        if len(sys.argv)>2:
            for k,v in sorted(d['counters'].items()): print('  ',k,v)
seen=set()
for l in open(f):
    d=json.loads(l)
    if d['t']=='viol' and d['sig'] not in seen:
        seen.add(d['sig']); print('--',d['sig']); print('  ',d['detail'][:900]); print('  ',d['engine'],d['case'],d['input'][:240])
