"""Per-property configuration of the driver: which flavours run at which scale, the mandatory
counters (a run that never observed them is inconclusive), and the texts for the evidence file."""

COMMON_ASSUME = [
    "the harness is built from /repo's current working tree (path dependency, cargo fingerprinting)",
    "x86_64 Linux, 64-bit usize; stable toolchain for chk/rel, nightly for asan/miri",
    "a green run means: held on the executions listed here, not for all inputs",
]

CHK = {"flavour": "chk"}

PROPS = {
    "C03": {
        "level": "exploration",
        "rule": "cases = generated packets (grammar: link x <=4 VLAN/MACsec x ARP/IPv4[+AH]/IPv6[+chain] x "
                "UDP/TCP/ICMP/other, length fields below/at/above the truth, truncation sweeps, trailing bytes, "
                "flips, noise, all 65536 ether types) decoded by the strict slicers and by the reference decoder; "
                "a case is non-trivial if the reference decoder got past the first header or found the fault "
                "behind it; distinct = distinct (entry point, layer sequence, outcome class, faulty layer) signatures",
        "assumptions": COMMON_ASSUME + [
            "reference decoder R (harness/src/refmodel/pkt.rs) is right about the wire formats; it is itself "
            "checked against the generator's recipe on every clean packet",
            "exact LenError numbers are judged by C07, not here",
        ],
        "runs": {
            "quick": [dict(CHK)],
            "thorough": [dict(CHK)],
        },
        "mandatory": {
            "agree.ok": 1000, "agree.err": 1000, "selfcheck.recipe_agree": 1000,
            "entry.SlicedPacket::from_ethernet": 100, "entry.SlicedPacket::from_linux_sll": 100,
            "entry.SlicedPacket::from_ether_type": 100, "entry.SlicedPacket::from_ip": 100,
            "error_kind.Len:*": 100, "error_kind.Content:*": 100,
        },
    },
    "C07": {
        "level": "exploration",
        "rule": "cases = generated rejected/partially decodable packets (faults behind VLAN/MACsec/IP/extension headers, "
                "always with trailing bytes and trimming outer length fields, plus truncation sweeps) through all whole-packet "
                "entry points of the 4 decoder families and the 13 IP-level entry points; every Err / lax stop error is "
                "compared field by field with the set of truthful reports of the reference decoder; distinct = distinct "
                "(entry point, error class, stop layer, faulty layer kind, fault behind offset 0) signatures",
        "assumptions": COMMON_ASSUME + [
            "reference decoder R and its truthful-report sets (DESIGN appendix A)",
            "reporting LenSource::Slice is always accepted (the statement only constrains other sources)",
        ],
        "runs": {"quick": [dict(CHK)], "thorough": [dict(CHK)]},
        "mandatory": {
            "errors_judged": 10000, "truthful": 10000, "truthful_behind_offset0": 1000, "stop_layer_ok": 1000,
            "cell.content": 100, "cell.*.Ipv4Total": 100, "cell.*.Ipv6Payload": 100, "cell.*.MacsecShort": 20,
            "cell.UdpHeader.UdpLen": 10,
        },
    },
    "C05": {
        "level": "exploration",
        "rule": "cases = generated packets (clean, hostile, every truncation point of a packet, IP-level, single lax layers) "
                "through every lax entry point (LaxSlicedPacket x3, LaxPacketHeaders x4, LaxIpSlice, LaxIpv4Slice, LaxIpv6Slice, "
                "IpHeaders::*_lax x3, LaxMacsecSlice, UdpSlice::from_slice_lax, Ipv6Extensions(Slice)::from_slice_lax) compared with "
                "(a) the strict sibling on the same bytes and (b) the reference decoder in lax mode; non-trivial = decoded past "
                "the first header or recorded a stop error; distinct = distinct (entry point, layer sequence, stop error class, stop layer)",
        "assumptions": COMMON_ASSUME + [
            "reference decoder R in lax mode (DESIGN appendix B) incl. the documented relaxations (IPv4 total_len / IPv6 "
            "payload_len / MACsec short length / UDP length fall back to the slice)",
        ],
        "runs": {"quick": [dict(CHK)], "thorough": [dict(CHK)]},
        "mandatory": {
            "strict_ok_lax_same": 10000, "lax.layers_agree": 10000, "lax.no_stop": 1000, "lax.err_first_header": 100,
            "lax.stop.Vlan": 10, "lax.stop.Macsec": 10, "lax.stop.Arp": 10, "lax.stop.Ext*": 10, "lax.stop.Udp": 10,
            "lax.stop.Tcp": 10, "lax.stop.Icmp4": 5, "lax.stop.Icmp6": 5, "lax.stop.Ipv4": 10,
            "lax.incomplete_true.Macsec": 10, "lax.incomplete_true.Ipv4": 100, "lax.incomplete_true.Ipv6": 100,
            "lax.single_agree": 1000,
        },
    },
}
