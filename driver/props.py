"""Per-property configuration of the driver: which flavours run at which scale, the mandatory
counters (a run that never observed them is inconclusive), and the texts for the evidence file."""

COMMON_ASSUME = [
    "the harness is built from /repo's current working tree (path dependency, cargo fingerprinting)",
    "x86_64 Linux, 64-bit usize; stable toolchain for chk/rel, nightly for asan/miri",
    "a green run means: held on the executions listed here, not for all inputs",
]

CHK = {"flavour": "chk"}

PROPS = {
    "C03": {
        "level": "exploration",
        "rule": "cases = generated packets (grammar: link x <=4 VLAN/MACsec x ARP/IPv4[+AH]/IPv6[+chain] x "
                "UDP/TCP/ICMP/other, length fields below/at/above the truth, truncation sweeps, trailing bytes, "
                "flips, noise, all 65536 ether types) decoded by the strict slicers and by the reference decoder; "
                "a case is non-trivial if the reference decoder got past the first header or found the fault "
                "behind it; distinct = distinct (entry point, layer sequence, outcome class, faulty layer) signatures",
        "assumptions": COMMON_ASSUME + [
            "reference decoder R (harness/src/refmodel/pkt.rs) is right about the wire formats; it is itself "
            "checked against the generator's recipe on every clean packet",
            "exact LenError numbers are judged by C07, not here",
        ],
        "runs": {
            "quick": [dict(CHK)],
            "thorough": [dict(CHK)],
        },
        "mandatory": {
            "agree.ok": 1000, "agree.err": 1000, "selfcheck.recipe_agree": 1000,
            "entry.SlicedPacket::from_ethernet": 100, "entry.SlicedPacket::from_linux_sll": 100,
            "entry.SlicedPacket::from_ether_type": 100, "entry.SlicedPacket::from_ip": 100,
            "error_kind.Len:*": 100, "error_kind.Content:*": 100,
        },
    },
}
