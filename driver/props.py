"""Per-property configuration of the driver: which flavours run at which scale, the mandatory
counters (a run that never observed them is inconclusive), and the texts for the evidence file."""

COMMON_ASSUME = [
    "the harness is built from /repo's current working tree (path dependency, cargo fingerprinting)",
    "x86_64 Linux, 64-bit usize; stable toolchain for chk/rel, nightly for asan/miri",
    "a green run means: held on the executions listed here, not for all inputs",
]

CHK = {"flavour": "chk"}

PROPS = {
    "C03": {
        "level": "exploration",
        "rule": "cases = generated packets (grammar: link x <=4 VLAN/MACsec x ARP/IPv4[+AH]/IPv6[+chain] x "
                "UDP/TCP/ICMP/other, length fields below/at/above the truth, truncation sweeps, trailing bytes, "
                "flips, noise, all 65536 ether types) decoded by the strict slicers and by the reference decoder; "
                "a case is non-trivial if the reference decoder got past the first header or found the fault "
                "behind it; distinct = distinct (entry point, layer sequence, outcome class, faulty layer) signatures; engine big: the same judgement on packets whose true sizes lie around 2^16 (65535 -/+ header sizes, 65536, 70 000, 131 072: where 16 bit length arithmetic would wrap); engines bytesweep / wordsweep: one header byte of a clean packet through all 256 values, one aligned 16 bit header word through all 65 536 values; the packet-level accessor methods (ether_payload(), ip_payload(), vlan_ids(), is_ip_payload_fragmented()) are judged against the reference layers as well; UdpSlice::payload_len_source() judged against the reference (fact ~udp_src), true sizes that are whole multiples of 2^16 with zero length fields",
        "assumptions": COMMON_ASSUME + [
            "reference decoder R (harness/src/refmodel/pkt.rs) is right about the wire formats; it is itself "
            "checked against the generator's recipe on every clean packet",
            "exact LenError numbers are judged by C07, not here",
        ],
        "runs": {"quick": [dict(CHK), {"flavour": "rel", "scale": 0.25}], "thorough": [dict(CHK), {"flavour": "rel", "scale": 0.5}]},
        "mandatory": {
            "corpus_cases": 100000, "agree.ok": 1000, "agree.err": 1000, "selfcheck.recipe_agree": 1000,
            "entry.SlicedPacket::from_ethernet": 100, "entry.SlicedPacket::from_linux_sll": 100,
            "entry.SlicedPacket::from_ether_type": 100, "entry.SlicedPacket::from_ip": 100,
            "error_kind.Len:*": 100, "error_kind.Content:*": 100,
            "big_cases": 5000,
            "bytesweep_cases": 100000, "wordsweeps": 16,
            "packet_accessors_agree": 100000,
        },
    },
    "C07": {
        "level": "exploration",
        "rule": "cases = generated rejected/partially decodable packets (faults behind VLAN/MACsec/IP/extension headers, "
                "always with trailing bytes and trimming outer length fields, plus truncation sweeps) through all whole-packet "
                "entry points of the 4 decoder families, the 13 IP-level entry points and the io::Read doors (IpHeaders::read, "
                "Ipv6Extensions/Ipv4Extensions::read_limited over a LimitedReader with a random base offset); every Err / lax stop error is "
                "compared field by field with the set of truthful reports of the reference decoder; distinct = distinct "
                "(entry point, error class, stop layer, faulty layer kind, fault behind offset 0) signatures; engine single: 36 single-layer decoders (header structs and slice types) judged the same way; engine convert: errors of 13 slice and 8 reader entry points keep their message, innermost source and typed accessor when converted into FromSliceError / ReadError; engine big: the same judgement on packets whose true sizes lie around 2^16 (65535 -/+ header sizes, 65536, 70 000, 131 072: where 16 bit length arithmetic would wrap); engines bytesweep / wordsweep: one header byte of a clean packet through all 256 values, one aligned 16 bit header word through all 65 536 values; Ipv4Header(Slice)::payload_len() judged like a decoder; the message of every 4th length error (any door) must state both byte counts, the offset, the direction and the length source by its header field",
        "assumptions": COMMON_ASSUME + [
            "reference decoder R and its truthful-report sets (DESIGN appendix A)",
            "reporting LenSource::Slice is always accepted (the statement only constrains other sources)",
        ],
        "runs": {"quick": [dict(CHK), {"flavour": "rel", "scale": 0.25}], "thorough": [dict(CHK), {"flavour": "rel", "scale": 0.5}]},
        "mandatory": {
            "corpus_cases": 100000, "errors_judged": 10000, "truthful": 10000, "truthful_behind_offset0": 1000, "stop_layer_ok": 1000,
            "cell.content": 100, "cell.*.Ipv4Total": 100, "cell.*.Ipv6Payload": 100, "cell.*.MacsecShort": 20,
            "cell.UdpHeader.UdpLen": 10,
            "entry.IpHeaders::read": 100000, "entry.Ipv6Extensions::read_limited": 100000, "entry.Ipv4Extensions::read_limited": 100000,
            "readers.staged_minimum": 100,
            "api.c07.conversions_preserve_message": 100000, "api.c07.read_conversions_preserve_message": 100000, "entry.UdpHeader::from_slice": 10000, "entry.TcpSlice::from_slice": 10000,
            "big_cases": 5000,
            "api.c07.reader_error_accessors": 10000,
            "bytesweep_cases": 100000, "wordsweeps": 16,
            "accessor_len.ok": 10000, "accessor_len.truthful_error": 500, "len_error_messages_checked": 300000,
        },
    },
    "C05": {
        "level": "exploration",
        "rule": "cases = generated packets (clean, hostile, every truncation point of a packet, IP-level, single lax layers) "
                "through every lax entry point (LaxSlicedPacket x3, LaxPacketHeaders x4, LaxIpSlice, LaxIpv4Slice, LaxIpv6Slice, "
                "IpHeaders::*_lax x3, LaxMacsecSlice, UdpSlice::from_slice_lax, Ipv6Extensions(Slice)::from_slice_lax) compared with "
                "(a) the strict sibling on the same bytes (incl. stop error = strict error where both stop at one single-description fault) "
                "and (b) the reference decoder in lax mode; non-trivial = decoded past "
                "the first header or recorded a stop error; distinct = distinct (entry point, layer sequence, stop error class, stop layer); engine big: the same judgement on packets whose true sizes lie around 2^16 (65535 -/+ header sizes, 65536, 70 000, 131 072: where 16 bit length arithmetic would wrap); engines bytesweep / wordsweep: one header byte of a clean packet through all 256 values, one aligned 16 bit header word through all 65 536 values; where strict parsing succeeds the packet-level accessor methods of the lax result must answer like those of the strict one; engine quoted: packets quoted inside the four ICMPv6 error messages (generated ones and complete 1000 - 3000 octet ones), the typed views' as_lax_ip_slice() against LaxIpSlice::from_slice(invoking_packet()); a lax stop error has to describe the fault it records (layer, offset, byte counts, length source: the truthfulness rules of C07)",
        "assumptions": COMMON_ASSUME + [
            "reference decoder R in lax mode (DESIGN appendix B) incl. the documented relaxations (IPv4 total_len / IPv6 "
            "payload_len / MACsec short length / UDP length fall back to the slice)",
        ],
        "runs": {"quick": [dict(CHK), {"flavour": "rel", "scale": 0.25}], "thorough": [dict(CHK), {"flavour": "rel", "scale": 0.5}]},
        "mandatory": {
            "corpus_cases": 100000, "strict_ok_lax_same": 10000, "lax.layers_agree": 10000, "lax.no_stop": 1000, "lax.err_first_header": 100,
            "lax.stop.Vlan": 10, "lax.stop.Macsec": 10, "lax.stop.Arp": 10, "lax.stop.Ext*": 10, "lax.stop.Udp": 10,
            "lax.stop.Tcp": 10, "lax.stop.Icmp4": 5, "lax.stop.Icmp6": 5, "lax.stop.Ipv4": 10,
            "lax.incomplete_true.Macsec": 10, "lax.incomplete_true.Ipv4": 100, "lax.incomplete_true.Ipv6": 100,
            "lax.single_agree": 1000, "stop_error_equals_strict_error": 10000,
            "big_cases": 5000,
            "bytesweep_cases": 100000, "wordsweeps": 16,
            "strict_ok_lax_accessors_same": 10000,
            "quoted.decoded_same_as_lax_ip_slice": 10000, "quoted.long_packets": 5000, "quoted.incomplete_flagged": 1000, "quoted.PacketTooBig": 500, "quoted.TimeExceeded": 500, "quoted.DestinationUnreachable": 500, "quoted.ParameterProblem": 500,
        },
    },
    "C04": {
        "level": "exploration",
        "rule": "cases = generated packets (clean, hostile, truncation sweeps, IPv6 chains with repeated extension headers, all 65536 "
                "ether types) decoded by PacketHeaders and SlicedPacket (and LaxPacketHeaders / LaxSlicedPacket) from the same bytes; "
                "headers, stop errors, verdict and remaining payload range compared; where the reference decoder's struct-mode and "
                "slice-mode walks of the extension chain differ the struct result is judged against the struct-mode walk (computed "
                "permitted difference); distinct = distinct (entry point, layer sequence, outcome, payload kind); engine api: the variant accessors of LinkHeader / NetHeaders / TransportHeader / NetSlice answer exactly for the variant decoded; engine big: the same judgement on packets whose true sizes lie around 2^16 (65535 -/+ header sizes, 65536, 70 000, 131 072: where 16 bit length arithmetic would wrap); engines bytesweep / wordsweep: one header byte of a clean packet through all 256 values, one aligned 16 bit header word through all 65 536 values; engine jumbo: IPv6 packets whose hop-by-hop header starts with an RFC 2675 jumbo payload option (true size, less, more, nonsense), mostly with payload length 0, from the IP, ether type and Ethernet start points",
        "assumptions": COMMON_ASSUME + [
            "the conversion image of a slicing result (observe::whole::to_header_image) mirrors what to_header() keeps: all "
            "decoded field values, none of the byte offsets",
            "reference decoder walks (slice mode / struct mode) decide whether the permitted difference applies",
        ],
        "runs": {"quick": [dict(CHK), {"flavour": "rel", "scale": 0.25}], "thorough": [dict(CHK), {"flavour": "rel", "scale": 0.5}]},
        "mandatory": {
            "corpus_cases": 100000, "same": 10000, "same.udp": 500, "same.tcp": 500, "same.icmpv4": 200, "same.icmpv6": 200, "same.ip": 500,
            "same.ether": 500, "same.macsec_mod": 100, "same.empty": 100, "both_reject": 1000, "same_stop": 1000,
            "permitted_difference_ok": 500,
            "api.c04.net_slice_accessors": 10000, "api.c04.transport_accessors": 10000,
            "big_cases": 5000,
            "bytesweep_cases": 100000, "wordsweeps": 16,
            "jumbo.cases": 5000, "jumbo.payload_length_zero": 2000,
        },
    },
    "C06": {
        "level": "exploration",
        "rule": "cases = generated packets / headers through pairs of equivalent entry points: (a) the 12 IP boundary implementations "
                "(grouped by strict/lax, struct siblings compared among themselves when the extension chain does not fit the struct), "
                "(b) from_ethernet vs from_ether_type on the bytes behind the Ethernet II header (offsets +14) and (c) from_ether_type"
                "(IPv4/IPv6) vs from_ip in all 4 decoder families, (d) read() from a Cursor vs from_slice() for 24 reader entry points "
                "of 17 header types incl. cursor position; errors compared after projecting sibling layer names; equality demanded only "
                "for single-fault inputs; distinct = distinct (rule, entry point, outcome signature); engine api: the deprecated read_from_slice doors (6 header types) and Ethernet2Header::from_bytes equal from_slice, value and rest; engine big: the same judgement on packets whose true sizes lie around 2^16 (65535 -/+ header sizes, 65536, 70 000, 131 072: where 16 bit length arithmetic would wrap); the skip walkers over a slice (Ipv6Header::skip_header_extension_in_slice / skip_all_…) against a reference walk, and their io::Read doors against them; engine bytesweep: one header byte of a clean packet through all 256 values; one read case in three uses a source that delivers 1-4 octets per call and is interrupted now and then; reader doors also fed 1 - 3 octets per read call; content errors of the reader and the slice door converted into err::ReadError land in the same variant",
        "assumptions": COMMON_ASSUME + [
            "a too short slice corresponds to io::ErrorKind::UnexpectedEof of a reader",
            "rules that depend on the total slice length (ICMPv4 timestamp exact size, IP total length vs slice) are excluded when only the slice decoder can know them",
        ],
        "runs": {"quick": [dict(CHK), {"flavour": "rel", "scale": 0.25}], "thorough": [dict(CHK), {"flavour": "rel", "scale": 0.5}]},
        "abnormal_owner": "C06",
        "mandatory": {
            "corpus_cases": 100000, "eth_vs_ether_type.same": 10000, "eth_vs_ether_type.same_error": 1000, "ether_type_vs_ip.same": 10000,
            "ether_type_vs_ip.same_error": 1000, "ip_siblings.same": 10000, "ip_siblings.same_error": 1000,
            "read_vs_slice.same_value": 10000, "read_vs_slice.rejection.Len": 1000, "read_vs_slice.rejection.Content": 500,
            "entry.*::read": 24000,
            "api.c06.alias_same_error": 100000, "api.c06.alias_same_value": 100000,
            "big_cases": 5000,
            "api.c06.skip_in_slice_ok": 10000, "api.c06.skip_in_slice_rejects": 10000, "api.c06.skip_reader_same": 10000,
            "bytesweep_cases": 100000,
            "read_vs_slice.chunked_source": 100000,
            "api.c06.converted_errors_same_variant": 20000, "read_vs_slice.chunked_source": 100000,
        },
    },
    "C01": {
        "level": "exploration",
        "rule": "cases = generated packets, truncation sweeps, IP-level inputs, single headers (slice and reader based), typed views "
                "(TCP/NDP option iterators, ICMP, IGMP, ARP, checksum helpers), noise; every decoding entry point x full accessor / "
                "conversion / iterator / formatter closure (observe/exhaust.rs) x 4 placements of the same bytes (end-aligned at a "
                "PROT_NONE page, start-aligned behind one, two odd offsets between different fillers); instruments: core's "
                "unsafe-precondition checks + overflow checks (chk), guard pages on the plain release build (rel), Miri on a reduced "
                "workload, in thorough also AddressSanitizer and valgrind memcheck with exact-size heap buffers; evaluations = calls "
                "into etherparse judged (one per entry point and placement); distinct = distinct (entry point, layer sequence / "
                "outcome class) signatures; engine mixed: IpHeadersSlice::{Ipv4,Ipv6} and SlicedPacket / LaxSlicedPacket assembled by the caller from the parts of two independently decoded packets, full accessor closure",
        "assumptions": COMMON_ASSUME + [
            "guard pages detect reads past the end / before the start of the buffer, not stray reads that stay inside it: those are "
            "left to the slice-relative checks of the chk flavour, ASan/Miri and the position-independence comparison",
            "Miri, ASan and memcheck see only the reduced workloads listed in instrument_runs",
        ],
        "runs": {
            "quick": [dict(CHK), {"flavour": "rel"}, {"flavour": "miri", "scale": 0.0004, "budget_s": 1500}],
            "thorough": [dict(CHK), {"flavour": "rel"}, {"flavour": "asan", "scale": 0.5}, {"flavour": "vg", "scale": 0.004, "budget_s": 7200},
                         {"flavour": "miri", "scale": 0.0001, "budget_s": 7200}],
        },
        "abnormal_owner": "C01",
        "mandatory": {
            "corpus_cases": 20000, "placements_compared": 100000, "sub_slices_checked": 1000000, "accessor_calls": 1000000,
            "entry.SlicedPacket::*": 1000, "entry.LaxSlicedPacket::*": 1000, "entry.PacketHeaders::*": 1000,
            "entry.LaxPacketHeaders::*": 1000, "entry.*::read": 1000, "entry.*::from_slice": 1000,
            "entry.IpHeadersSlice::Ipv4 assembled from two packets": 2000, "entry.IpHeadersSlice::Ipv6 assembled from two packets": 2000, "entry.SlicedPacket assembled from two packets": 2000,
        },
        "min_distinct": {"entry.*": 85},
    },
    "C02": {
        "level": "exploration",
        "rule": "same workload as C01 (every decoding entry point x accessor / conversion / iterator / formatter closure incl. "
                "Debug/Display of every result and error, iterators driven to exhaustion + 3 further next() calls under a step budget "
                "of items <= bytes+1), end-aligned placement; events: panic caught by the shell (overflow checks and debug assertions "
                "on), step budget exceeded, abnormal worker exit (abort/signal) or a hang confirmed twice in isolation; distinct = "
                "distinct (entry point, layer sequence / outcome class) signatures; engine mixed: IpHeadersSlice::{Ipv4,Ipv6} and SlicedPacket / LaxSlicedPacket assembled by the caller from the parts of two independently decoded packets, full accessor closure; every iterator's size_hint() brackets the items still to come",
        "assumptions": COMMON_ASSUME + ["hangs are decided on a 30 s no-progress watchdog and must reproduce twice in isolation"],
        "runs": {
            "quick": [dict(CHK), {"flavour": "rel", "scale": 0.5}],
            "thorough": [dict(CHK), {"flavour": "rel"}],
        },
        "abnormal_owner": "C02",
        "mandatory": {
            "accessor_calls": 1000000, "bytes_rendered": 100000000,
            "entry.SlicedPacket::*": 1000, "entry.LaxSlicedPacket::*": 1000, "entry.PacketHeaders::*": 1000,
            "entry.LaxPacketHeaders::*": 1000, "entry.*::read": 1000, "entry.TcpOptionsIterator::from_slice": 500,
            "entry.NdpOptionsIterator::from_slice": 500,
            "entry.IpHeadersSlice::Ipv4 assembled from two packets": 2000, "entry.IpHeadersSlice::Ipv6 assembled from two packets": 2000, "entry.SlicedPacket assembled from two packets": 2000,
        },
        "min_distinct": {"entry.*": 85},
    },
    "C11": {
        "level": "exploration",
        "rule": "cases = delivery histories: 1-4 datagrams whose stream ids differ in exactly one component (source, destination, "
                "identification, protocol, VLAN ids, channel, IP version), payload bytes unique per (stream, offset), random 8-aligned "
                "cuts plus consistent overlaps, empty final and empty inner fragments, delivered as real Ethernet/VLAN/IPv4|IPv6+fragment-header packets through SlicedPacket "
                "into IpDefragPool in random order with duplicates, interleaving, returned buffers (reuse), timestamp eviction and - in "
                "the conflict engine - unaligned / oversized / conflicting-end fragments in both arrival orders; every delivery is "
                "judged against a sequential model (None until the union of delivered ranges covers [0,end) with end known, then the "
                "original payload and protocol exactly once; errors for the three documented inconsistency classes); the verif_counts "
                "hook gives active-stream and pooled-buffer counts for conservation; plus IpDefragBuf driven directly; evaluations = "
                "deliveries judged; distinct = distinct (engine, datagram count, history length class, IP version) signatures; header bits a reassembler ignores (DSCP/ECN, TTL / hop limit, traffic class, don't-fragment) differ between the fragments of one datagram",
        "assumptions": COMMON_ASSUME + [
            "the sequential model in harness/src/monitors/c11.rs is the specification of reassembly",
            "uninitialised-memory exposure of recycled buffers is watched by Miri / memcheck on reduced histories",
        ],
        "runs": {
            "quick": [dict(CHK), {"flavour": "rel", "scale": 0.5}, {"flavour": "miri", "scale": 0.0003, "budget_s": 1500}],
            "thorough": [dict(CHK), {"flavour": "rel"}, {"flavour": "vg", "scale": 0.01, "budget_s": 7200},
                         {"flavour": "miri", "scale": 0.0002, "budget_s": 7200}, {"flavour": "asan", "scale": 0.3}],
        },
        "abnormal_owner": "C11",
        "mandatory": {
            "histories": 10000, "deliveries.completed": 10000, "deliveries.none": 50000, "deliveries.unfragmented": 1000,
            "duplicates_delivered": 1000, "buffers_returned": 1000, "streams_evicted": 100, "errors.unaligned": 500,
            "errors.too_big": 500, "errors.conflicting_end": 500, "conservation_checks": 50000, "buf.completed": 100,
            "bytes_reassembled_and_compared": 1000000,
            "datagrams.with_empty_final_fragment": 1000, "fragments.empty_inner": 1000,
            "datagrams.above_32k": 500,
            "cuts.power_of_two_offset": 1000,
            "deliveries.with_ignorable_bits_set": 100000,
        },
    },
    "C12": {
        "level": "exploration",
        "rule": "cases = Ipv6Extensions / Ipv4Extensions values: EXHAUSTIVE sub-domain of all 48 presence combinations (hop-by-hop, "
                "destination options, routing [+ final destination options], fragment, auth) x next_header of every present header and "
                "first header drawn from {0,43,44,51,60,17,59,255} = 3 831 624 configurations, plus random links, set_next_headers(n) "
                "for all 251 non-extension n x all presence combinations, IPv4 auth chains and the IpHeaders/NetHeaders wrappers; "
                "oracle = independent walk of the struct + independent parser of the written bytes; distinct = distinct (engine, "
                "presence combination, walk outcome) signatures; every chain is also walked and written through the IpHeaders wrapper (must agree with the extension walk started at the base header's field); engine api: which protocol numbers are extension headers (IANA list), Ipv6RoutingExtensions::header_len; announced bounds: header_len() of generated chains (smallest / largest / random header sizes) inside [MIN_LEN, MAX_LEN] of Ipv6Extensions / Ipv6RoutingExtensions / Ipv4Extensions / IpHeaders, bounds attained, a MAX_LEN buffer takes every walkable chain; builder door: PacketBuilder::ip(IpHeaders::Ipv6(..)) with every link stale, through write / write_to_vec / write_to_slice, must emit the RFC 8200 chain ending in n octet for octet; IPv4 builder door: size() against the octets emitted by the three output doors for base headers with options and stale links",
        "assumptions": COMMON_ASSUME + ["the reference walk in harness/src/monitors/c12.rs states RFC 8200 order and the struct's documented layout"],
        "coverage_extra": {"exhaustive_subdomains": {"ipv6 presence x links over S": 3831624}},
        "runs": {"quick": [dict(CHK), {"flavour": "rel", "scale": 0.25}], "thorough": [dict(CHK), {"flavour": "rel", "scale": 0.5}]},
        "mandatory": {
            "exhaustive.configurations": 3831624, "consistent_chains": 10000, "decoded_same": 5000, "hbh_not_at_start": 1000,
            "inconsistent_chains_rejected": 100000, "set_next_headers_ok": 40000, "ipv4.chains": 5000, "wrappers.write_ok": 10000,
            "wrappers.net_headers_ok": 5000,
            "wrappers.ipv4_walk_and_write_agree": 1000, "wrappers.ipv6_walk_and_write_agree": 100000, "api.ok": 100000,
            "decoded_same_through_all_doors": 5000,
            "set_next_headers_from_prelinked_ok": 1000,
            "api.c12.announced_bounds_checked": 300, "api.c12.largest_chain": 5,
            "builder_door.links_stale_chain_to_n": 5000,
            "builder_door.ipv4_size_and_link": 1000,
        },
    },
    "C13": {
        "level": "exploration",
        "rule": "cases = TCP option element lists (EXHAUSTIVE over all list shapes of 0..=7 elements over nine shapes incl. SACK with 0-3 extra "
                "blocks, lists composed to exact sizes 24..56, random lists) through try_from_elements / set_options / elements_iter, and raw "
                "option areas (EXHAUSTIVE: all byte strings of length 0..3 and every (kind, length octet, octets left) triple; grammar "
                "generated, random, mutated encodings) through TcpOptionsIterator / try_from_slice / set_options_raw / header slices; oracle = "
                "independent RFC 9293/2018/7323 encoder + parser (refmodel/tcpopts.rs); rest() before/after every item, error fields, "
                "exhaustion, step budget; distinct = distinct (engine, item kind sequence, outcome) signatures; engine api: the trait doors of TcpOptions (TryFrom<&[u8]>, Deref, AsRef/AsMut, Eq/Ord/Hash over the live bytes only, as_mut_slice) and the deprecated TcpHeader accessors; size_hint() in front of every next() brackets the items still to come; rejected lists also through the TryFrom<&[TcpOptionElement]> door (same required size), lists of up to 67 elements; a clone of the iterator taken after the first next() continues like the original",
        "assumptions": COMMON_ASSUME + [
            "a SACK element with gaps in its block array ([None, Some, None]) is compacted on the wire (the format cannot express the gap): the compacted element is demanded",
            "where several rules are broken at once every truthful error description is accepted",
        ],
        "coverage_extra": {"exhaustive_subdomains": {"raw areas len 0..3": 16843009, "raw (kind,len,left)": 2555904, "list shapes len 0..7": 5380840}},
        "runs": {"quick": [dict(CHK), {"flavour": "rel", "scale": 0.25}], "thorough": [dict(CHK), {"flavour": "rel", "scale": 0.5}]},
        "abnormal_owner": "C13",
        "mandatory": {
            "exh.raw_len_0": 1, "exh.raw_len_1": 256, "exh.raw_len_2": 65536, "exh.raw_len_3": 16777216, "exh.raw_kind_len_left": 2555904,
            "exh.list_shapes_len_7": 4782969, "exh.list_shapes_len_6": 531441,
            "lists.accepted": 800000, "lists.rejected": 3000000, "lists.size_40": 30000, "lists.size_41": 30000,
            "elem.decoded.sack4": 80000, "err.UnexpectedEndOfSlice": 400000, "err.UnexpectedSize": 1500000, "err.UnknownId": 20000000,
            "areas.fully_tiled_nonempty": 250000, "areas.fault_behind_valid_items": 1000000, "raw_set.rejected_over_40": 10000,
            "header_slice_paths.agree": 6000000,
            "api.ok": 100000,
            "builder_options.accepted": 1000, "builder_options.replaced_earlier_options": 1000,
            "header_owned_paths.agree": 10000,
            "size_hints_checked": 1000000,
            "lists.more_than_40_elements": 2000, "lists.rejected_by_trait_door_too": 100000,
        },
    },
    "C14": {
        "level": "exploration",
        "rule": "table driven: one row per length-taking API (Ipv4Header::new/set_payload_len/set_options, IpHeaders::set_payload_len with and "
                "without extension headers, Ipv6Header::set_payload_length, UdpHeader constructors and checksum functions, TCP/UDP/ICMPv6 "
                "pseudo-header checksum functions incl. TransportHeader::update_checksum_ipv4, MACsec set_payload_len / from_len, "
                "IpAuthHeader::new/set_raw_icv, Ipv6RawExtHeader::new_raw/set_payload, Ipv4Options, TcpHeader::set_options_raw, "
                "ArpPacket::new/set_hw_addrs/set_protocol_addrs, PacketBuilder payloads for every transport x IP version); probes {0,1,limit-4..limit+4, alignment neighbours, 2^16+-2, 2^32+-2, "
                "usize::MAX}; the true limit of each row is derived from the wire field width in the monitor; huge payloads are NORESERVE "
                "zero mappings (accept side of the 2^32 limits in thorough only); distinct = distinct (API, below/at/above limit class); accepted IPv6 upper-layer lengths >= 2^16 must be encoded exactly: checksum through six TCP doors and ICMPv6 compared with the reference that uses the 32 bit length; engine tcp_elements: option element lists around the 40 octet limit incl. SACKs with holes through three doors; option-area lengths also around the values that wrap onto an acceptable one when narrowed to 8 / 16 bit; rejected lengths are probed on headers that already hold a value (unchanged-on-error is only visible then)",
        "assumptions": COMMON_ASSUME + ["huge payloads are read-only zero mappings: their content is irrelevant for the limit rules"],
        "runs": {"quick": [dict(CHK, shards=8)], "thorough": [dict(CHK, shards=8)]},
        "mandatory": {"accepted.*": 10000, "rejected.*": 10000, "macsec.unknown_fallback": 100, "macsec.encoded_exactly": 100,
                      "rejected.IpHeaders::set_payload_len(ipv4+auth)": 100, "rejected.Icmpv6Type::calc_checksum": 10,
                      "rejected.TcpHeader::calc_checksum_ipv6": 10, "rejected.UdpHeader::calc_checksum_ipv6_raw": 10,
                      "rejected.PacketBuilder(udp/ipv6)": 200, "rejected.PacketBuilder(udp/ipv4)": 200, "rejected.PacketBuilder(tcp/ipv6)": 200,
                      "accepted.PacketBuilder(udp/ipv6)": 100, "accepted.PacketBuilder(raw/ipv4)": 20,
            "pseudo6_exact.TcpSlice::calc_checksum_ipv6": 8, "pseudo6_exact.Icmpv6Type::calc_checksum": 8,
            "tcp_elements.sack_with_hole": 1000, "accepted.TcpOptions::try_from_elements": 1000, "rejected.TcpHeader::set_options": 1000, "rejected.PacketBuilder::tcp().options": 1000,
            "pseudo4_exact": 32, "accepted.TcpHeaderSlice::calc_checksum_ipv4_raw": 32, "rejected.TcpSlice::calc_checksum_ipv4": 8,
            "rejected.TransportHeader::update_checksum_ipv6(unchanged)": 3,
        },
        "min_distinct": {"accepted.*": 36, "rejected.*": 36},
    },
    "C15": {
        "level": "exploration",
        "rule": "EXHAUSTIVE over the complete raw domain of every bounded type through try_new/TryFrom (u8 types: 256 each, VlanId/IpFragOffset: "
                "65536, Ipv6FlowLabel: the complete u32 domain), decode side: all 65536 values of the octet pairs holding VLAN PCP/DEI/VID, IPv4 "
                "flags/fragment offset, IPv6 fragment offset, MACsec TCI/SL, all 256 IPv4 TOS / IGMPv3 octet-8 values, all 2^20 flow labels; "
                "encode side: every value of each field against all-zeros/all-ones/random neighbours, diff against a baseline header must stay "
                "inside the field's mask; oracle = independent mask table from IEEE 802.1Q/802.1AE, RFC 791/2474/3168/8200/3376; distinct = "
                "distinct (type, accepted/rejected class) / (header, field) signatures; engine api: TryFrom / From / Display of all nine bounded types over their complete raw domain, MacsecShortLen::from_len, the named DSCP code points (IpDscpKnown) against the RFC values; MacsecHeader::set_payload_len over small lengths, powers of two and the largest usize values; every value of a VLAN tag's 16 bit control word through the four packet-level vlan_ids() copies",
        "assumptions": COMMON_ASSUME + ["acceptance decisions of decoders (MACsec version bit, IHL, ...) are counted, not judged here (C03)"],
        "coverage_extra": {"exhaustive_subdomains": {"Ipv6FlowLabel raw u32": 4294967296, "VlanId raw u16": 65536, "IpFragOffset raw u16": 65536}},
        "runs": {"quick": [dict(CHK)], "thorough": [dict(CHK)]},
        "mandatory": {
            "selfcheck.reference_table_ok": 1, "exhaustive.VlanId.values": 65536, "exhaustive.IpFragOffset.values": 65536,
            "exhaustive.VlanPcp.values": 256, "exhaustive.IpDscp.values": 256, "exhaustive.IpEcn.values": 256,
            "exhaustive.MacsecAn.values": 256, "exhaustive.MacsecShortLen.values": 256, "exhaustive.igmp::Qrv.values": 256,
            "exhaustive.Ipv6FlowLabel.full_domain.values": 4294967296, "exhaustive.Ipv6FlowLabel.full_domain.accepted": 1048576,
            "exhaustive.dec_vlan.values": 65536, "exhaustive.dec_ipv4_frag.values": 65536, "exhaustive.dec_ipv6_frag.values": 65536,
            "exhaustive.dec_macsec.values": 65536, "exhaustive.dec_macsec.accepted_values": 32000, "exhaustive.dec_ipv6.flow_labels": 1048576,
            "exhaustive.enc.Ipv6Header.flow_label": 1048576, "exhaustive.enc.Ipv4Header.fragment_offset": 8192,
            "exhaustive.enc.SingleVlanHeader.vlan_id": 4096, "exhaustive.enc.MacsecHeader.short_len": 64,
            "exhaustive.enc.IgmpMembershipQueryWithSources.qrv": 8, "igmp_setters.ok": 68096, "ipv6_tc_setters.ok": 17408,
            "api.c15.sweeps": 16,
            "api.c15.vlan_ids_tag_values": 65536,
        },
    },
    "C09": {
        "level": "exploration",
        "rule": "helper level: Sum16BitWords / u32_16bit_word / u64_16bit_word over all lengths 0..=70 x alignments 0..7 x 7 structured contents "
                "(exhaustive) with every subset of even cut points (short data) or all 1-/2-cut splits, arbitrary start accumulators incl. "
                "values at the 32/64 bit carry boundary, add_2/4/8/16bytes decompositions, random data up to 64 KiB; header level: IPv4 "
                "header, UDP/TCP over IPv4/IPv6 from structs and slices, ICMPv4, ICMPv6 (+ is_checksum_valid on valid / one-bit-off / random "
                "messages), IGMP, TransportHeader::update_checksum_*, PacketBuilder output; computed-zero UDP cases are constructed; oracle = "
                "independent RFC 1071 sum + pseudo header composers (refmodel/checksum.rs); distinct = distinct (routine, length class, "
                "alignment, carry class) signatures; after add_{4,8,16}bytes(&mut self) the receiver holds its old sum or the returned one; contents include carry stress (every 4 / 8 octet word all ones or a small number near the count of all-ones words, either byte order: sums next to the multiples of 2^32 / 2^64); every second TCP case on a reused header (options shortened after a full non-zero option area)",
        "assumptions": COMMON_ASSUME + [
            "helper results are compared in memory order (the crate's documented convention: callers apply to_be())",
            "UDP over IPv6 jumbograms and TCP/ICMPv6 lengths above ~70000 bytes are not judged here (C14 probes the limits)",
        ],
        "runs": {"quick": [dict(CHK)], "thorough": [dict(CHK)]},
        "mandatory": {
            "helper_exh.cases": 7952, "helper_rand.cases": 200000, "checked.u64_16bit_word.ones_complement": 20736,
            "splits.all_subsets_cases": 2576, "checked.split_sequences": 10000000, "agree.32_vs_64": 800000,
            "carry.out_of_32bit": 400000, "carry.out_of_64bit": 300000, "udp.computed_zero_cases": 150000,
            "builder.udp_computed_zero_cases": 20000, "tcp.computed_zero_cases": 50000, "is_checksum_valid.true_seen": 600000,
            "is_checksum_valid.false_seen": 300000, "checked.Ipv4Header::calc_header_checksum": 1000000,
            "checked.UdpHeader::with_ipv4_checksum": 400000, "checked.UdpHeader::with_ipv6_checksum": 400000,
            "checked.TcpHeader::calc_checksum_ipv4": 300000, "checked.TcpSlice::calc_checksum_ipv6": 300000,
            "checked.Icmpv4Header::with_checksum": 700000, "checked.Icmpv6Header::with_checksum": 550000,
            "checked.IgmpHeader::with_checksum": 500000, "checked.TransportHeader::update_checksum_*": 500000,
            "checked.PacketBuilder*": 800000,
            "helper.receiver_state_checks": 1000000,
        },
    },
    "C16": {
        "level": "fault_enumeration",
        "rule": "for each sampled value (20 writer types incl. IpHeaders / Ipv4Extensions / Ipv6Extensions / LinkHeader / TransportHeader, 24 reader "
                "entry points of 17 header types, 5 length-limited readers, random PacketBuilder configurations) EVERY fault position is "
                "injected: a writer failing at byte k for all k in 0..=n+1 in two modes (partial chunk accepted / chunk rejected), an output "
                "slice of every length 0..=n+1 ending at a PROT_NONE page with canaries in front, a reader failing at byte k for all k up "
                "to the bytes the decoder needs, a LimitedReader limit for all 0..=n+2 over a counting reader; evaluations = injected "
                "faults judged; distinct = distinct (kind, type, encoded length) signatures; engine skip: Ipv6Header::skip_header_extension / skip_all_header_extensions over seekable sources that end or fail at every position of the chain (fault surfaced iff a skipped header is not completely readable; cursor position on success); sources / sinks that hand out / take 1 - 3 octets per call; a space error's numbers as restated by BuildSliceWriteError::from and both messages; LimitedReader driven directly over call histories (fitting reads, refused reads, start_layer) against a budget model",
        "assumptions": COMMON_ASSUME + [
            "the complete encoding a partial write must be a prefix of is what the same value writes into a Vec (byte-level correctness of encodings is C08's job)",
        ],
        "runs": {"quick": [dict(CHK)], "thorough": [dict(CHK), {"flavour": "asan", "scale": 0.3}]},
        "abnormal_owner": "C16",
        "mandatory": {
            "writers.fault_surfaced": 1000000, "writers.ok_at_full_budget": 50000, "slices.space_error": 10000, "slices.ok": 2000,
            "readers.fault_surfaced": 1000000, "readers.unaffected": 50000, "limited.len_error": 100000, "limited.ok": 20000,
            "builder.fault_surfaced": 1000000, "builder.slices.space_error": 500000, "builder.configs": 10000,
            "writers.multi_part_fault.IpHeaders": 10000, "writers.multi_part_fault.Ipv6Extensions": 10000,
            "writers.multi_part_fault.Ipv4Header": 10000, "writers.multi_part_fault.TcpHeader": 10000,
            "skip.all_fault_surfaced": 10000, "skip.step_fault_surfaced": 10000, "skip.all_ok": 10000,
            "readers.chunked_source": 10000, "writers.short_write_sinks": 100000,
            "limited.history_steps": 10000, "limited.history_refusals": 1000,
        },
        "min_distinct": {"writers.values.*": 20, "readers.values.*": 24},
    },
    "C10": {
        "level": "exploration",
        "rule": "cases = PacketBuilder configurations: all constructible paths {none, ethernet2, linux_sll} x {no, single, double VLAN via ids or "
                "headers} x {ipv4, ipv6, ip(IpHeaders with options / AH / IPv6 extension sets), ARP} x {raw, udp, tcp(+flags, options, raw "
                "options), tcp_header, icmpv4 typed/raw/echo, icmpv6 typed/raw/echo} with random values, plus random configurations and "
                "payload lengths at the IPv4/IPv6 length limits +-2; judged: size() vs bytes written, three writers identical, independent "
                "reference decoder and SlicedPacket accept and agree, configured values recovered, derived lengths and all checksums "
                "(independent RFC 1071 reference), unencodable configurations rejected; distinct = distinct (engine, link, vlan depth, net "
                "kind, transport kind) signatures; the sink of the write door accepts at most 1 - 3 octets per call in three cases of four (short writes); payload contents all ones / carry stress in three cases of eight",
        "assumptions": COMMON_ASSUME + [
            "reference decoder R (strict) and refmodel/checksum.rs, refmodel/tcpopts.rs",
            "ICMPv4 timestamp messages are only judged with the payload their fixed size admits",
        ],
        "runs": {"quick": [dict(CHK), {"flavour": "rel", "scale": 0.25}], "thorough": [dict(CHK), {"flavour": "rel", "scale": 0.5}]},
        "mandatory": {
            "consistent_packets": 500000, "three_writers_identical": 500000, "consistent.Udp.v4": 20000, "consistent.Udp.v6": 20000,
            "consistent.Tcp.v4": 20000, "consistent.Tcp.v6": 20000, "consistent.Icmp4.v4": 20000, "consistent.Icmp6.v6": 20000,
            "unencodable_rejected.Icmpv6InIpv4": 10000, "unencodable_rejected.PayloadLen": 500, "limits.at_or_below": 1000,
            "paths.configs": 100000,
            "tcp.options_replaced_by_second_call": 1000,
            "writer_door.sink_takes_1_to_3_octets_per_call": 20000, "writer_door.sink_takes_all": 5000,
            "payloads.all_ones": 5000, "payloads.carry_stress": 10000,
        },
    },
    "C17": {
        "level": "exploration",
        "rule": "EXHAUSTIVE over all 65536 (type, code) pairs of ICMPv4 and ICMPv6 x body lengths around every threshold, all (NDP option type, "
                "length units) pairs x area lengths, all 256 IGMP types x lengths 0..40, all (hlen, plen) ARP pairs; plus random / grammar "
                "generated ICMP bodies, NDP option lists, IGMPv3 queries/reports with group records, Ethernet/IPv4-shaped ARP packets; oracle = "
                "independent RFC 792/4443/4861/1112/2236/3376/9776/826 decoder (refmodel/ctrl.rs): kind, fields, fixed/variable split, option "
                "tiling, rejection rule, unknown fallback; distinct = distinct (family, kind, outcome) signatures; engine api: ICMPv4 / ICMPv6 code helpers over all 256 codes against the assigned ranges and against the decoder, TimestampMessage::from_bytes, Icmpv6Type::payload_from_slice and the owned NDP payload structs (RFC 4861 fixed-part lengths, write = to_bytes = the decoded bytes), igmp::GroupAddress; ArpPacket == / Hash against packets decoded from its own encoding with one octet changed per field",
        "assumptions": COMMON_ASSUME + [
            "assigned but untyped ICMP types/codes are expected as Unknown/Raw, typed ones as the crate's documentation tables claim",
            "LenError layer / len_source are C07's job; only required_len and len are compared here",
        ],
        "coverage_extra": {"exhaustive_subdomains": {"icmpv4 (type,code)": 65536, "icmpv6 (type,code)": 65536, "ndp (type,units)": 65280, "arp (hlen,plen)": 65536}},
        "runs": {"quick": [dict(CHK), {"flavour": "rel", "scale": 0.25}], "thorough": [dict(CHK), {"flavour": "rel", "scale": 0.5}]},
        "mandatory": {
            "exhaustive.icmp4.typed_pairs": 29, "exhaustive.icmp4.unknown_pairs": 65507, "exhaustive.icmp6.typed_pairs": 28,
            "exhaustive.icmp6.unknown_pairs": 65508, "exhaustive.ndp.type_units_pairs": 65280, "exhaustive.igmp.type_len_pairs_accepted": 8445,
            "exhaustive.arp.hlen_plen_pairs": 65536, "selfcheck.reference_vectors_ok": 16,
            "icmp4.unknown_fallback": 3000000, "icmp6.unknown_fallback": 5000000, "ndp.errors_seen": 2000000, "ndp.area_clean": 1200000,
            "igmp.group_records": 1000000, "arp.eth_ipv4.ok": 600000, "icmp4.rejected.icmp4.timestamp_short": 40000,
            "ndp.reject.ZeroLength": 180000, "ndp.reject.WrongFixedSize": 180000, "igmp.rejected.igmp.query_9_to_11": 40000,
            "api.c17.owned_payloads": 1000, "api.ok": 100000,
            "arp.eq_distinguishes_every_field": 100000,
        },
    },
    "C08": {
        "level": "exploration",
        "rule": "byte direction: generated (hostile) headers of 24 decoder entry points / 17 header types; every input b accepted by from_slice or "
                "(one case in three) by read: to_bytes = write "
                "(write_raw for IPv4), length = header_len = bytes consumed, re-encoding equals b under the reserved-bit mask table "
                "(MACsec SL reserved bits, IPv4 reserved flag, AH reserved, fragment header reserved, TCP reserved; typed ICMP and extension "
                "chains compared at value level), decode(encode(v)) = v with empty remainder, read(encode(v)) = v; value direction: directly "
                "constructed values of 16 types over extremes, all option / ICV / address lengths, every typed ICMPv4/ICMPv6 variant, "
                "consistent IpHeaders sets; grow-then-shrink setter sequences compared with freshly constructed values; distinct = distinct "
                "(direction, type, encoded length) signatures; a third door for the byte direction: 21 slice types converted with to_header(); engine api: ArpEthIpv4Packet <-> ArpPacket views against the RFC 826 layout, Ipv4Options array conversions, NdpOptionHeader; setters followed by a Hash / Ord / Eq consistency check; IGMP byte direction",
        "assumptions": COMMON_ASSUME + [
            "Ipv4Header::write / IpHeaders::write deliberately recompute the header checksum (documented): compared through write_raw / with inputs that carry a correct checksum",
            "reference encoders are replaced by the reserved-bit mask comparison against accepted input bytes; IGMP, group records and PrefixInformation round trips are covered by C17/C09",
        ],
        "runs": {"quick": [dict(CHK), {"flavour": "rel", "scale": 0.25}], "thorough": [dict(CHK), {"flavour": "rel", "scale": 0.5}]},
        "mandatory": {
            "bytes.round_trips": 1000000, "bytes.reencoded_identical_under_mask": 800000, "bytes.two_serialisers_agree": 1000000,
            "values.round_trips": 800000, "setters.ok": 1000000, "values.type.Icmpv4Header(timestamp)": 5000,
            "bytes.accepted_by_read": 100000, "bytes.accepted_by_from_slice": 100000,
            "api.c08.arp_views": 10000, "bytes.door.TcpSlice::to_header": 1000, "bytes.door.MacsecHeaderSlice::to_header": 1000,
            "values.sll_protocol_variant.LinuxNonstandardEtherType": 1000, "values.sll_protocol_variant.NetlinkProtocolType": 1000,
            "bytesweep_cases": 100000,
            "api.c08.igmp_round_trips": 10000,
        },
        "min_distinct": {"bytes.type.*": 24, "values.type.*": 16},
    },
}
