#!/usr/bin/env python3
"""Regenerates the "which check catches which change" table of DESIGN.md §8 from
mutants/RESULTS.json, mutants/catalogue.json, seeded/RESULTS.json and seeded/*/meta.json.

  python3 driver/results_table.py            # prints the table
  python3 driver/results_table.py --write    # replaces the block between the markers in DESIGN.md
"""
import json, os, sys, glob

VERIF = os.path.dirname(os.path.dirname(os.path.abspath(__file__)))
BEGIN = "<!-- RESULTS_TABLE_BEGIN -->"
END = "<!-- RESULTS_TABLE_END -->"


def short(s, n=110):
    s = " ".join((s or "").split())
    return s if len(s) <= n else s[: n - 1] + "…"


def main():
    out = []
    mres = json.load(open(os.path.join(VERIF, "mutants/RESULTS.json"))) if os.path.exists(os.path.join(VERIF, "mutants/RESULTS.json")) else {}
    cat = {e["id"]: e for e in json.load(open(os.path.join(VERIF, "mutants/catalogue.json")))}
    out.append("### 8.1 Own mutants and fix reverts (`mutants/`)\n")
    out.append("`tests` = does the repository's own unit-test suite notice the change. `equivalent` = the change "
               "cannot alter any observable behaviour (reason in `catalogue.json`).\n")
    out.append("| id | change | repo tests | expected | checks that fired (quick tier) |")
    out.append("|---|---|---|---|---|")
    n = det = surv = 0
    for mid in sorted(cat):
        e = cat[mid]
        r = mres.get(mid)
        exp = ",".join(e.get("expected", []))
        if e.get("equivalent"):
            out.append("| %s | %s | %s | %s | equivalent: %s |" % (mid, short(e["description"]), (r or {}).get("existing_tests", "-"), exp, short(e["equivalent"], 200)))
            continue
        if not r or "checks" not in r:
            out.append("| %s | %s | - | %s | (not run) |" % (mid, short(e["description"]), exp))
            continue
        n += 1
        fired = ",".join(r["fired"]) or "**NONE**"
        if r["fired"]:
            det += 1
            if r.get("existing_tests") == "pass":
                surv += 1
        out.append("| %s | %s | %s | %s | %s |" % (mid, short(e["description"]), r.get("existing_tests", "-"), exp, fired))
    out.append("\n%d of %d non-equivalent mutants detected; %d of the detected ones pass the repository's own unit tests.\n" % (det, n, surv))

    sres = json.load(open(os.path.join(VERIF, "seeded/RESULTS.json"))) if os.path.exists(os.path.join(VERIF, "seeded/RESULTS.json")) else {}
    out.append("### 8.2 Independently seeded changes (`seeded/`)\n")
    out.append("All of these compile, pass the 1112 unit tests and 111 doc tests (re-confirmed by `driver/verify_seeded.py`), "
               "and were written without sight of /verif.\n")
    out.append("| id | property | file | needs | checks that fired (quick tier) |")
    out.append("|---|---|---|---|---|")
    n = det = 0
    for mp in sorted(glob.glob(os.path.join(VERIF, "seeded/*/meta.json"))):
        sid = os.path.basename(os.path.dirname(mp))
        m = json.load(open(mp))
        files = sorted({l.split(" b/")[-1].strip().replace("etherparse/src/", "") for l in open(os.path.join(os.path.dirname(mp), "patch.diff")) if l.startswith("diff --git")})
        r = sres.get(sid, {})
        n += 1
        fired = ",".join(r.get("fired", [])) or ("**NONE**" if r else "(not run)")
        if r.get("fired"):
            det += 1
        note = m.get("strengthened")
        out.append("| %s | %s | %s | %s | %s%s |" % (sid, m.get("property"), ", ".join(files), short(m.get("needs"), 160), fired,
                                                  (" — " + short(note, 200)) if note else ""))
    out.append("\n%d of %d seeded changes detected by the check of the property they target.\n" % (det, n))
    text = "\n".join(out)
    if "--write" in sys.argv:
        p = os.path.join(VERIF, "DESIGN.md")
        s = open(p).read()
        if "RESULTS_TABLE_PLACEHOLDER" in s:
            s = s.replace("RESULTS_TABLE_PLACEHOLDER", BEGIN + "\n" + END)
        a, b = s.index(BEGIN), s.index(END)
        s = s[: a + len(BEGIN)] + "\n" + text + "\n" + s[b:]
        open(p, "w").write(s)
    else:
        print(text)


if __name__ == "__main__":
    main()
