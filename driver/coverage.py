#!/usr/bin/env python3
"""Which parts of etherparse do the monitors' workloads actually execute?

  python3 driver/coverage.py [--scale 0.02] [--props C01,C07] [--keep]

Builds the harness with -Cinstrument-coverage (nightly, own target dir), runs the quick-tier
workload of every property (one shard, scaled down), merges the profiles and writes
coverage/REPORT.md + coverage/functions.json: per etherparse source file the line coverage, and the
list of non-test functions that no workload reached. This is a development instrument (it tells
where a realistic change could hide from every monitor); it is not one of the checks.
"""
import json, os, re, subprocess, sys, shutil, glob, tempfile

VERIF = os.path.dirname(os.path.dirname(os.path.abspath(__file__)))
HARNESS = os.environ.get("VERIF_HARNESS_DIR") or os.path.join(VERIF, "harness")
OUT = os.path.join(VERIF, "coverage")
ENV = dict(os.environ, CARGO_NET_OFFLINE="true")


def sh(*a, **k):
    return subprocess.run(a, stdout=subprocess.PIPE, stderr=subprocess.STDOUT, text=True, **k)


def main():
    a = sys.argv[1:]
    scale = "0.02"
    props = ["C%02d" % i for i in range(1, 18)]
    if "--scale" in a:
        scale = a[a.index("--scale") + 1]
    if "--props" in a:
        props = a[a.index("--props") + 1].split(",")
    sysroot = sh("rustc", "+nightly", "--print", "sysroot").stdout.strip()
    tools = glob.glob(os.path.join(sysroot, "lib/rustlib/*/bin"))[0]
    work = tempfile.mkdtemp(prefix="ep_cov_")
    try:
        r = sh("cargo", "+nightly", "build", "--release", "--offline", "--target-dir", "target-cov", cwd=HARNESS,
               env=dict(ENV, RUSTFLAGS="-Cinstrument-coverage"))
        if r.returncode != 0:
            print(r.stdout[-3000:])
            sys.exit(2)
        binp = os.path.join(HARNESS, "target-cov/release/epverif")
        procs = []
        for p in props:
            env = dict(ENV, LLVM_PROFILE_FILE=os.path.join(work, "%s_%%p.profraw" % p),
                       VERIF_CORPUS=os.path.join(VERIF, "corpus", "diff_all.bin"))
            procs.append((p, subprocess.Popen([binp, "run", "--prop", p, "--tier", "quick", "--seed", "1", "--shard", "0", "--nshards", "1",
                                               "--out", os.path.join(work, p + ".jsonl"), "--progress", os.path.join(work, p + ".progress"),
                                               "--flavour", "rel", "--scale", scale], cwd=HARNESS, env=env,
                                              stdout=subprocess.DEVNULL, stderr=subprocess.DEVNULL)))
        for p, pr in procs:
            pr.wait()
            print(p, "exit", pr.returncode, flush=True)
        prof = os.path.join(work, "all.profdata")
        r = sh(os.path.join(tools, "llvm-profdata"), "merge", "-sparse", "-o", prof, *glob.glob(os.path.join(work, "*.profraw")))
        assert r.returncode == 0, r.stdout
        r = sh(os.path.join(tools, "llvm-cov"), "export", "-format=text", "-instr-profile", prof, binp,
               "--ignore-filename-regex", r"(\.cargo|rustc|harness/src|/library/)")
        assert r.returncode == 0, r.stdout[-2000:]
        data = json.loads(r.stdout)["data"][0]
        os.makedirs(OUT, exist_ok=True)
        files = []
        for f in data["files"]:
            name = f["filename"]
            if "etherparse/src/" not in name:
                continue
            s = f["summary"]["lines"]
            files.append((name.split("etherparse/src/")[1], s["covered"], s["count"]))
        # functions: demangled name, file, executed?
        demangle = sh("rustfilt", input="x").returncode == 0 if shutil.which("rustfilt") else False
        unreached = {}
        reached = 0
        for fn in data["functions"]:
            fnames = [x for x in fn["filenames"] if "etherparse/src/" in x]
            if not fnames:
                continue
            rel = fnames[0].split("etherparse/src/")[1]
            # region: [line_start, col_start, line_end, col_end, count, ...]
            first = fn["regions"][0]
            if fn["count"] > 0:
                reached += 1
                continue
            unreached.setdefault(rel, set()).add(first[0])
        # several monomorphisations / copies of one source function: reached if any copy was reached
        reached_lines = set()
        for fn in data["functions"]:
            fnames = [x for x in fn["filenames"] if "etherparse/src/" in x]
            if fnames and fn["count"] > 0:
                reached_lines.add((fnames[0].split("etherparse/src/")[1], fn["regions"][0][0]))
        report = []
        total_unreached = 0
        src_root = None
        for f in data["files"]:
            if "etherparse/src/" in f["filename"]:
                src_root = f["filename"].split("etherparse/src/")[0] + "etherparse/src/"
                break
        out_fns = {}
        for rel in sorted(unreached):
            lines = sorted(l for l in unreached[rel] if (rel, l) not in reached_lines)
            if not lines:
                continue
            try:
                src = open(os.path.join(src_root, rel)).read().split("\n")
            except OSError:
                continue
            # test modules start at "#[cfg(test)]": ignore everything behind it
            test_start = next((i + 1 for i, l in enumerate(src) if l.strip().startswith("#[cfg(test)]")), 10 ** 9)
            names = []
            for l in lines:
                if l >= test_start:
                    continue
                text = src[l - 1].strip() if l - 1 < len(src) else ""
                m = re.search(r"fn\s+([A-Za-z0-9_]+)", text)
                if not m:
                    # closure or derive: look upwards for the enclosing fn
                    continue
                if "#[derive" in text:
                    continue
                names.append("%s (line %d)" % (m.group(1), l))
            if names:
                out_fns[rel] = names
                total_unreached += len(names)
        cov = sum(c for _, c, _ in files)
        tot = sum(t for _, _, t in files)
        report.append("# etherparse code reached by the monitors' quick workloads (scale %s, 1 shard each)\n" % scale)
        report.append("line coverage of etherparse/src (test modules included in the denominator): %d / %d = %.1f%%\n" % (cov, tot, 100.0 * cov / max(tot, 1)))
        report.append("non-test functions never executed by any workload: %d\n" % total_unreached)
        for rel in sorted(out_fns):
            report.append("* `%s`: %s" % (rel, ", ".join(out_fns[rel])))
        open(os.path.join(OUT, "REPORT.md"), "w").write("\n".join(report) + "\n")
        json.dump({"files": files, "unreached": out_fns}, open(os.path.join(OUT, "functions.json"), "w"), indent=1)
        print("\n".join(report[:3]))
    finally:
        if "--keep" not in a:
            shutil.rmtree(work, ignore_errors=True)


if __name__ == "__main__":
    main()
