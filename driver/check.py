#!/usr/bin/env python3
"""Driver / supervisor of the etherparse runtime-monitoring harness (stdlib only).

  ./check setup                         build all flavours (offline)
  ./check <Cxx> [quick|thorough]        run one property check
  ./check replay <file>                 re-run a recorded violation
  ./check all [quick|thorough]          run every registered check

Exit codes: 0 held on everything observed, 1 violation (VIOLATION line printed),
2 inconclusive (build failure, harness self-check failure, mandatory counter not reached).
"""
import json, os, subprocess, sys, time, struct, signal, hashlib, shutil, fnmatch, re

VERIF = os.path.dirname(os.path.dirname(os.path.abspath(__file__)))
# (the environment overrides are used by driver/selftest.py only: it runs the checks against a
# scratch copy of the harness that depends on a scratch worktree of /repo, and must not touch the
# real work / evidence / replay directories)
HARNESS = os.environ.get("VERIF_HARNESS_DIR") or os.path.join(VERIF, "harness")
WORK = os.environ.get("VERIF_WORK_DIR") or os.path.join(VERIF, "work")
EVID = os.environ.get("VERIF_EVIDENCE_DIR") or os.path.join(VERIF, "evidence")
REPLAYS = os.environ.get("VERIF_REPLAYS_DIR") or os.path.join(VERIF, "replays")
KNOWN = os.path.join(VERIF, "known_findings.json")
NSHARDS = int(os.environ.get("VERIF_SHARDS", "16"))

ENV = dict(os.environ)
ENV["CARGO_NET_OFFLINE"] = "true"
ENV.setdefault("CARGO_TERM_COLOR", "never")
# keep RUSTFLAGS from the caller out of the plain flavours
ENV.pop("RUSTFLAGS", None)

sys.path.insert(0, os.path.dirname(os.path.abspath(__file__)))
from props import PROPS  # noqa: E402


def log(*a):
    print(*a, flush=True)


# ------------------------------------------------------------------------------------------------
# flavours
# ------------------------------------------------------------------------------------------------

def cargo(args, env=None, timeout=3600, cwd=HARNESS):
    e = dict(ENV)
    if env:
        e.update(env)
    return subprocess.run(["cargo"] + args, cwd=cwd, env=e, stdout=subprocess.PIPE,
                          stderr=subprocess.STDOUT, text=True, timeout=timeout)


FLAVOURS = {
    # name: (build args, env, binary path relative to harness)
    "chk": (["build", "--profile", "chk", "--offline"], {}, "target/chk/epverif"),
    "rel": (["build", "--release", "--offline"], {}, "target/release/epverif"),
    "asan": (["+nightly", "build", "--release", "--offline", "--target", "x86_64-unknown-linux-gnu",
              "--target-dir", "target-asan"],
             {"RUSTFLAGS": "-Zsanitizer=address -Cforce-frame-pointers=yes"},
             "target-asan/x86_64-unknown-linux-gnu/release/epverif"),
}

_built = {}


def build(flavour):
    """build (or re-link against the current /repo tree); returns binary path or None"""
    if flavour in _built:
        return _built[flavour]
    if flavour == "vg":
        p = build("rel")
        _built[flavour] = p
        return p
    if flavour == "miri":
        # built on demand by `cargo miri run`; make sure the sysroot exists
        _built[flavour] = "miri"
        return "miri"
    args, env, binp = FLAVOURS[flavour]
    t0 = time.time()
    r = cargo(args, env)
    if r.returncode != 0:
        log("BUILD FAILED for flavour %s:\n%s" % (flavour, r.stdout[-4000:]))
        _built[flavour] = None
        return None
    p = os.path.join(HARNESS, binp)
    log("built flavour %s in %.1fs" % (flavour, time.time() - t0))
    _built[flavour] = p
    return p


def worker_cmd(flavour, binp, args):
    if flavour == "miri":
        return ["cargo", "+nightly", "miri", "run", "--offline", "--target-dir", "target-miri", "--quiet", "--"] + args
    if flavour == "vg":
        return ["valgrind", "--tool=memcheck", "--error-exitcode=99", "--errors-for-leak-kinds=none",
                "--leak-check=no", "--quiet", binp] + args
    return [binp] + args


def worker_env(flavour):
    e = dict(ENV)
    # the corpus always comes from /verif itself, also when the harness is a scratch copy (selftest)
    e.setdefault("VERIF_CORPUS", os.path.join(VERIF, "corpus", "diff_all.bin"))
    if flavour == "asan":
        e["ASAN_OPTIONS"] = "halt_on_error=1:abort_on_error=1:detect_leaks=0:symbolize=1"
        e["ASAN_SYMBOLIZER_PATH"] = shutil.which("llvm-symbolizer") or shutil.which("llvm-symbolizer-14") or ""
    if flavour == "miri":
        e["MIRIFLAGS"] = "-Zmiri-disable-isolation"
    return e


# ------------------------------------------------------------------------------------------------
# supervisor
# ------------------------------------------------------------------------------------------------

def read_progress(path):
    try:
        with open(path, "rb") as f:
            b = f.read(64)
        if len(b) < 48:
            return None
        magic, eh, case, entry, calls, step = struct.unpack("<6Q", b[:48])
        if magic != 0x4550564552494621:
            return None
        return {"engine_hash": eh, "case": case, "entry": entry, "calls": calls, "step": step}
    except OSError:
        return None


def engine_table(binp, prop, tier):
    r = subprocess.run([binp, "list", "--prop", prop, "--tier", tier], stdout=subprocess.PIPE, text=True,
                       env=ENV, cwd=HARNESS)
    t = {}
    for line in r.stdout.split("\n"):
        p = line.split()
        if len(p) == 3:
            t[int(p[2], 16)] = p[0]
    return t


class Shard:
    def __init__(self, idx):
        self.idx = idx
        self.proc = None
        self.out = None
        self.progress = None
        self.parts = []      # finished output files
        self.crashes = []    # (engine, case, entry, returncode, stderr tail)
        self.last_progress = None
        self.last_change = time.time()
        self.started = time.time()
        self.attempt = 0
        self.done = False
        self.stderr_path = None


def run_flavour(prop, tier, seed, flavour, scale, wdir, budget_s, nshards=None):
    """runs all shards of one flavour; returns (list of output files, list of crash dicts, inconclusive reasons)"""
    binp = build(flavour)
    if binp is None:
        return [], [], ["build of flavour %s failed" % flavour]
    nsh = nshards or NSHARDS
    os.makedirs(wdir, exist_ok=True)
    list_bin = binp if flavour not in ("miri",) else build("chk")
    engines = engine_table(list_bin, prop, tier) if list_bin else {}
    shards = [Shard(i) for i in range(nsh)]
    inconclusive = []
    crashes = []

    def launch(sh, resume=None):
        sh.attempt += 1
        sh.out = os.path.join(wdir, "%s_s%d_a%d.jsonl" % (flavour, sh.idx, sh.attempt))
        sh.progress = os.path.join(wdir, "%s_s%d.progress" % (flavour, sh.idx))
        sh.stderr_path = os.path.join(wdir, "%s_s%d_a%d.stderr" % (flavour, sh.idx, sh.attempt))
        for p in (sh.out,):
            if os.path.exists(p):
                os.remove(p)
        args = ["run", "--prop", prop, "--tier", tier, "--seed", str(seed), "--shard", str(sh.idx),
                "--nshards", str(nsh), "--out", sh.out, "--progress", sh.progress, "--flavour", flavour,
                "--scale", str(scale)]
        if resume:
            args += ["--resume", "%s:%d" % resume]
        sh.proc = subprocess.Popen(worker_cmd(flavour, binp, args), cwd=HARNESS, env=worker_env(flavour),
                                   stdout=subprocess.DEVNULL, stderr=open(sh.stderr_path, "w"))
        sh.last_change = time.time()
        sh.last_progress = None

    for sh in shards:
        launch(sh)
    t_start = time.time()
    hang_limit = 30 if flavour in ("chk", "rel", "asan") else 600
    while not all(s.done for s in shards):
        time.sleep(0.05)
        now = time.time()
        if len(crashes) >= 8:
            # enough abnormal terminations to report: do not grind through hundreds of them
            for sh in shards:
                if not sh.done:
                    sh.proc.kill()
                    sh.proc.wait()
                    if os.path.exists(sh.out):
                        pass
                    sh.done = True
            inconclusive.append("flavour %s stopped early after %d abnormal terminations" % (flavour, len(crashes)))
            break
        for sh in shards:
            if sh.done:
                continue
            rc = sh.proc.poll()
            if rc is None:
                pr = read_progress(sh.progress)
                key = (pr["engine_hash"], pr["case"], pr["calls"]) if pr else None
                if key != sh.last_progress:
                    sh.last_progress = key
                    sh.last_change = now
                elif now - sh.last_change > hang_limit:
                    sh.proc.kill()
                    sh.proc.wait()
                    pr = read_progress(sh.progress) or {}
                    eng = engines.get(pr.get("engine_hash"), "?")
                    crashes.append({"kind": "hang", "engine": eng, "case": pr.get("case", 0),
                                    "entry": pr.get("entry", 0), "flavour": flavour, "rc": None,
                                    "stderr": "", "shard": sh.idx})
                    if eng != "?" and sh.attempt < 40:
                        launch(sh, (eng, pr.get("case", 0)))
                    else:
                        sh.done = True
                if now - t_start > budget_s:
                    sh.proc.kill()
                    sh.proc.wait()
                    sh.done = True
                    inconclusive.append("flavour %s shard %d exceeded the wall-clock watchdog (%ds)" % (flavour, sh.idx, budget_s))
                continue
            # finished
            if rc == 0 and os.path.exists(sh.out):
                sh.parts.append(sh.out)
                sh.done = True
                continue
            # abnormal exit
            try:
                tail = open(sh.stderr_path).read()[-3000:]
            except OSError:
                tail = ""
            pr = read_progress(sh.progress) or {}
            eng = engines.get(pr.get("engine_hash"), "?")
            if rc == 2 and not pr:
                inconclusive.append("worker refused to run: %s" % tail[-300:])
                sh.done = True
                continue
            crashes.append({"kind": "crash", "engine": eng, "case": pr.get("case", 0), "entry": pr.get("entry", 0),
                            "flavour": flavour, "rc": rc, "stderr": tail, "shard": sh.idx})
            if eng != "?" and sh.attempt < 40:
                launch(sh, (eng, pr.get("case", 0)))
            else:
                inconclusive.append("flavour %s shard %d died too often or outside a case (rc=%s): %s" % (flavour, sh.idx, rc, tail[-300:]))
                sh.done = True
    outs = []
    for sh in shards:
        outs += sh.parts
    return outs, crashes, inconclusive


def confirm_crash(prop, tier, seed, flavour, scale, c, wdir):
    """re-run the crashing case alone; returns (reproduced, description)"""
    binp = build(flavour)
    out = os.path.join(wdir, "confirm.jsonl")
    args = ["run", "--prop", prop, "--tier", tier, "--seed", str(seed), "--out", out, "--flavour", flavour,
            "--scale", str(scale), "--only", "%s:%d" % (c["engine"], c["case"])]
    results = []
    for _ in range(2):
        try:
            r = subprocess.run(worker_cmd(flavour, binp, args), cwd=HARNESS, env=worker_env(flavour),
                               stdout=subprocess.PIPE, stderr=subprocess.PIPE, text=True,
                               timeout=20 if flavour in ("chk", "rel", "asan") else 900)
            results.append((r.returncode, r.stderr[-3000:]))
        except subprocess.TimeoutExpired:
            results.append(("timeout", ""))
    if c["kind"] == "hang":
        rep = all(rc == "timeout" for rc, _ in results)
    else:
        rep = all(rc not in (0, "timeout") for rc, _ in results)
    return rep, results[-1]


def crash_signature(c, err):
    """stable signature of an abnormal termination: kind + first in-repo frame / message"""
    text = err or c.get("stderr", "") or ""
    m = re.search(r"(etherparse/src/[A-Za-z0-9_/]+\.rs):(\d+)", text)
    where = m.group(1) if m else ""
    what = "abort"
    if "unsafe precondition" in text:
        what = "ub_check"
    elif "AddressSanitizer" in text:
        m2 = re.search(r"AddressSanitizer: ([a-z\-]+)", text)
        what = "asan:" + (m2.group(1) if m2 else "?")
    elif "Undefined Behavior" in text:
        what = "miri_ub"
        m3 = re.search(r"Undefined Behavior: ([^\n]{0,80})", text)
        if m3:
            what = "miri_ub:" + re.sub(r"0x[0-9a-f]+|alloc\d+|\d+", "N", m3.group(1))[:60]
    elif "Invalid read" in text or "Invalid write" in text or "uninitialised" in text:
        what = "memcheck"
    elif c.get("rc") in (-11, 139, -7):
        what = "sigsegv"
    elif c["kind"] == "hang":
        what = "hang"
    return "%s|%s|entry=%s|%s" % (what, c["flavour"], c.get("entry", 0), where)


# ------------------------------------------------------------------------------------------------
# merging, known findings, evidence
# ------------------------------------------------------------------------------------------------

def load_known():
    try:
        return json.load(open(KNOWN))
    except (OSError, ValueError):
        return []


def known_match(known, prop, sig):
    for k in known:
        if k.get("property") == prop and k.get("status") == "known" and fnmatch.fnmatchcase(sig, k["signature"]):
            return k
    return None


def run_check(prop, tier, seed):
    if prop not in PROPS:
        log("no check registered for %s" % prop)
        return 2
    cfg = PROPS[prop]
    t0 = time.time()
    wdir = os.path.join(WORK, prop, tier)
    if os.path.isdir(wdir):
        shutil.rmtree(wdir)
    os.makedirs(wdir, exist_ok=True)
    os.makedirs(EVID, exist_ok=True)
    evid_path = os.path.join(EVID, "%s.json" % prop)
    runs = cfg["runs"][tier]
    merged = {"evals": 0, "counters": {}, "sigs": set(), "samples": [], "viol_count": {}, "selfcheck": [], "notes": set()}
    violations = []
    inconclusive = []
    instrument_runs = []
    abnormal = []
    for run in runs:
        flavour, scale = run["flavour"], run.get("scale", 1.0)
        budget = run.get("budget_s", 1800 if tier == "quick" else 14400)
        tr = time.time()
        outs, crashes, inc = run_flavour(prop, tier, seed, flavour, scale, wdir, budget, run.get("shards"))
        inconclusive += inc
        ev0 = merged["evals"]
        for o in outs:
            for line in open(o):
                line = line.strip()
                if not line:
                    continue
                d = json.loads(line)
                if d["t"] == "viol":
                    violations.append(d)
                else:
                    merged["evals"] += d["evals"]
                    for k, v in d["counters"].items():
                        merged["counters"][k] = merged["counters"].get(k, 0) + v
                    for k, v in d["viol_count"].items():
                        merged["viol_count"][k] = merged["viol_count"].get(k, 0) + v
                    merged["sigs"].update(d["sigs"])
                    if len(merged["samples"]) < 5:
                        merged["samples"] += d["samples"][: 5 - len(merged["samples"])]
                    merged["selfcheck"] += d["selfcheck_failures"]
                    merged["notes"].update(d["notes"])
        # abnormal terminations: confirm in isolation
        seen = set()
        for c in crashes:
            key = (c["engine"], c["case"])
            if key in seen or c["engine"] == "?":
                continue
            seen.add(key)
            if len(seen) > 12:
                break
            rep, last = confirm_crash(prop, tier, seed, flavour, scale, c, wdir)
            c["reproduced"] = rep
            c["sig"] = crash_signature(c, last[1] if last else "")
            c["detail"] = (last[1] if last else "")[-1500:]
            abnormal.append(c)
        instrument_runs.append({"flavour": flavour, "scale": scale, "evaluations": merged["evals"] - ev0,
                                "shards": run.get("shards") or NSHARDS, "abnormal_terminations": len(crashes),
                                "wall_s": round(time.time() - tr, 1)})

    # abnormal terminations are C01/C02 events; other checks only note them
    for c in abnormal:
        if not c.get("reproduced"):
            inconclusive.append("abnormal termination of a worker that did not reproduce in isolation: %s" % c["sig"])
            continue
        owner = cfg.get("abnormal_owner")
        if owner:
            violations.append({"t": "viol", "prop": owner if isinstance(owner, str) else prop,
                               "sig": "abnormal|" + c["sig"], "detail": c["detail"], "engine": c["engine"],
                               "case": c["case"], "flavour": c["flavour"], "input": ""})
        else:
            merged["notes"].add("NOTE abnormal termination (%s) in engine %s case %d — judged by C01/C02" % (c["sig"], c["engine"], c["case"]))
            merged["counters"]["skipped_abnormal"] = merged["counters"].get("skipped_abnormal", 0) + 1

    known = load_known()
    # de-duplicate by (prop, sig)
    by_sig = {}
    for v in violations:
        by_sig.setdefault((v["prop"], v["sig"]), []).append(v)
    new_viol = []
    known_hit = {}
    os.makedirs(os.path.join(REPLAYS, prop), exist_ok=True)
    for (vp, sig), vs in sorted(by_sig.items()):
        if vp != prop and not cfg.get("reports_for_others"):
            # a check only ever reports its own property
            continue
        k = known_match(known, vp, sig)
        if k:
            known_hit.setdefault(k["signature"], [k, 0])
            known_hit[k["signature"]][1] += merged["viol_count"].get("%s|%s" % (vp, sig), len(vs))
            continue
        v = vs[0]
        h = hashlib.sha1(("%s|%s" % (vp, sig)).encode()).hexdigest()[:12]
        rp = os.path.join(REPLAYS, prop, "%s_%s.json" % (tier, h))
        json.dump({"property": vp, "signature": sig, "detail": v["detail"], "engine": v["engine"], "case": v["case"],
                   "flavour": v.get("flavour", "chk"), "seed": seed, "tier": tier, "input_hex": v["input"],
                   "count": merged["viol_count"].get("%s|%s" % (vp, sig), len(vs)),
                   "replay_cmd": "./check replay %s" % os.path.relpath(rp, VERIF)}, open(rp, "w"), indent=1)
        new_viol.append((vp, sig, rp, v))

    # mandatory counters
    for key, minimum in cfg.get("mandatory", {}).items():
        got = sum(v for k, v in merged["counters"].items() if fnmatch.fnmatchcase(k, key))
        if got < minimum:
            inconclusive.append("mandatory counter %s: %d < %d" % (key, got, minimum))
    for key, minimum in cfg.get("min_distinct", {}).items():
        got = len([k for k, v in merged["counters"].items() if fnmatch.fnmatchcase(k, key) and v > 0])
        if got < minimum:
            inconclusive.append("distinct counters matching %s: %d < %d" % (key, got, minimum))
    if merged["selfcheck"]:
        inconclusive.append("harness self-check failed (%d): %s" % (len(merged["selfcheck"]), merged["selfcheck"][0][:600]))
    if merged["evals"] == 0:
        inconclusive.append("no evaluations")

    for n in sorted(merged["notes"]):
        log(n)
    for k in known:
        if k.get("property") == prop and k.get("status") == "known":
            hit = known_hit.get(k["signature"], [k, 0])[1]
            log("KNOWN-FINDING: property=%s %s [signature %s; observed %d times in this run]" % (prop, k["what"], k["signature"], hit))
    for vp, sig, rp, v in new_viol:
        log("VIOLATION property=%s replay=%s" % (vp, rp))
        log("   signature: %s" % sig)
        log("   %s" % v["detail"][:1200].replace("\n", "\n   "))

    wall = time.time() - t0
    distinct = len(merged["sigs"])
    samples = []
    for s in merged["samples"]:
        samples.append(s)
    if not samples:
        samples = [{"note": "no sample recorded"}]
    cov = {
        "evaluations": merged["evals"],
        "distinct_nontrivial": distinct,
        "rule": cfg["rule"],
        "samples": samples,
        "counters": dict(sorted(merged["counters"].items())),
        "instrument_runs": instrument_runs,
        "known_findings_hit": {k: v[1] for k, v in known_hit.items()},
        "inconclusive_reasons": inconclusive,
        "verdict": "violated" if new_viol else ("inconclusive" if inconclusive else "held"),
    }
    cov.update(cfg.get("coverage_extra", {}))
    evidence = {
        "property_id": prop,
        "tier": tier,
        "seed": seed,
        "level": cfg["level"],
        "coverage": cov,
        "assumptions": cfg["assumptions"],
        "wall_s": round(wall, 2),
        "violations": len(new_viol),
    }
    json.dump(evidence, open(evid_path, "w"), indent=1)
    log("%s %s seed=%d: %d evaluations, %d distinct non-trivial signatures, %d violation signature(s), %.1fs -> %s" % (
        prop, tier, seed, merged["evals"], distinct, len(new_viol), wall, cov["verdict"]))
    if new_viol:
        return 1
    if inconclusive:
        for i in inconclusive:
            log("INCONCLUSIVE: %s" % i)
        return 2
    return 0


def replay(path):
    d = json.load(open(path))
    prop, flavour = d["property"], d.get("flavour", "chk")
    # the check that recorded the file is named by its directory
    owner = os.path.basename(os.path.dirname(os.path.abspath(path)))
    binp = build(flavour)
    if binp is None:
        return 2
    out = os.path.join(WORK, "replay.jsonl")
    os.makedirs(WORK, exist_ok=True)
    args = ["run", "--prop", owner, "--tier", d["tier"], "--seed", str(d["seed"]), "--out", out, "--flavour", flavour,
            "--only", "%s:%d" % (d["engine"], d["case"])]
    for r in PROPS.get(owner, {}).get("runs", {}).get(d["tier"], []):
        if r["flavour"] == flavour:
            args += ["--scale", str(r.get("scale", 1.0))]
    log("replaying %s: engine %s case %d (flavour %s)" % (d["signature"], d["engine"], d["case"], flavour))
    r = subprocess.run(worker_cmd(flavour, binp, args), cwd=HARNESS, env=worker_env(flavour))
    found = False
    if r.returncode != 0:
        log("worker terminated abnormally (rc=%s)" % r.returncode)
        found = d["signature"].startswith("abnormal|")
    elif os.path.exists(out):
        for line in open(out):
            v = json.loads(line)
            if v["t"] == "viol":
                log("observed: %s\n   %s" % (v["sig"], v["detail"]))
                if v["sig"] == d["signature"]:
                    found = True
    log("expected signature %s: %s" % (d["signature"], "REPRODUCED" if found else "not reproduced"))
    return 1 if found else 0


def setup():
    ok = True
    for f in ("chk", "rel"):
        ok &= build(f) is not None
    # optional flavours: failures are reported but do not fail setup (the checks that need them
    # become inconclusive for that instrument)
    for f in ("asan",):
        if build(f) is None:
            log("note: flavour %s unavailable" % f)
    r = subprocess.run(["cargo", "+nightly", "miri", "setup"], cwd=HARNESS, env=ENV, stdout=subprocess.PIPE,
                       stderr=subprocess.STDOUT, text=True)
    if r.returncode != 0:
        log("note: miri setup failed: %s" % r.stdout[-500:])
    return 0 if ok else 2


def main():
    a = sys.argv[1:]
    if not a:
        print(__doc__)
        return 2
    seed = int(os.environ.get("VERIF_SEED", "1") or "1")
    if a[0] == "setup":
        return setup()
    if a[0] == "replay":
        return replay(a[1])
    tier = a[1] if len(a) > 1 else os.environ.get("VERIF_TIER", "quick")
    if tier not in ("quick", "thorough"):
        tier = "quick"
    if a[0] == "all":
        rc = 0
        for p in sorted(PROPS):
            rc = max(rc, run_check(p, tier, seed))
        return rc
    return run_check(a[0], tier, seed)


if __name__ == "__main__":
    sys.exit(main())
