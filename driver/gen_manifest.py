#!/usr/bin/env python3
"""Generates /verif/MANIFEST.json from driver/props.py (the single source of per-property configuration)."""
import json, os, sys, subprocess

VERIF = os.path.dirname(os.path.dirname(os.path.abspath(__file__)))
sys.path.insert(0, os.path.dirname(os.path.abspath(__file__)))
from props import PROPS  # noqa

LEVEL_TEXT = {
    "C01": "held on the executions listed in the evidence file: every decoding entry point with the full accessor/iterator/formatter closure, 4 placements per input, under core's unsafe-precondition checks, guard pages on the release build and Miri (thorough: + ASan, memcheck). Exploration is the right level: the property quantifies over all byte strings and memory placements; instruments decide each execution exactly.",
    "C02": "held on the executions listed: same closure workload with overflow checks and debug assertions on; panics, aborts, step-budget overruns and confirmed hangs are the refuting events.",
    "C03": "held on the generated packets listed: strict slicing agrees with an independent reference decoder (layers, fields, byte ranges, flags, verdict).",
    "C04": "held on the generated packets listed: struct decoding equals the to_header image of slicing, same payload range and verdict; permitted difference computed from struct-mode vs slice-mode walks.",
    "C05": "held on the generated packets listed: lax results agree with the strict sibling and with the reference decoder in lax mode (layers before the fault, stop error + layer, incomplete flags, payload).",
    "C06": "held on the generated inputs listed: pairwise agreement of equivalent entry points (IP siblings, start points shifted by 14, IP ether types vs from_ip, read vs from_slice incl. cursor position).",
    "C07": "held on the rejected inputs listed: every Err / stop error is a member of the reference decoder's set of truthful reports (layer, offset, len, required_len, direction, len_source, content value).",
    "C08": "held on the values / byte strings listed: serialisers agree with each other and with header_len, decode returns the value, re-encoding reproduces the bytes under the reserved-bit mask.",
    "C09": "held on the inputs listed: helper and header level checksum routines equal an independent RFC 1071 implementation incl. pseudo headers.",
    "C10": "held on the builder configurations listed: size(), three write paths, reference decode and derived-field consistency.",
    "C11": "held on the delivery histories listed: every delivery judged against a sequential reassembly model; conservation through the verif_counts hook; Miri/memcheck on reduced histories.",
    "C12": "held on the configurations listed, with one finite sub-domain (3.8M presence x link configurations) enumerated completely on every run.",
    "C13": "held on the lists / areas listed, with finite sub-domains (all areas of <= 3 bytes, all (kind,len,left) triples, all list shapes of <= 7 elements) enumerated completely on every run.",
    "C14": "held on the probes listed: accept iff representable, exact encoding, truthful error fields, object unchanged on rejection.",
    "C15": "held on the domains listed, most of them enumerated completely on every run (all raw values of every bounded type incl. the full u32 domain of the flow label).",
    "C16": "for each sampled value every failure position 0..=n of reader/writer and every output slice length 0..=n+1 is injected.",
    "C17": "held on the inputs listed: typed views agree with independent RFC tables/decoders; all 65536 (type, code) pairs enumerated.",
}

TECHNIQUE = {
    "C01": "runtime monitoring: ub_checks + guard pages + Miri (+ASan, memcheck) over accessor closure; containment + placement-independence monitor",
    "C02": "runtime monitoring: panic shell + overflow checks + iterator step budgets + supervisor (abort/hang)",
    "C03": "runtime monitoring: reference-model monitor (independent decoder) over generated hostile packets",
    "C04": "runtime monitoring: pairwise differential monitor (struct vs slicing) with computed permitted difference",
    "C05": "runtime monitoring: differential monitor (lax vs strict) + reference-model monitor in lax mode",
    "C06": "runtime monitoring: pairwise differential monitors over equivalent entry points",
    "C07": "runtime monitoring: reference-model monitor over error values (truthful-report sets)",
    "C08": "runtime monitoring: round-trip monitors (value and byte direction) with reference encodings",
    "C09": "runtime monitoring: reference-model monitor (independent RFC 1071 checksum)",
    "C10": "runtime monitoring: builder output monitor (size, 3 writers, reference decode, derived fields)",
    "C11": "runtime monitoring: history checker against a sequential model + conservation hook; Miri/memcheck",
    "C12": "runtime monitoring: reference walk + written-bytes parser; exhaustive finite sub-domain",
    "C13": "runtime monitoring: reference encoder/parser monitor; exhaustive finite sub-domains",
    "C14": "runtime monitoring: table-driven limit probes with independent field-width limits",
    "C15": "runtime monitoring: exhaustive domain enumeration against an independent mask table",
    "C16": "runtime monitoring: fault injection at reader/writer/slice boundary (every position)",
    "C17": "runtime monitoring: reference-model monitor (RFC type tables, NDP/IGMP/ARP decoders)",
}


def main():
    props = [json.loads(l) for l in open(os.path.join(VERIF, "properties.jsonl"))]
    hooks = subprocess.run(["git", "-C", "/repo", "log", "--format=%h %s"], stdout=subprocess.PIPE, text=True).stdout.split("\n")
    hook_commits = [l.split()[0] for l in hooks if l and "verif hook" in l]
    checks = []
    na = []
    for p in props:
        pid = p["id"]
        if pid in PROPS:
            cfg = PROPS[pid]
            flav = lambda t: ", ".join("%s x%s" % (r["flavour"], r.get("scale", 1.0)) for r in cfg["runs"][t])
            checks.append({
                "property_id": pid,
                "quick_cmd": "./check %s quick" % pid,
                "thorough_cmd": "./check %s thorough" % pid,
                "evidence_file": "/verif/evidence/%s.json" % pid,
                "replay_cmd_template": "./check replay {path}",
                "engine": "epverif",
                "level_claimed": {
                    "category": cfg["level"],
                    "text": LEVEL_TEXT.get(pid, "held on the executions listed in the evidence file"),
                    "design_ref": "DESIGN.md §4 (%s)" % pid,
                },
                "level_note": "trusted base: the harness oracles (reference models in harness/src/refmodel and the monitor's own "
                              "tables), rustc/std, the instruments; flavours quick: %s; thorough: %s" % (flav("quick"), flav("thorough")),
                "technique": TECHNIQUE.get(pid, "runtime monitoring"),
            })
        else:
            na.append({"property_id": pid, "reason": "check not built yet (work in progress; will be claimed once its monitor exists)"})
    m = {
        "version": 1,
        "setup_cmd": "./check setup",
        "hooks": {
            "guard": "cargo feature `verif_hooks` of the etherparse crate (off by default)",
            "enable": "the harness depends on etherparse with features = [\"std\", \"verif_hooks\"] (harness/Cargo.toml)",
            "baseline_off_cmd": "cd /repo && cargo test --workspace --no-fail-fast --offline",
            "source_commits": hook_commits,
            "add_only": True,
        },
        "engines": [
            {"name": "epverif", "path": "/verif/harness", "serves_properties": sorted(PROPS.keys()),
             "kind_free_text": "Rust worker binary (monitors, reference models, generators, fault injectors) built in flavours chk "
                               "(release + debug assertions + overflow checks), rel, asan (nightly), run also under Miri and valgrind; "
                               "python3 supervisor driver/check.py (sharding, crash/hang attribution, known findings, evidence)"},
        ],
        "checks": checks,
        "notes": "Exit codes of every check: 0 held, 1 violation (VIOLATION line), 2 inconclusive. Known findings: /verif/known_findings.json.",
        "not_applicable": na,
    }
    json.dump(m, open(os.path.join(VERIF, "MANIFEST.json"), "w"), indent=1)
    print("MANIFEST.json: %d checks, %d not yet claimed" % (len(checks), len(na)))


if __name__ == "__main__":
    main()
