#!/bin/bash
# usage: intake.sh <round> <suffix> <Cxx> [...]   (round 6 -> /tmp/seed_out6, /tmp/seed_wt6_*)
R=$1; S=$2; shift 2
cd /verif
ids=""
for p in "$@"; do
  mkdir -p seeded/${p}_$S && cp /tmp/seed_out$R/$p/{patch.diff,seeded_demo.rs,meta.json} seeded/${p}_$S/ || { echo "missing deliverables for $p"; continue; }
  git -C /repo worktree remove --force /tmp/seed_wt${R}_$p 2>/dev/null; rm -rf /tmp/seed_wt${R}_$p
  ids="$ids ${p}_$S"
done
python3 driver/verify_seeded.py $ids 2>&1 | grep -o "^C.._$S [A-Z ]*"
VERIF_SELFTEST_HARNESS_SRC=/tmp/hdev/harness VERIF_SELFTEST_ROOT=/tmp/ep_selftest3 python3 driver/selftest.py --dir seeded $ids 2>&1 | grep "tests="
