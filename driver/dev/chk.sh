#!/bin/sh
# dev loop: run a check against the scratch harness copy
export VERIF_HARNESS_DIR=/tmp/hdev/harness VERIF_WORK_DIR=/tmp/hdev/work VERIF_EVIDENCE_DIR=/tmp/hdev/evidence VERIF_REPLAYS_DIR=/tmp/hdev/replays
cd /verif && exec ./check "$@"
