#![no_main]
use libfuzzer_sys::fuzz_target;

fuzz_target!(|data: &[u8]| {
    if data.len() > 400 {
        return;
    }
    let v = epverif::fuzz::judge(data);
    // known findings of the unchanged tree are not crashes (see /verif/known_findings.json)
    for (sig, detail) in v {
        let known = sig.contains("|Arp|len_source|Arp/ArpAddr")
            || sig.contains("|Macsec|len_source|MacsecPacket/MacsecShort");
        if !known {
            panic!("VIOLATION {}: {}", sig, detail);
        }
    }
});
