//! Neutral description of a decoded packet. Both the reference model R (refmodel/*) and the
//! observation adapters over etherparse results (observe/*) produce this form; monitors compare
//! the two field by field.

use std::fmt::Write as _;

#[derive(Clone, Copy, Debug, PartialEq, Eq, PartialOrd, Ord, Hash)]
pub enum Kind {
    Eth,
    Sll,
    /// pseudo layer: decoding was started at an ether type (from_ether_type)
    EtherStart,
    Vlan,
    Macsec,
    Arp,
    Ipv4,
    Ipv6,
    /// extension headers are listed as separate layers directly behind their IP layer
    ExtAh,
    ExtHbh,
    ExtRoute,
    ExtDest,
    ExtFrag,
    Udp,
    Tcp,
    Icmp4,
    Icmp6,
}

/// mirrors etherparse::LenSource
#[derive(Clone, Copy, Debug, PartialEq, Eq, PartialOrd, Ord, Hash)]
pub enum Src {
    Slice = 0,
    MacsecShort = 1,
    Ipv4Total = 2,
    Ipv6Payload = 3,
    UdpLen = 4,
    TcpLen = 5,
    ArpAddr = 6,
}

impl Src {
    pub fn bit(self) -> u8 {
        1 << (self as u8)
    }
    pub fn from_u(v: u128) -> Src {
        match v {
            0 => Src::Slice,
            1 => Src::MacsecShort,
            2 => Src::Ipv4Total,
            3 => Src::Ipv6Payload,
            4 => Src::UdpLen,
            5 => Src::TcpLen,
            _ => Src::ArpAddr,
        }
    }
}

/// mirrors etherparse::err::Layer
#[derive(Clone, Copy, Debug, PartialEq, Eq, PartialOrd, Ord, Hash)]
pub enum Lay {
    LinuxSllHeader,
    Ethernet2Header,
    EtherPayload,
    VlanHeader,
    MacsecHeader,
    MacsecPacket,
    IpHeader,
    Ipv4Header,
    Ipv4Packet,
    IpAuthHeader,
    Ipv6Header,
    Ipv6Packet,
    Ipv6ExtHeader,
    Ipv6HopByHopHeader,
    Ipv6DestOptionsHeader,
    Ipv6RouteHeader,
    Ipv6FragHeader,
    UdpHeader,
    UdpPayload,
    TcpHeader,
    Icmpv4,
    Icmpv4Timestamp,
    Icmpv4TimestampReply,
    Icmpv6,
    Igmp,
    Arp,
}

pub const NO_OFF: usize = usize::MAX;

#[derive(Clone, Debug, PartialEq, Eq)]
pub struct NLayer {
    pub kind: Kind,
    /// offset of the layer's first header byte relative to the input (NO_OFF if the source is
    /// an owned header struct that does not know where it came from)
    pub off: usize,
    pub f: Vec<(&'static str, u128)>,
    pub b: Vec<(&'static str, Vec<u8>)>,
}

impl NLayer {
    pub fn new(kind: Kind, off: usize) -> NLayer {
        NLayer {
            kind,
            off,
            f: Vec::with_capacity(24),
            b: Vec::new(),
        }
    }
    #[inline]
    pub fn p(&mut self, name: &'static str, v: impl Into<u128>) {
        self.f.push((name, v.into()));
    }
    #[inline]
    pub fn pb(&mut self, name: &'static str, v: bool) {
        self.f.push((name, v as u128));
    }
    #[inline]
    pub fn pu(&mut self, name: &'static str, v: usize) {
        self.f.push((name, v as u128));
    }
    #[inline]
    pub fn blob(&mut self, name: &'static str, v: &[u8]) {
        self.b.push((name, v.to_vec()));
    }
    pub fn get(&self, name: &str) -> Option<u128> {
        self.f.iter().find(|(n, _)| *n == name).map(|(_, v)| *v)
    }
    pub fn set(&mut self, name: &str, v: u128) {
        if let Some(e) = self.f.iter_mut().find(|(n, _)| *n == name) {
            e.1 = v;
        }
    }
    pub fn remove(&mut self, name: &str) {
        self.f.retain(|(n, _)| *n != name);
    }
    pub fn get_blob(&self, name: &str) -> Option<&[u8]> {
        self.b
            .iter()
            .find(|(n, _)| *n == name)
            .map(|(_, v)| v.as_slice())
    }
}

#[derive(Clone, Debug, PartialEq, Eq)]
pub enum NErr {
    Len {
        required: usize,
        len: usize,
        src: Src,
        layer: Lay,
        off: usize,
    },
    /// canonical text of a content error, e.g. `ipv4.HeaderLengthSmallerThanHeader(3)`
    Content(String),
    /// I/O error kind (reader based entry points)
    Io(String),
}

impl NErr {
    pub fn class(&self) -> String {
        match self {
            NErr::Len { layer, .. } => format!("Len:{:?}", layer),
            NErr::Content(s) => format!("Content:{}", s.split('(').next().unwrap_or("")),
            NErr::Io(s) => format!("Io:{}", s),
        }
    }
    pub fn shift(&self, by: usize) -> NErr {
        match self {
            NErr::Len {
                required,
                len,
                src,
                layer,
                off,
            } => NErr::Len {
                required: *required,
                len: *len,
                src: *src,
                layer: *layer,
                off: off + by,
            },
            o => o.clone(),
        }
    }
}

/// result of one whole-packet (or IP-level) decode in neutral form
#[derive(Clone, Debug, PartialEq, Eq)]
pub struct NOut {
    pub layers: Vec<NLayer>,
    /// `Err(..)` returned by the entry point
    pub err: Option<NErr>,
    /// lax stop error and the layer it is attributed to
    pub stop: Option<(NErr, Lay)>,
}

impl NOut {
    pub fn ok(layers: Vec<NLayer>) -> NOut {
        NOut {
            layers,
            err: None,
            stop: None,
        }
    }
    pub fn err(e: NErr) -> NOut {
        NOut {
            layers: Vec::new(),
            err: Some(e),
            stop: None,
        }
    }
    pub fn kinds(&self) -> String {
        let mut s = String::new();
        for l in &self.layers {
            let _ = write!(s, "{:?}>", l.kind);
        }
        s
    }
    /// compact behaviour signature
    pub fn signature(&self) -> String {
        let mut s = self.kinds();
        if let Some(e) = &self.err {
            let _ = write!(s, "ERR:{}", e.class());
        }
        if let Some((e, l)) = &self.stop {
            let _ = write!(s, "STOP:{}@{:?}", e.class(), l);
        }
        s
    }
}

/// first difference between two layer lists, as (signature, human readable detail)
pub fn diff_layers(a_name: &str, a: &[NLayer], b_name: &str, b: &[NLayer]) -> Option<(String, String)> {
    let n = a.len().min(b.len());
    for i in 0..n {
        if let Some(d) = diff_layer(a_name, &a[i], b_name, &b[i]) {
            return Some(d);
        }
    }
    if a.len() != b.len() {
        let ka: Vec<Kind> = a.iter().map(|l| l.kind).collect();
        let kb: Vec<Kind> = b.iter().map(|l| l.kind).collect();
        let extra = if a.len() > b.len() {
            format!("{}+{:?}", a_name, a[n].kind)
        } else {
            format!("{}+{:?}", b_name, b[n].kind)
        };
        return Some((
            format!("layers|{}", extra),
            format!("layer sequence differs: {}={:?} {}={:?}", a_name, ka, b_name, kb),
        ));
    }
    None
}

pub fn diff_layer(a_name: &str, a: &NLayer, b_name: &str, b: &NLayer) -> Option<(String, String)> {
    if a.kind != b.kind {
        return Some((
            format!("kind|{:?}|{:?}", a.kind, b.kind),
            format!(
                "layer kind differs: {}={:?}@{} {}={:?}@{}",
                a_name, a.kind, a.off as isize, b_name, b.kind, b.off as isize
            ),
        ));
    }
    if a.off != NO_OFF && b.off != NO_OFF && a.off != b.off {
        return Some((
            format!("{:?}.off", a.kind),
            format!(
                "{:?} header offset differs: {}={} {}={}",
                a.kind, a_name, a.off, b_name, b.off
            ),
        ));
    }
    // fields: compared by name; names only present on one side are ignored only if
    // they start with '~' (location facts an owned struct cannot know)
    for (n, va) in &a.f {
        match b.f.iter().find(|(m, _)| m == n) {
            Some((_, vb)) => {
                if va != vb {
                    return Some((
                        format!("{:?}.{}", a.kind, n),
                        format!(
                            "{:?}@{} field {} differs: {}={} (0x{:x}) {}={} (0x{:x})",
                            a.kind, a.off as isize, n, a_name, va, va, b_name, vb, vb
                        ),
                    ));
                }
            }
            None => {
                if !n.starts_with('~') {
                    return Some((
                        format!("{:?}.{}|missing", a.kind, n),
                        format!("{:?} field {} missing in {}", a.kind, n, b_name),
                    ));
                }
            }
        }
    }
    for (n, _) in &b.f {
        if !n.starts_with('~') && !a.f.iter().any(|(m, _)| m == n) {
            return Some((
                format!("{:?}.{}|missing", a.kind, n),
                format!("{:?} field {} missing in {}", a.kind, n, a_name),
            ));
        }
    }
    for (n, va) in &a.b {
        if let Some((_, vb)) = b.b.iter().find(|(m, _)| m == n) {
            if va != vb {
                return Some((
                    format!("{:?}.{}", a.kind, n),
                    format!(
                        "{:?}@{} bytes {} differ: {}={} {}={}",
                        a.kind,
                        a.off as isize,
                        n,
                        a_name,
                        crate::report::hex(va),
                        b_name,
                        crate::report::hex(vb)
                    ),
                ));
            }
        } else if !n.starts_with('~') {
            return Some((
                format!("{:?}.{}|missing", a.kind, n),
                format!("{:?} bytes {} missing in {}", a.kind, n, b_name),
            ));
        }
    }
    None
}
