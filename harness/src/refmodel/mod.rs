//! R — the independent reference model (DESIGN §2.3).
pub mod pkt;
pub mod tcpopts;
pub mod checksum;
pub mod ctrl;
