//! R — independent reference decoder for whole packets (strict and lax), written from the wire
//! formats (IEEE 802.3 / 802.1Q / 802.1AE, LINKTYPE_LINUX_SLL, RFC 826, 791, 4302, 8200, 768,
//! 9293, 792, 4443) plus the crate's documented conventions (DESIGN §2.5).
//!
//! Plain indexing only; no `unsafe`; no call into etherparse.
//!
//! Output: the neutral layer list (neutral.rs) and, if the bytes are faulty, the *set of truthful
//! reports* for the first faulty layer (DESIGN §2.4, appendix A).

use crate::neutral::*;

#[derive(Clone, Copy, Debug, PartialEq, Eq)]
pub enum Mode {
    Strict,
    Lax,
}

/// how an IPv6 extension chain is walked
#[derive(Clone, Copy, Debug, PartialEq, Eq)]
pub enum ExtMode {
    /// slicing: any repetition, walk to the first non-extension number
    Slice,
    /// struct decoding: stop at the first header that no longer fits the fixed struct
    Struct,
}

#[derive(Clone, Copy, Debug, PartialEq, Eq)]
pub enum Start {
    Eth,
    Sll,
    EtherType(u16),
    Ip,
    /// version specific entry (Ipv4Slice::from_slice etc.)
    Ipv4,
    Ipv6,
    /// a single transport layer (UDP 17, TCP 6, ICMP 1, ICMPv6 58) at offset 0
    Transport(u8),
    /// an extension header chain announced by the given number at offset 0
    Ext(u8),
    /// ARP at offset 0
    Arp,
}

/// one admissible (truthful) error report
#[derive(Clone, Debug, PartialEq, Eq)]
pub enum Admissible {
    Len {
        layers: Vec<Lay>,
        required: usize,
        len: usize,
        /// bitmask of admissible length sources (Src::bit)
        srcs: u8,
        off: usize,
    },
    Content(String),
}

impl Admissible {
    pub fn matches(&self, e: &NErr) -> bool {
        match (self, e) {
            (
                Admissible::Len {
                    layers,
                    required,
                    len,
                    srcs,
                    off,
                },
                NErr::Len {
                    required: r,
                    len: l,
                    src,
                    layer,
                    off: o,
                },
            ) => layers.contains(layer) && required == r && len == l && (srcs & src.bit()) != 0 && off == o,
            (Admissible::Content(a), NErr::Content(b)) => a == b,
            _ => false,
        }
    }
    /// same class (Len vs. specific content variant) and layer family, ignoring the exact numbers
    pub fn matches_class(&self, e: &NErr) -> bool {
        match (self, e) {
            (Admissible::Len { layers, .. }, NErr::Len { layer, .. }) => layers.contains(layer),
            (Admissible::Content(a), NErr::Content(b)) => a == b,
            _ => false,
        }
    }
}

#[derive(Clone, Debug, PartialEq, Eq)]
pub struct Fault {
    /// layer kind that is faulty
    pub kind: Kind,
    /// offset of the faulty layer
    pub off: usize,
    /// bytes really available to the layer
    pub avail: usize,
    pub admissible: Vec<Admissible>,
    /// lax: admissible stop layers (err::Layer names) for this fault
    pub stop_layers: Vec<Lay>,
}

impl Fault {
    pub fn single(&self) -> bool {
        self.admissible.len() == 1
    }
    pub fn accepts(&self, e: &NErr) -> bool {
        self.admissible.iter().any(|a| a.matches(e))
    }
    pub fn accepts_class(&self, e: &NErr) -> bool {
        self.admissible.iter().any(|a| a.matches_class(e))
    }
    pub fn describe(&self) -> String {
        format!(
            "fault in {:?}@{} avail={} admissible={:?} stop_layers={:?}",
            self.kind, self.off, self.avail, self.admissible, self.stop_layers
        )
    }
}

#[derive(Clone, Debug)]
pub struct RDecoded {
    pub layers: Vec<NLayer>,
    pub fault: Option<Fault>,
    /// true if the fault is in the very first header (lax returns Err then)
    pub fault_in_first: bool,
    /// final payload (kind, off, len) — what remains behind the last decoded header
    pub payload: RPayload,
}

#[derive(Clone, Debug, PartialEq, Eq)]
pub struct RPayload {
    pub kind: &'static str,
    pub off: usize,
    pub len: usize,
    /// ether type / ip number announced for the payload (where it has one)
    pub num: Option<u16>,
    /// incomplete flag of the link / network layer payload (lax mode)
    pub incomplete: Option<bool>,
    pub src: Option<Src>,
    pub fragmented: Option<bool>,
}

impl RPayload {
    pub fn new(kind: &'static str, off: usize, len: usize) -> RPayload {
        RPayload {
            kind,
            off,
            len,
            num: None,
            incomplete: None,
            src: None,
            fragmented: None,
        }
    }
}

// ----------------------------------------------------------------------------------------------

pub mod ety {
    pub const IPV4: u16 = 0x0800;
    pub const ARP: u16 = 0x0806;
    pub const IPV6: u16 = 0x86dd;
    pub const VLAN: u16 = 0x8100;
    pub const QINQ: u16 = 0x88a8;
    pub const VLAN_DOUBLE: u16 = 0x9100;
    pub const MACSEC: u16 = 0x88e5;
}

pub const LINUX_NONSTANDARD: [u16; 28] = [
    0x0001, 0x0002, 0x0003, 0x0004, 0x0005, 0x0006, 0x0007, 0x0008, 0x0009, 0x000C, 0x000D, 0x000E,
    0x0010, 0x0011, 0x0015, 0x0016, 0x0017, 0x0018, 0x0019, 0x001A, 0x001B, 0x001C, 0x00F5, 0x00F6,
    0x00F7, 0x00F8, 0x00F9, 0x00FA,
];

pub const ARPHRD_ETHERNET: u16 = 1;
pub const ARPHRD_FRAD: u16 = 770;
pub const ARPHRD_IPGRE: u16 = 778;
pub const ARPHRD_RADIOTAP: u16 = 803;
pub const ARPHRD_NETLINK: u16 = 824;

#[inline]
pub fn be16(b: &[u8], i: usize) -> u16 {
    ((b[i] as u16) << 8) | b[i + 1] as u16
}
#[inline]
pub fn be32(b: &[u8], i: usize) -> u32 {
    ((b[i] as u32) << 24) | ((b[i + 1] as u32) << 16) | ((b[i + 2] as u32) << 8) | b[i + 3] as u32
}
#[inline]
pub fn be64(b: &[u8], i: usize) -> u64 {
    ((be32(b, i) as u64) << 32) | be32(b, i + 4) as u64
}

struct Dec<'a> {
    b: &'a [u8],
    mode: Mode,
    ext_mode: ExtMode,
    layers: Vec<NLayer>,
    /// enclosing limits (source, absolute end offset), outermost first; [0] is the slice itself
    limits: Vec<(Src, usize)>,
    link_exts: usize,
    fault: Option<Fault>,
    payload: RPayload,
}

impl<'a> Dec<'a> {
    /// effective end of the data available at this nesting level
    fn end(&self) -> usize {
        self.limits.iter().map(|l| l.1).min().unwrap()
    }

    /// admissible length sources for a layer whose data ends at `self.end()`
    fn srcs(&self) -> u8 {
        let e = self.end();
        let mut m = Src::Slice.bit();
        for (s, x) in &self.limits {
            if *x == e {
                m |= s.bit();
            }
        }
        m
    }

    fn fault_len(
        &mut self,
        kind: Kind,
        off: usize,
        layers: &[Lay],
        stop_layers: &[Lay],
        required: &[usize],
    ) {
        let avail = self.end() - off;
        let srcs = self.srcs();
        let mut adm = Vec::new();
        for r in required {
            if *r > avail {
                adm.push(Admissible::Len {
                    layers: layers.to_vec(),
                    required: *r,
                    len: avail,
                    srcs,
                    off,
                });
            }
        }
        self.add_fault(kind, off, avail, adm, stop_layers);
    }

    fn add_fault(&mut self, kind: Kind, off: usize, avail: usize, mut adm: Vec<Admissible>, stop_layers: &[Lay]) {
        adm.dedup();
        match &mut self.fault {
            Some(f) => {
                debug_assert!(f.kind == kind && f.off == off);
                for a in adm {
                    if !f.admissible.contains(&a) {
                        f.admissible.push(a);
                    }
                }
                for s in stop_layers {
                    if !f.stop_layers.contains(s) {
                        f.stop_layers.push(*s);
                    }
                }
            }
            None => {
                self.fault = Some(Fault {
                    kind,
                    off,
                    avail,
                    admissible: adm,
                    stop_layers: stop_layers.to_vec(),
                })
            }
        }
    }

    fn fault_content(&mut self, kind: Kind, off: usize, stop_layers: &[Lay], what: String) {
        let avail = self.end() - off;
        self.add_fault(kind, off, avail, vec![Admissible::Content(what)], stop_layers);
    }

    // ------------------------------------------------------------------------------------------

    fn eth(&mut self, o: usize) {
        let e = self.end();
        let a = e - o;
        if a < 14 {
            self.fault_len(Kind::Eth, o, &[Lay::Ethernet2Header], &[Lay::Ethernet2Header], &[14]);
            return;
        }
        let b = self.b;
        let mut l = NLayer::new(Kind::Eth, o);
        l.blob("dst", &b[o..o + 6]);
        l.blob("src", &b[o + 6..o + 12]);
        let t = be16(b, o + 12);
        l.p("ety", t);
        l.pu("~pay_off", o + 14);
        l.pu("~pay_len", e - (o + 14));
        self.layers.push(l);
        self.payload = RPayload::new("ether", o + 14, e - (o + 14));
        self.payload.num = Some(t);
        self.payload.src = Some(Src::Slice);
        self.payload.incomplete = Some(false);
        self.ether_type(t, o + 14);
    }

    fn sll(&mut self, o: usize) {
        let e = self.end();
        let a = e - o;
        if a < 16 {
            self.fault_len(Kind::Sll, o, &[Lay::LinuxSllHeader], &[Lay::LinuxSllHeader], &[16]);
            return;
        }
        let b = self.b;
        let ptype = be16(b, o);
        let hrd = be16(b, o + 2);
        let proto = be16(b, o + 14);
        let mut bad = false;
        if ptype > 7 {
            self.fault_content(
                Kind::Sll,
                o,
                &[Lay::LinuxSllHeader],
                format!("sll.UnsupportedPacketTypeField({})", ptype),
            );
            bad = true;
        }
        let supported = [
            ARPHRD_ETHERNET,
            ARPHRD_FRAD,
            ARPHRD_IPGRE,
            ARPHRD_RADIOTAP,
            ARPHRD_NETLINK,
        ];
        if !supported.contains(&hrd) {
            self.fault_content(
                Kind::Sll,
                o,
                &[Lay::LinuxSllHeader],
                format!("sll.UnsupportedArpHardwareId({})", hrd),
            );
            bad = true;
        }
        if bad {
            return;
        }
        // kind of the protocol field: 0 ignored, 1 netlink, 2 GRE, 3 ether type / linux
        // non-standard ether type (both are "ether types" on ARPHRD_ETHERNET; values below
        // 0x0600 that Linux assigns a meaning to are reported as non-standard by the crate —
        // R does not distinguish the two, see DESIGN appendix A)
        let pkind: u8 = match hrd {
            ARPHRD_NETLINK => 1,
            ARPHRD_IPGRE => 2,
            ARPHRD_RADIOTAP | ARPHRD_FRAD => 0,
            _ => 3,
        };
        let mut l = NLayer::new(Kind::Sll, o);
        l.p("ptype", ptype);
        l.p("hrd", hrd);
        l.p("alen", be16(b, o + 4));
        l.blob("addr", &b[o + 6..o + 14]);
        // LINKTYPE_LINUX_SLL: "link-layer address length" octets of the 8 octet field are valid
        l.blob("~saddr", &b[o + 6..o + 6 + (be16(b, o + 4) as usize).min(8)]);
        l.p("proto", proto);
        l.p("pkind", pkind);
        l.pu("~pay_off", o + 16);
        l.pu("~pay_len", e - (o + 16));
        self.layers.push(l);
        self.payload = RPayload::new("sll", o + 16, e - (o + 16));
        self.payload.num = Some(proto);
        self.payload.src = Some(Src::Slice);
        self.payload.incomplete = Some(false);
        if pkind == 3 && !LINUX_NONSTANDARD.contains(&proto) {
            self.payload.kind = "ether";
            self.ether_type(proto, o + 16);
        }
    }

    fn ether_type(&mut self, mut t: u16, mut o: usize) {
        loop {
            match t {
                ety::VLAN | ety::QINQ | ety::VLAN_DOUBLE => {
                    if self.link_exts >= 3 {
                        return;
                    }
                    let e = self.end();
                    if e - o < 4 {
                        self.fault_len(Kind::Vlan, o, &[Lay::VlanHeader], &[Lay::VlanHeader], &[4]);
                        return;
                    }
                    let b = self.b;
                    let mut l = NLayer::new(Kind::Vlan, o);
                    l.p("pcp", b[o] >> 5);
                    l.pb("dei", (b[o] >> 4) & 1 == 1);
                    l.p("vid", (((b[o] & 0x0f) as u16) << 8) | b[o + 1] as u16);
                    t = be16(b, o + 2);
                    l.p("ety", t);
                    l.pu("~pay_off", o + 4);
                    l.pu("~pay_len", e - (o + 4));
                    self.layers.push(l);
                    self.link_exts += 1;
                    o += 4;
                    let (inc, psrc) = (self.payload.incomplete, self.payload.src);
                    self.payload = RPayload::new("ether", o, e - o);
                    self.payload.num = Some(t);
                    // a VLAN header has no length field of its own: its payload inherits the
                    // length source of what encloses it and is never "incomplete" by itself
                    self.payload.src = psrc;
                    let _ = inc;
                    self.payload.incomplete = Some(false);
                }
                ety::MACSEC => {
                    if self.link_exts >= 3 {
                        return;
                    }
                    match self.macsec(o) {
                        Some((nt, no)) => {
                            t = nt;
                            o = no;
                        }
                        None => return,
                    }
                }
                ety::ARP => {
                    self.arp(o);
                    return;
                }
                ety::IPV4 => {
                    if self.mode == Mode::Lax {
                        // lax decoders dispatch on the version nibble for both IP ether types
                        self.ip(o, Start::Ip);
                    } else {
                        self.ip(o, Start::Ipv4);
                    }
                    return;
                }
                ety::IPV6 => {
                    if self.mode == Mode::Lax {
                        self.ip(o, Start::Ip);
                    } else {
                        self.ip(o, Start::Ipv6);
                    }
                    return;
                }
                _ => return,
            }
        }
    }

    /// returns (next ether type, offset of its payload) if decoding continues
    fn macsec(&mut self, o: usize) -> Option<(u16, usize)> {
        let e = self.end();
        let a = e - o;
        let b = self.b;
        if a < 6 {
            // header length not yet knowable beyond the minimum
            let mut req = vec![6usize];
            if a >= 1 && b[o] & 0x80 == 0 {
                let unmod = b[o] & 0x0c == 0;
                let h = 6 + if b[o] & 0x20 != 0 { 8 } else { 0 } + if unmod { 2 } else { 0 };
                req.push(h);
            }
            self.fault_len(Kind::Macsec, o, &[Lay::MacsecHeader], &[Lay::MacsecHeader], &req);
            return None;
        }
        let tci = b[o];
        let sl = (b[o + 1] & 0x3f) as usize;
        let unmod = tci & 0x0c == 0;
        let sc = tci & 0x20 != 0;
        let h = 6 + if sc { 8 } else { 0 } + if unmod { 2 } else { 0 };
        let mut bad = false;
        if tci & 0x80 != 0 {
            self.fault_content(Kind::Macsec, o, &[Lay::MacsecHeader], "macsec.UnexpectedVersion".to_string());
            bad = true;
        }
        if unmod && sl == 1 {
            self.fault_content(
                Kind::Macsec,
                o,
                &[Lay::MacsecHeader],
                "macsec.InvalidUnmodifiedShortLen".to_string(),
            );
            bad = true;
        }
        if a < h {
            // (coexisting with a content fault: either report is truthful)
            self.fault_len(Kind::Macsec, o, &[Lay::MacsecHeader], &[Lay::MacsecHeader], &[h]);
            bad = true;
        }
        if bad {
            return None;
        }
        // expected payload
        let expected: Option<usize> = if sl == 0 {
            None
        } else if unmod {
            Some(sl - 2) // sl >= 2 here
        } else {
            Some(sl)
        };
        let mut incomplete = false;
        let (pay_len, pay_src) = match expected {
            Some(p) => {
                if a < h + p {
                    if self.mode == Mode::Strict {
                        // the short length field promises more than is there. The field is part
                        // of this very layer, so the only limit in front of the layer is
                        // whatever encloses it.
                        let avail = a;
                        let srcs = self.srcs();
                        self.add_fault(
                            Kind::Macsec,
                            o,
                            avail,
                            vec![Admissible::Len {
                                layers: vec![Lay::MacsecPacket],
                                required: h + p,
                                len: avail,
                                srcs,
                                off: o,
                            }],
                            &[Lay::MacsecPacket],
                        );
                        return None;
                    }
                    incomplete = true;
                    (a - h, Src::Slice)
                } else {
                    (p, Src::MacsecShort)
                }
            }
            None => (a - h, Src::Slice),
        };
        let mut l = NLayer::new(Kind::Macsec, o);
        l.pu("hlen", h);
        l.pb("es", tci & 0x40 != 0);
        l.pb("sc", sc);
        l.pb("scb", tci & 0x10 != 0);
        l.pb("e", tci & 0x08 != 0);
        l.pb("c", tci & 0x04 != 0);
        l.p("an", tci & 3);
        l.pu("sl", sl);
        l.p("pn", be32(b, o + 2));
        l.p("sci", if sc { be64(b, o + 6) } else { 0 });
        let next = if unmod { Some(be16(b, o + h - 2)) } else { None };
        l.pb("has_next", next.is_some());
        l.p("next_ety", next.unwrap_or(0));
        l.pu("~pay_off", o + h);
        l.pu("~pay_len", pay_len);
        l.p("~pay_src", pay_src as u8);
        if self.mode == Mode::Lax {
            l.pb("~incomplete", incomplete);
        }
        self.layers.push(l);
        self.link_exts += 1;
        if pay_src == Src::MacsecShort {
            self.limits.push((Src::MacsecShort, o + h + pay_len));
        }
        let outer_src = self.payload.src;
        self.payload = RPayload::new(if unmod { "ether" } else { "macsec_mod" }, o + h, pay_len);
        self.payload.num = next;
        self.payload.incomplete = Some(incomplete);
        self.payload.src = if pay_src == Src::MacsecShort {
            Some(Src::MacsecShort)
        } else {
            // no (usable) short length: whatever limited the enclosing data
            outer_src
        };
        next.map(|t| (t, o + h))
    }

    fn arp(&mut self, o: usize) {
        let e = self.end();
        let a = e - o;
        let b = self.b;
        if a < 8 {
            let mut req = vec![8usize];
            if a >= 6 {
                req.push(8 + 2 * b[o + 4] as usize + 2 * b[o + 5] as usize);
            }
            self.fault_len(Kind::Arp, o, &[Lay::Arp], &[Lay::Arp], &req);
            return;
        }
        let hl = b[o + 4] as usize;
        let pl = b[o + 5] as usize;
        let n = 8 + 2 * hl + 2 * pl;
        if a < n {
            self.fault_len(Kind::Arp, o, &[Lay::Arp], &[Lay::Arp], &[n]);
            return;
        }
        let mut l = NLayer::new(Kind::Arp, o);
        l.p("hrd", be16(b, o));
        l.p("pro", be16(b, o + 2));
        l.pu("hlen", hl);
        l.pu("plen", pl);
        l.p("op", be16(b, o + 6));
        let mut p = o + 8;
        l.blob("sha", &b[p..p + hl]);
        p += hl;
        l.blob("spa", &b[p..p + pl]);
        p += pl;
        l.blob("tha", &b[p..p + hl]);
        p += hl;
        l.blob("tpa", &b[p..p + pl]);
        l.pu("~total_len", n);
        self.layers.push(l);
        self.payload = RPayload::new("empty", o + n, 0);
    }

    fn ip(&mut self, o: usize, how: Start) {
        let e = self.end();
        let a = e - o;
        let b = self.b;
        match how {
            Start::Ip => {
                if a == 0 {
                    self.fault_len(Kind::Ipv4, o, &[Lay::IpHeader], &[Lay::IpHeader], &[1]);
                    return;
                }
                match b[o] >> 4 {
                    4 => self.ipv4(o, true),
                    6 => self.ipv6(o, true),
                    v => {
                        self.fault_content(
                            Kind::Ipv4,
                            o,
                            &[Lay::IpHeader],
                            format!("ip.BadVersion({})", v),
                        );
                    }
                }
            }
            Start::Ipv4 => self.ipv4(o, false),
            Start::Ipv6 => self.ipv6(o, false),
            _ => unreachable!(),
        }
    }

    fn ipv4(&mut self, o: usize, dispatch: bool) {
        let e = self.end();
        let a = e - o;
        let b = self.b;
        // names used by the version specific and the dispatching decoders
        let hdr_lay: &[Lay] = &[Lay::Ipv4Header, Lay::IpHeader];
        let stop_hdr: &[Lay] = &[Lay::IpHeader, Lay::Ipv4Header];
        if a < 20 {
            let mut bad_content = false;
            if a >= 1 {
                let v = b[o] >> 4;
                let ihl = (b[o] & 0x0f) as usize;
                if !dispatch && v != 4 {
                    self.fault_content(
                        Kind::Ipv4,
                        o,
                        stop_hdr,
                        format!("ip.BadVersion({})", v),
                    );
                    bad_content = true;
                }
                if ihl < 5 {
                    self.fault_content(
                        Kind::Ipv4,
                        o,
                        stop_hdr,
                        if dispatch {
                            format!("ip.IhlTooSmall({})", ihl)
                        } else {
                            format!("ip.IhlTooSmall({})", ihl)
                        },
                    );
                    bad_content = true;
                }
                let _ = bad_content;
                let mut req = vec![20usize];
                if ihl >= 5 {
                    req.push(4 * ihl);
                }
                self.fault_len(Kind::Ipv4, o, hdr_lay, stop_hdr, &req);
            } else {
                self.fault_len(Kind::Ipv4, o, hdr_lay, stop_hdr, &[20, 1]);
            }
            return;
        }
        let v = b[o] >> 4;
        let ihl = (b[o] & 0x0f) as usize;
        let mut bad = false;
        if v != 4 {
            self.fault_content(Kind::Ipv4, o, stop_hdr, format!("ip.BadVersion({})", v));
            bad = true;
        }
        if ihl < 5 {
            self.fault_content(
                Kind::Ipv4,
                o,
                stop_hdr,
                if dispatch {
                    format!("ip.IhlTooSmall({})", ihl)
                } else {
                    format!("ip.IhlTooSmall({})", ihl)
                },
            );
            bad = true;
        }
        let hl = 4 * ihl;
        if !bad && a < hl {
            self.fault_len(Kind::Ipv4, o, hdr_lay, stop_hdr, &[hl]);
            bad = true;
        }
        if bad {
            return;
        }
        let t = be16(b, o + 2) as usize;
        let mut incomplete = false;
        let (pay_end, pay_src) = if t < hl {
            if self.mode == Mode::Strict {
                // self describing report: the total length field is smaller than the header
                self.add_fault(
                    Kind::Ipv4,
                    o,
                    a,
                    vec![Admissible::Len {
                        layers: vec![Lay::Ipv4Packet],
                        required: hl,
                        len: t,
                        srcs: Src::Ipv4Total.bit(),
                        off: o,
                    }],
                    &[Lay::Ipv4Packet],
                );
                return;
            }
            (e, Src::Slice)
        } else if t > a {
            if self.mode == Mode::Strict {
                let srcs = self.srcs();
                self.add_fault(
                    Kind::Ipv4,
                    o,
                    a,
                    vec![Admissible::Len {
                        layers: vec![Lay::Ipv4Packet],
                        required: t,
                        len: a,
                        srcs,
                        off: o,
                    }],
                    &[Lay::Ipv4Packet],
                );
                return;
            }
            incomplete = true;
            (e, Src::Slice)
        } else {
            (o + t, Src::Ipv4Total)
        };
        let mut l = NLayer::new(Kind::Ipv4, o);
        l.pu("ihl", ihl);
        l.p("dscp", b[o + 1] >> 2);
        l.p("ecn", b[o + 1] & 3);
        l.pu("total_len", t);
        l.p("id", be16(b, o + 4));
        l.pb("df", b[o + 6] & 0x40 != 0);
        let mf = b[o + 6] & 0x20 != 0;
        l.pb("mf", mf);
        let fo = (((b[o + 6] & 0x1f) as u16) << 8) | b[o + 7] as u16;
        l.p("frag_off", fo);
        l.p("ttl", b[o + 8]);
        let proto = b[o + 9];
        l.p("proto", proto);
        l.p("csum", be16(b, o + 10));
        l.blob("src", &b[o + 12..o + 16]);
        l.blob("dst", &b[o + 16..o + 20]);
        l.blob("options", &b[o + 20..o + hl]);
        let fragmented = mf || fo != 0;
        if pay_src == Src::Ipv4Total {
            self.limits.push((Src::Ipv4Total, pay_end));
        }
        // at most one authentication header
        let idx = self.layers.len();
        self.layers.push(l);
        let mut po = o + hl;
        let mut num = proto;
        let mut ext_fault = false;
        if proto == 51 {
            match self.ah(po, true) {
                Some((n, len)) => {
                    num = n;
                    po += len;
                }
                None => ext_fault = true,
            }
        }
        let pe = self.end();
        {
            let l = &mut self.layers[idx];
            l.p("pay_num", num);
            if self.mode == Mode::Strict {
                l.p("~hdr_pay_num", num);
            }
            l.pb("fragmented", fragmented);
            l.pu("~pay_off", po);
            l.pu("~pay_len", pe - po);
            l.p("pay_src", pay_src as u8);
            if self.mode == Mode::Lax {
                l.pb("~incomplete", incomplete);
            }
        }
        self.payload = RPayload::new("ip", po, pe - po);
        self.payload.num = Some(num as u16);
        self.payload.src = Some(pay_src);
        self.payload.incomplete = Some(incomplete);
        self.payload.fragmented = Some(fragmented);
        if ext_fault || fragmented {
            return;
        }
        self.transport(num, po);
    }

    /// authentication header at `o`; pushes an ExtAh layer; returns (next header, length)
    fn ah(&mut self, o: usize, _v4: bool) -> Option<(u8, usize)> {
        let e = self.end();
        let a = e - o;
        let b = self.b;
        let lays: &[Lay] = &[Lay::IpAuthHeader];
        if a < 12 {
            let mut req = vec![12usize];
            if a >= 2 {
                if b[o + 1] == 0 {
                    self.fault_content(
                        Kind::ExtAh,
                        o,
                        lays,
                        "auth.ZeroPayloadLen".to_string(),
                    );
                } else {
                    req.push(4 * (b[o + 1] as usize + 2));
                }
            }
            self.fault_len(Kind::ExtAh, o, lays, lays, &req);
            return None;
        }
        let pl = b[o + 1] as usize;
        if pl == 0 {
            self.fault_content(
                Kind::ExtAh,
                o,
                lays,
                "auth.ZeroPayloadLen".to_string(),
            );
            return None;
        }
        let n = 4 * (pl + 2);
        if a < n {
            self.fault_len(Kind::ExtAh, o, lays, lays, &[n]);
            return None;
        }
        let mut l = NLayer::new(Kind::ExtAh, o);
        l.p("next", b[o]);
        l.p("spi", be32(b, o + 4));
        l.p("seq", be32(b, o + 8));
        l.pu("len", n);
        l.blob("icv", &b[o + 12..o + n]);
        self.layers.push(l);
        Some((b[o], n))
    }

    fn ipv6(&mut self, o: usize, dispatch: bool) {
        let e = self.end();
        let a = e - o;
        let b = self.b;
        let hdr_lay: &[Lay] = &[Lay::Ipv6Header, Lay::IpHeader];
        let stop_hdr: &[Lay] = &[Lay::IpHeader, Lay::Ipv6Header];
        if a < 40 {
            if a >= 1 && !dispatch && b[o] >> 4 != 6 {
                self.fault_content(
                    Kind::Ipv6,
                    o,
                    stop_hdr,
                    format!("ip.BadVersion({})", b[o] >> 4),
                );
            }
            self.fault_len(Kind::Ipv6, o, hdr_lay, stop_hdr, &[40]);
            return;
        }
        if b[o] >> 4 != 6 {
            self.fault_content(
                Kind::Ipv6,
                o,
                stop_hdr,
                format!("ip.BadVersion({})", b[o] >> 4),
            );
            return;
        }
        let p = be16(b, o + 4) as usize;
        let mut incomplete = false;
        let (pay_end, pay_src) = if p == 0 && a > 40 {
            (e, Src::Slice)
        } else if 40 + p > a {
            if self.mode == Mode::Strict {
                let srcs = self.srcs();
                self.add_fault(
                    Kind::Ipv6,
                    o,
                    a,
                    vec![Admissible::Len {
                        layers: vec![Lay::Ipv6Packet],
                        required: 40 + p,
                        len: a,
                        srcs,
                        off: o,
                    }],
                    &[Lay::Ipv6Packet],
                );
                return;
            }
            incomplete = true;
            (e, Src::Slice)
        } else {
            (o + 40 + p, Src::Ipv6Payload)
        };
        let mut l = NLayer::new(Kind::Ipv6, o);
        l.p("tc", ((b[o] & 0x0f) << 4) | (b[o + 1] >> 4));
        l.p(
            "flow",
            (((b[o + 1] & 0x0f) as u32) << 16) | ((b[o + 2] as u32) << 8) | b[o + 3] as u32,
        );
        l.pu("plen", p);
        let next = b[o + 6];
        l.p("next", next);
        l.p("hop", b[o + 7]);
        l.blob("src", &b[o + 8..o + 24]);
        l.blob("dst", &b[o + 24..o + 40]);
        if pay_src == Src::Ipv6Payload {
            self.limits.push((Src::Ipv6Payload, pay_end));
        }
        let idx = self.layers.len();
        self.layers.push(l);
        // extension chain
        let (num, po, fragmented, ext_fault) = self.ipv6_exts(next, o + 40);
        let pe = self.end();
        {
            let l = &mut self.layers[idx];
            l.p("pay_num", num);
            if self.mode == Mode::Strict {
                l.p("~hdr_pay_num", num);
            }
            l.pb("fragmented", fragmented);
            l.pu("~pay_off", po);
            l.pu("~pay_len", pe - po);
            l.p("pay_src", pay_src as u8);
            l.pu("~exts_len", po - (o + 40));
            if self.mode == Mode::Lax {
                l.pb("~incomplete", incomplete);
            }
        }
        self.payload = RPayload::new("ip", po, pe - po);
        self.payload.num = Some(num as u16);
        self.payload.src = Some(pay_src);
        self.payload.incomplete = Some(incomplete);
        self.payload.fragmented = Some(fragmented);
        if ext_fault || fragmented {
            return;
        }
        self.transport(num, po);
    }

    /// walks the extension chain; returns (payload ip number, payload offset, fragmented, fault?)
    fn ipv6_exts(&mut self, first: u8, start: usize) -> (u8, usize, bool, bool) {
        let b = self.b;
        let mut next = first;
        let mut o = start;
        let mut fragmented = false;
        let mut first_pos = true;
        // struct mode bookkeeping
        let (mut s_dest, mut s_route, mut s_final, mut s_frag, mut s_auth) = (false, false, false, false, false);
        loop {
            let e = self.end();
            let a = e - o;
            match next {
                0 | 43 | 60 => {
                    if next == 0 && !first_pos {
                        self.fault_content(
                            Kind::ExtHbh,
                            o,
                            &[Lay::Ipv6HopByHopHeader],
                            "ipv6exts.HopByHopNotAtStart".to_string(),
                        );
                        return (next, o, fragmented, true);
                    }
                    if self.ext_mode == ExtMode::Struct {
                        match next {
                            60 => {
                                if s_route {
                                    if s_final {
                                        return (next, o, fragmented, false);
                                    }
                                    s_final = true;
                                } else {
                                    if s_dest {
                                        return (next, o, fragmented, false);
                                    }
                                    s_dest = true;
                                }
                            }
                            43 => {
                                if s_route {
                                    return (next, o, fragmented, false);
                                }
                                s_route = true;
                            }
                            _ => {}
                        }
                    }
                    let (kind, stop_lay) = match next {
                        0 => (Kind::ExtHbh, Lay::Ipv6HopByHopHeader),
                        43 => (Kind::ExtRoute, Lay::Ipv6RouteHeader),
                        _ => (Kind::ExtDest, Lay::Ipv6DestOptionsHeader),
                    };
                    let lays: &[Lay] = &[Lay::Ipv6ExtHeader];
                    if a < 8 {
                        let mut req = vec![8usize];
                        if a >= 2 {
                            req.push(8 * (b[o + 1] as usize + 1));
                        }
                        self.fault_len(kind, o, lays, &[stop_lay], &req);
                        return (next, o, fragmented, true);
                    }
                    let n = 8 * (b[o + 1] as usize + 1);
                    if a < n {
                        self.fault_len(kind, o, lays, &[stop_lay], &[n]);
                        return (next, o, fragmented, true);
                    }
                    let mut l = NLayer::new(kind, o);
                    l.p("next", b[o]);
                    l.pu("len", n);
                    l.blob("payload", &b[o + 2..o + n]);
                    self.layers.push(l);
                    next = b[o];
                    o += n;
                }
                44 => {
                    if self.ext_mode == ExtMode::Struct {
                        if s_frag {
                            return (next, o, fragmented, false);
                        }
                        s_frag = true;
                    }
                    if a < 8 {
                        self.fault_len(
                            Kind::ExtFrag,
                            o,
                            &[Lay::Ipv6FragHeader],
                            &[Lay::Ipv6FragHeader],
                            &[8],
                        );
                        return (next, o, fragmented, true);
                    }
                    let fo = be16(b, o + 2) >> 3;
                    let mf = b[o + 3] & 1 != 0;
                    let mut l = NLayer::new(Kind::ExtFrag, o);
                    l.p("next", b[o]);
                    l.p("frag_off", fo);
                    l.pb("mf", mf);
                    l.p("id", be32(b, o + 4));
                    self.layers.push(l);
                    if self.ext_mode == ExtMode::Slice {
                        fragmented = fragmented || fo != 0 || mf;
                    } else {
                        // struct decoding keeps exactly one fragment header
                        fragmented = fo != 0 || mf;
                    }
                    next = b[o];
                    o += 8;
                }
                51 => {
                    if self.ext_mode == ExtMode::Struct {
                        if s_auth {
                            return (next, o, fragmented, false);
                        }
                        s_auth = true;
                    }
                    match self.ah(o, false) {
                        Some((n, len)) => {
                            next = n;
                            o += len;
                        }
                        None => return (next, o, fragmented, true),
                    }
                }
                _ => return (next, o, fragmented, false),
            }
            first_pos = false;
        }
    }

    fn transport(&mut self, num: u8, o: usize) {
        match num {
            17 => self.udp(o),
            6 => self.tcp(o),
            1 => self.icmp4(o),
            58 => self.icmp6(o),
            _ => {}
        }
    }

    fn udp(&mut self, o: usize) {
        let e = self.end();
        let a = e - o;
        let b = self.b;
        if a < 8 {
            self.fault_len(Kind::Udp, o, &[Lay::UdpHeader], &[Lay::UdpHeader], &[8]);
            return;
        }
        let len = be16(b, o + 4) as usize;
        let pay_end = if self.mode == Mode::Strict {
            if len > a {
                let srcs = self.srcs();
                self.add_fault(
                    Kind::Udp,
                    o,
                    a,
                    vec![Admissible::Len {
                        layers: vec![Lay::UdpPayload],
                        required: len,
                        len: a,
                        srcs,
                        off: o,
                    }],
                    &[Lay::UdpPayload],
                );
                return;
            }
            if len == 0 {
                e
            } else if len < 8 {
                self.add_fault(
                    Kind::Udp,
                    o,
                    a,
                    vec![Admissible::Len {
                        layers: vec![Lay::UdpHeader],
                        required: 8,
                        len,
                        srcs: Src::UdpLen.bit(),
                        off: o,
                    }],
                    &[Lay::UdpHeader],
                );
                return;
            } else {
                o + len
            }
        } else if len > a || len < 8 {
            e
        } else {
            o + len
        };
        let mut l = NLayer::new(Kind::Udp, o);
        l.p("sport", be16(b, o));
        l.p("dport", be16(b, o + 2));
        l.pu("len", len);
        l.p("csum", be16(b, o + 6));
        l.pu("~pay_off", o + 8);
        l.pu("~pay_len", pay_end - (o + 8));
        // `UdpSlice::payload_len_source()`: the length field, where it was usable
        l.p("~udp_src", if (8..=a).contains(&len) { Src::UdpLen as u8 } else { Src::Slice as u8 });
        self.layers.push(l);
        let inc = self.payload.incomplete;
        self.payload = RPayload::new("udp", o + 8, pay_end - (o + 8));
        self.payload.incomplete = inc;
    }

    fn tcp(&mut self, o: usize) {
        let e = self.end();
        let a = e - o;
        let b = self.b;
        if a < 20 {
            let mut req = vec![20usize];
            if a >= 13 {
                let doff = (b[o + 12] >> 4) as usize;
                if doff >= 5 {
                    req.push(4 * doff);
                } else {
                    self.fault_content(
                        Kind::Tcp,
                        o,
                        &[Lay::TcpHeader],
                        format!("tcp.DataOffsetTooSmall({})", doff),
                    );
                }
            }
            self.fault_len(Kind::Tcp, o, &[Lay::TcpHeader], &[Lay::TcpHeader], &req);
            return;
        }
        let doff = (b[o + 12] >> 4) as usize;
        if doff < 5 {
            self.fault_content(
                Kind::Tcp,
                o,
                &[Lay::TcpHeader],
                format!("tcp.DataOffsetTooSmall({})", doff),
            );
            return;
        }
        let hl = 4 * doff;
        if a < hl {
            self.fault_len(Kind::Tcp, o, &[Lay::TcpHeader], &[Lay::TcpHeader], &[hl]);
            return;
        }
        let mut l = NLayer::new(Kind::Tcp, o);
        l.p("sport", be16(b, o));
        l.p("dport", be16(b, o + 2));
        l.p("seq", be32(b, o + 4));
        l.p("ack", be32(b, o + 8));
        l.pu("doff", doff);
        l.pb("ns", b[o + 12] & 1 != 0);
        let f = b[o + 13];
        l.pb("fin", f & 0x01 != 0);
        l.pb("syn", f & 0x02 != 0);
        l.pb("rst", f & 0x04 != 0);
        l.pb("psh", f & 0x08 != 0);
        l.pb("ackf", f & 0x10 != 0);
        l.pb("urg", f & 0x20 != 0);
        l.pb("ece", f & 0x40 != 0);
        l.pb("cwr", f & 0x80 != 0);
        l.p("win", be16(b, o + 14));
        l.p("csum", be16(b, o + 16));
        l.p("urgp", be16(b, o + 18));
        l.blob("options", &b[o + 20..o + hl]);
        l.pu("~pay_off", o + hl);
        l.pu("~pay_len", e - (o + hl));
        self.layers.push(l);
        let inc = self.payload.incomplete;
        self.payload = RPayload::new("tcp", o + hl, e - (o + hl));
        self.payload.incomplete = inc;
    }

    fn icmp4(&mut self, o: usize) {
        let e = self.end();
        let a = e - o;
        let b = self.b;
        if a < 8 {
            self.fault_len(Kind::Icmp4, o, &[Lay::Icmpv4], &[Lay::Icmpv4], &[8]);
            return;
        }
        let ty = b[o];
        let code = b[o + 1];
        let mut hl = 8;
        if (ty == 13 || ty == 14) && code == 0 {
            // crate rule: timestamp messages must be exactly 20 bytes
            if a != 20 {
                let lay = if ty == 13 {
                    Lay::Icmpv4Timestamp
                } else {
                    Lay::Icmpv4TimestampReply
                };
                let srcs = self.srcs();
                self.add_fault(
                    Kind::Icmp4,
                    o,
                    a,
                    vec![Admissible::Len {
                        layers: vec![lay],
                        required: 20,
                        len: a,
                        srcs,
                        off: o,
                    }],
                    &[Lay::Icmpv4],
                );
                return;
            }
            hl = 20;
        }
        let mut l = NLayer::new(Kind::Icmp4, o);
        l.p("ty", ty);
        l.p("code", code);
        l.p("csum", be16(b, o + 2));
        l.blob("~b58", &b[o + 4..o + 8]);
        l.pu("~slice_len", a);
        l.pu("~pay_off", o + hl);
        l.pu("~pay_len", a - hl);
        self.layers.push(l);
        let inc = self.payload.incomplete;
        self.payload = RPayload::new("icmpv4", o + hl, a - hl);
        self.payload.incomplete = inc;
    }

    fn icmp6(&mut self, o: usize) {
        let e = self.end();
        let a = e - o;
        let b = self.b;
        if a < 8 {
            self.fault_len(Kind::Icmp6, o, &[Lay::Icmpv6], &[Lay::Icmpv6], &[8]);
            return;
        }
        // (a > u32::MAX cannot occur with the buffers used here)
        let mut l = NLayer::new(Kind::Icmp6, o);
        l.p("ty", b[o]);
        l.p("code", b[o + 1]);
        l.p("csum", be16(b, o + 2));
        l.blob("~b58", &b[o + 4..o + 8]);
        l.pu("~slice_len", a);
        l.pu("~pay_off", o + 8);
        l.pu("~pay_len", a - 8);
        self.layers.push(l);
        let inc = self.payload.incomplete;
        self.payload = RPayload::new("icmpv6", o + 8, a - 8);
        self.payload.incomplete = inc;
    }
}

/// decode `bytes` starting at `start`
pub fn decode(bytes: &[u8], start: Start, mode: Mode, ext_mode: ExtMode) -> RDecoded {
    let mut d = Dec {
        b: bytes,
        mode,
        ext_mode,
        layers: Vec::with_capacity(8),
        limits: vec![(Src::Slice, bytes.len())],
        link_exts: 0,
        fault: None,
        payload: RPayload::new("none", 0, bytes.len()),
    };
    match start {
        Start::Eth => d.eth(0),
        Start::Sll => d.sll(0),
        Start::EtherType(t) => {
            let mut l = NLayer::new(Kind::EtherStart, 0);
            l.p("ety", t);
            l.pu("~pay_off", 0);
            l.pu("~pay_len", bytes.len());
            d.layers.push(l);
            d.payload = RPayload::new("ether", 0, bytes.len());
            d.payload.num = Some(t);
            d.payload.src = Some(Src::Slice);
            d.payload.incomplete = Some(false);
            d.ether_type(t, 0);
        }
        Start::Ip => d.ip(0, Start::Ip),
        Start::Ipv4 => d.ip(0, Start::Ipv4),
        Start::Ipv6 => d.ip(0, Start::Ipv6),
        Start::Transport(n) => d.transport(n, 0),
        Start::Ext(n) => {
            let _ = d.ipv6_exts(n, 0);
        }
        Start::Arp => d.arp(0),
    }
    let fault_in_first = match (&d.fault, start) {
        (Some(f), Start::Eth) => f.kind == Kind::Eth,
        (Some(f), Start::Sll) => f.kind == Kind::Sll,
        (Some(_), Start::EtherType(_)) => false,
        (Some(f), Start::Ip | Start::Ipv4 | Start::Ipv6) => {
            (f.kind == Kind::Ipv4 || f.kind == Kind::Ipv6) && !d.layers.iter().any(|l| l.kind == f.kind)
        }
        (Some(f), _) => f.off == 0,
        (None, _) => false,
    };
    RDecoded {
        layers: d.layers,
        fault: d.fault,
        fault_in_first,
        payload: d.payload,
    }
}
