//! Independent reference for C09: the Internet checksum of RFC 1071 and the per-protocol rules
//! that say *what* is summed (RFC 791 §3.1 IPv4 header, RFC 768 UDP, RFC 9293 §3.1 TCP,
//! RFC 8200 §8.1 IPv6 pseudo header, RFC 792 ICMPv4, RFC 4443 §2.3 ICMPv6, RFC 2236 §2.3 /
//! RFC 3376 §4.1.2 IGMP).
//!
//! Written from the RFC texts with plain indexing; nothing in here calls etherparse.
//!
//! All functions take and return the checksum as the *numeric value of the 16-bit field as it is
//! transmitted* (first octet = high byte).

/// Exact arithmetic sum of the big-endian 16-bit words of `data` (RFC 1071 §1 (1)); an odd
/// trailing octet is padded on the right with a zero octet (RFC 1071 §4.1: "if the total length
/// is odd, the received data is padded with one octet of zeros for computing the checksum").
/// A u64 cannot overflow below 2^48 words.
pub fn word_sum(data: &[u8]) -> u64 {
    let mut s: u64 = 0;
    let mut i = 0usize;
    while i + 1 < data.len() {
        s += ((data[i] as u64) << 8) | (data[i + 1] as u64);
        i += 2;
    }
    if i < data.len() {
        s += (data[i] as u64) << 8;
    }
    s
}

/// End-around carry: fold the carries out of the low 16 bits back in until none is left
/// (RFC 1071 §1 (1)/(2), §4.1 "while (sum>>16) sum = (sum & 0xffff) + (sum >> 16)").
pub fn fold(mut s: u64) -> u16 {
    while (s >> 16) != 0 {
        s = (s & 0xffff) + (s >> 16);
    }
    s as u16
}

/// The same one's complement sum in its arithmetic formulation: addition modulo 65535 in which
/// a non-empty sum of not-all-zero words is represented by 0xffff instead of 0 (used as a
/// cross-check of `fold`, see `selfcheck`).
pub fn fold_mod(s: u64) -> u16 {
    if s == 0 {
        0
    } else {
        let r = s % 65535;
        if r == 0 {
            0xffff
        } else {
            r as u16
        }
    }
}

/// Accumulates the parts of a message; every part but the last one must have an even length
/// (the pad octet of RFC 1071 exists only at the very end of the summed data).
#[derive(Clone, Debug)]
pub struct Acc {
    pub sum: u64,
    odd_seen: bool,
    /// a part was added behind an odd-length part: the model was used outside of its domain
    pub misuse: bool,
}

impl Acc {
    pub fn new() -> Acc {
        Acc {
            sum: 0,
            odd_seen: false,
            misuse: false,
        }
    }
    pub fn add(mut self, part: &[u8]) -> Acc {
        if self.odd_seen && !part.is_empty() {
            self.misuse = true;
        }
        if part.len() % 2 == 1 {
            self.odd_seen = true;
        }
        self.sum += word_sum(part);
        self
    }
    /// folded one's complement sum (what a receiver compares with 0xffff)
    pub fn folded(&self) -> u16 {
        fold(self.sum)
    }
    /// the checksum: one's complement of the one's complement sum
    pub fn checksum(&self) -> u16 {
        !fold(self.sum)
    }
}

/// RFC 1071 checksum of one byte string
pub fn checksum(data: &[u8]) -> u16 {
    !fold(word_sum(data))
}

/// checksum of a message given in parts (all but the last of even length)
pub fn checksum_parts(parts: &[&[u8]]) -> u16 {
    let mut a = Acc::new();
    for p in parts {
        a = a.add(p);
    }
    a.checksum()
}

/// folded complete sum of a message given in parts; 0xffff <=> the message verifies
pub fn folded_parts(parts: &[&[u8]]) -> u16 {
    let mut a = Acc::new();
    for p in parts {
        a = a.add(p);
    }
    a.folded()
}

/// RFC 768: "If the computed checksum is zero, it is transmitted as all ones"; the same rule
/// for UDP over IPv6 is in RFC 8200 §8.1.
pub fn no_zero(c: u16) -> u16 {
    if c == 0 {
        0xffff
    } else {
        c
    }
}

// ---------------------------------------------------------------------------------------------
// pseudo headers
// ---------------------------------------------------------------------------------------------

/// RFC 768 / RFC 9293 §3.1: source address, destination address, zero, protocol, length
pub fn pseudo_v4(src: [u8; 4], dst: [u8; 4], protocol: u8, len: u16) -> [u8; 12] {
    [
        src[0],
        src[1],
        src[2],
        src[3],
        dst[0],
        dst[1],
        dst[2],
        dst[3],
        0,
        protocol,
        (len >> 8) as u8,
        (len & 0xff) as u8,
    ]
}

/// RFC 8200 §8.1: source address (16), destination address (16), upper-layer packet length
/// (32 bit), three zero octets, next header
pub fn pseudo_v6(src: [u8; 16], dst: [u8; 16], upper_len: u32, next_header: u8) -> [u8; 40] {
    let mut p = [0u8; 40];
    for i in 0..16 {
        p[i] = src[i];
        p[16 + i] = dst[i];
    }
    p[32] = (upper_len >> 24) as u8;
    p[33] = ((upper_len >> 16) & 0xff) as u8;
    p[34] = ((upper_len >> 8) & 0xff) as u8;
    p[35] = (upper_len & 0xff) as u8;
    p[36] = 0;
    p[37] = 0;
    p[38] = 0;
    p[39] = next_header;
    p
}

pub const PROTO_ICMP: u8 = 1;
pub const PROTO_IGMP: u8 = 2;
pub const PROTO_TCP: u8 = 6;
pub const PROTO_UDP: u8 = 17;
pub const PROTO_ICMPV6: u8 = 58;

/// copy of `msg` with the two octets at `at` set to zero ("for purposes of computing the
/// checksum, the value of the checksum field is zero")
fn zeroed(msg: &[u8], at: usize) -> Vec<u8> {
    let mut v = msg.to_vec();
    if at + 1 < v.len() {
        v[at] = 0;
        v[at + 1] = 0;
    }
    v
}

// ---------------------------------------------------------------------------------------------
// per protocol
// ---------------------------------------------------------------------------------------------

/// RFC 791 §3.1: one's complement of the one's complement sum of all 16 bit words in the header
/// (incl. options), the checksum field (octets 10, 11) taken as zero.
pub fn ipv4_header(header: &[u8]) -> u16 {
    checksum(&zeroed(header, 10))
}

/// RFC 768: pseudo header (with the *UDP length*), UDP header (checksum field zero), data.
/// `udp_header` are the 8 header octets; the length of the pseudo header is the length field of
/// the header (RFC 768 "the UDP length"; RFC 8200 §8.1: protocols that carry their own length
/// use that one).
pub fn udp_v4(src: [u8; 4], dst: [u8; 4], udp_header: &[u8], payload: &[u8]) -> u16 {
    let len = ((udp_header[4] as u16) << 8) | udp_header[5] as u16;
    let p = pseudo_v4(src, dst, PROTO_UDP, len);
    no_zero(checksum_parts(&[&p, &zeroed(&udp_header[..8], 6), payload]))
}

pub fn udp_v6(src: [u8; 16], dst: [u8; 16], udp_header: &[u8], payload: &[u8]) -> u16 {
    let len = ((udp_header[4] as u32) << 8) | udp_header[5] as u32;
    let p = pseudo_v6(src, dst, len, PROTO_UDP);
    no_zero(checksum_parts(&[&p, &zeroed(&udp_header[..8], 6), payload]))
}

/// the UDP checksum before the 0 -> 0xffff substitution
pub fn udp_v4_computed(src: [u8; 4], dst: [u8; 4], udp_header: &[u8], payload: &[u8]) -> u16 {
    let len = ((udp_header[4] as u16) << 8) | udp_header[5] as u16;
    let p = pseudo_v4(src, dst, PROTO_UDP, len);
    checksum_parts(&[&p, &zeroed(&udp_header[..8], 6), payload])
}

pub fn udp_v6_computed(src: [u8; 16], dst: [u8; 16], udp_header: &[u8], payload: &[u8]) -> u16 {
    let len = ((udp_header[4] as u32) << 8) | udp_header[5] as u32;
    let p = pseudo_v6(src, dst, len, PROTO_UDP);
    checksum_parts(&[&p, &zeroed(&udp_header[..8], 6), payload])
}

/// RFC 9293 §3.1: pseudo header with the TCP length (header + data, not transmitted), header
/// (checksum field, octets 16/17, zero) and data. `None` if the length does not fit 16 bits.
pub fn tcp_v4(src: [u8; 4], dst: [u8; 4], tcp_header: &[u8], payload: &[u8]) -> Option<u16> {
    let len = tcp_header.len() + payload.len();
    if len > 0xffff {
        return None;
    }
    let p = pseudo_v4(src, dst, PROTO_TCP, len as u16);
    Some(checksum_parts(&[&p, &zeroed(tcp_header, 16), payload]))
}

pub fn tcp_v6(src: [u8; 16], dst: [u8; 16], tcp_header: &[u8], payload: &[u8]) -> Option<u16> {
    let len = tcp_header.len() + payload.len();
    if len > 0xffff_ffff {
        return None;
    }
    let p = pseudo_v6(src, dst, len as u32, PROTO_TCP);
    Some(checksum_parts(&[&p, &zeroed(tcp_header, 16), payload]))
}

/// RFC 792: "the 16-bit one's complement of the one's complement sum of the ICMP message
/// starting with the ICMP Type" (no pseudo header), checksum field (octets 2, 3) zero.
pub fn icmpv4(message: &[u8]) -> u16 {
    checksum(&zeroed(message, 2))
}

/// RFC 4443 §2.3: whole ICMPv6 message prepended with the IPv6 pseudo header (next header 58,
/// upper-layer packet length = length of the ICMPv6 message).
pub fn icmpv6(src: [u8; 16], dst: [u8; 16], message: &[u8]) -> Option<u16> {
    if message.len() > 0xffff_ffff {
        return None;
    }
    let p = pseudo_v6(src, dst, message.len() as u32, PROTO_ICMPV6);
    Some(checksum_parts(&[&p, &zeroed(message, 2)]))
}

/// does a received ICMPv6 message verify (RFC 1071 §1 (3): sum over the same octets incl. the
/// checksum field is all one bits)
pub fn icmpv6_verifies(src: [u8; 16], dst: [u8; 16], message: &[u8]) -> bool {
    let p = pseudo_v6(src, dst, message.len() as u32, PROTO_ICMPV6);
    folded_parts(&[&p, message]) == 0xffff
}

/// RFC 2236 §2.3 / RFC 3376 §4.1.2: one's complement of the one's complement sum of the whole
/// IGMP message (the entire IP payload), checksum field (octets 2, 3) zero.
pub fn igmp(message: &[u8]) -> u16 {
    checksum(&zeroed(message, 2))
}

// ---------------------------------------------------------------------------------------------
// who checks the checker
// ---------------------------------------------------------------------------------------------

/// literal vectors and algebraic identities; returns the list of failed checks
pub fn selfcheck() -> Vec<String> {
    let mut bad = Vec::new();
    // RFC 1071 §3 numerical example: 00 01 f2 03 f4 f5 f6 f7 -> sum ddf2 (carry 2 folded in), checksum 220d
    let v = [0x00u8, 0x01, 0xf2, 0x03, 0xf4, 0xf5, 0xf6, 0xf7];
    if word_sum(&v) != 0x2ddf0 {
        bad.push(format!("rfc1071 example raw sum {:x}", word_sum(&v)));
    }
    if fold(word_sum(&v)) != 0xddf2 {
        bad.push(format!("rfc1071 example folded {:x}", fold(word_sum(&v))));
    }
    if checksum(&v) != 0x220d {
        bad.push(format!("rfc1071 example checksum {:x}", checksum(&v)));
    }
    // odd length: 00 01 f2 == 00 01 f2 00
    if checksum(&[0x00, 0x01, 0xf2]) != checksum(&[0x00, 0x01, 0xf2, 0x00]) {
        bad.push("odd pad".into());
    }
    if checksum(&[]) != 0xffff || checksum(&[0xff, 0xff]) != 0 || checksum(&[0, 0]) != 0xffff {
        bad.push("empty / all ones / zero".into());
    }
    // the well known IPv4 header example (checksum b861)
    let ip = [
        0x45u8, 0x00, 0x00, 0x73, 0x00, 0x00, 0x40, 0x00, 0x40, 0x11, 0xb8, 0x61, 0xc0, 0xa8, 0x00, 0x01, 0xc0, 0xa8,
        0x00, 0xc7,
    ];
    if ipv4_header(&ip) != 0xb861 {
        bad.push(format!("ipv4 example {:x}", ipv4_header(&ip)));
    }
    if folded_parts(&[&ip]) != 0xffff {
        bad.push("ipv4 example does not verify".into());
    }
    // fold == arithmetic modulo 65535 on a deterministic sweep of sums incl. multi-carry values
    let mut x: u64 = 0x9E37_79B9_7F4A_7C15;
    for i in 0..20_000u64 {
        x = x.wrapping_mul(6364136223846793005).wrapping_add(1442695040888963407);
        let s = match i % 5 {
            0 => x >> 16,
            1 => x >> 40,
            2 => (x >> 47) * 0xffff,
            3 => 0xffff_0000 + (x >> 60),
            _ => i,
        };
        if fold(s) != fold_mod(s) {
            bad.push(format!("fold({:x})={:x} but mod 65535 formulation {:x}", s, fold(s), fold_mod(s)));
            break;
        }
    }
    // pseudo header layouts
    let p4 = pseudo_v4([1, 2, 3, 4], [5, 6, 7, 8], 17, 0x1234);
    if p4 != [1, 2, 3, 4, 5, 6, 7, 8, 0, 17, 0x12, 0x34] {
        bad.push("pseudo_v4".into());
    }
    let mut s = [0u8; 16];
    let mut d = [0u8; 16];
    for i in 0..16 {
        s[i] = i as u8 + 1;
        d[i] = 0x80 + i as u8;
    }
    let p6 = pseudo_v6(s, d, 0x0102_0304, 58);
    if p6[..16] != s || p6[16..32] != d || p6[32..] != [1, 2, 3, 4, 0, 0, 0, 58] {
        bad.push("pseudo_v6".into());
    }
    // a computed checksum put into the message makes it verify
    let mut m = vec![128u8, 0, 0, 0, 0x12, 0x34, 0x00, 0x01, b'a', b'b', b'c'];
    let c = icmpv6(s, d, &m).unwrap();
    m[2] = (c >> 8) as u8;
    m[3] = (c & 0xff) as u8;
    if !icmpv6_verifies(s, d, &m) {
        bad.push("icmpv6 computed checksum does not verify".into());
    }
    m[10] ^= 0x10;
    if icmpv6_verifies(s, d, &m) {
        bad.push("icmpv6 corrupted message verifies".into());
    }
    bad
}
