//! R-ctrl — independent reference decoder for control messages (property C17).
//!
//! Written from the RFC texts with plain indexing and explicit masks; nothing in here calls
//! etherparse.
//!
//! * ICMPv4: RFC 792 (formats), RFC 1122 §3.2.2.1 + RFC 1812 §5.2.7.1 (destination unreachable
//!   codes 6..15), RFC 1191 §4 (next-hop MTU in bytes 6..8 of "fragmentation needed"),
//!   RFC 1108 / IANA (parameter problem codes 1, 2).
//! * ICMPv6: RFC 4443 (types 1..4, 128, 129), parameter problem codes 3..10 of RFC 7112,
//!   RFC 8754, RFC 8883 (the crate documents them as supported), RFC 4861 §4.1–4.6 (neighbour
//!   discovery messages and options).
//! * IGMP: RFC 1112 appendix I, RFC 2236 §2, RFC 3376 / RFC 9776 §4 (v3 query and report, group
//!   records) and §7.1 (query version by length).
//! * ARP: RFC 826 (packet format), the Ethernet/IPv4 instance (hrd 1, pro 0x0800, hln 6, pln 4).
//!
//! Where an RFC assigns a type or code for which the crate has no typed variant (e.g. ICMPv4
//! source quench, ICMPv6 MLD) the reference says `Unknown` as well: the property only demands that
//! typed variants are right and that everything unassigned falls back to the raw form.

pub type F = (&'static str, u128);

/// decoded message: kind, field values and the size of the fixed part ("header"); the variable
/// part (payload) is `bytes[fixed..]`
#[derive(Clone, Debug, PartialEq, Eq)]
pub struct Msg {
    pub kind: &'static str,
    pub f: Vec<F>,
    pub fixed: usize,
}

/// the input is rejected because of its length
#[derive(Clone, Debug, PartialEq, Eq)]
pub struct Short {
    /// bytes needed
    pub required: usize,
    /// bytes present
    pub len: usize,
    /// which rule
    pub rule: &'static str,
}

#[inline]
pub fn be16(b: &[u8], o: usize) -> u128 {
    ((b[o] as u128) << 8) | b[o + 1] as u128
}

#[inline]
pub fn be32(b: &[u8], o: usize) -> u128 {
    ((b[o] as u128) << 24) | ((b[o + 1] as u128) << 16) | ((b[o + 2] as u128) << 8) | b[o + 3] as u128
}

#[inline]
pub fn be128(b: &[u8], o: usize) -> u128 {
    let mut v: u128 = 0;
    for i in 0..16 {
        v = (v << 8) | b[o + i] as u128;
    }
    v
}

/// big endian value of up to 16 bytes (link layer addresses)
pub fn be_var(b: &[u8]) -> u128 {
    let mut v: u128 = 0;
    for x in b.iter().take(16) {
        v = (v << 8) | *x as u128;
    }
    v
}

// ---------------------------------------------------------------------------------------------
// ICMPv4
// ---------------------------------------------------------------------------------------------

/// does the crate model (type, code) with a typed variant (documented in icmpv4_type.rs)
pub fn icmp4_typed(t: u8, c: u8) -> bool {
    matches!(
        (t, c),
        (0, 0) | (3, 0..=15) | (5, 0..=3) | (8, 0) | (11, 0..=1) | (12, 0..=2) | (13, 0) | (14, 0)
    )
}

pub fn icmp4(b: &[u8]) -> Result<Msg, Short> {
    if b.len() < 8 {
        return Err(Short {
            required: 8,
            len: b.len(),
            rule: "icmp4.header",
        });
    }
    let (t, c) = (b[0], b[1]);
    let m = |kind: &'static str, f: Vec<F>| Msg { kind, f, fixed: 8 };
    Ok(match (t, c) {
        // RFC 792 p.14: echo reply, identifier, sequence number
        (0, 0) => m("EchoReply", vec![("id", be16(b, 4)), ("seq", be16(b, 6))]),
        // RFC 792 p.4, RFC 1122, RFC 1812; RFC 1191: unused(16) next-hop MTU(16)
        (3, 0..=15) => {
            let mut f = vec![("code", c as u128)];
            if c == 4 {
                f.push(("next_hop_mtu", be16(b, 6)));
            }
            m("DestinationUnreachable", f)
        }
        // RFC 792 p.12: gateway internet address
        (5, 0..=3) => m("Redirect", vec![("code", c as u128), ("gateway", be32(b, 4))]),
        (8, 0) => m("EchoRequest", vec![("id", be16(b, 4)), ("seq", be16(b, 6))]),
        // RFC 792 p.6
        (11, 0..=1) => m("TimeExceeded", vec![("code", c as u128)]),
        // RFC 792 p.8: pointer (only meaningful for code 0)
        (12, 0) => m("ParameterProblem", vec![("code", 0), ("pointer", b[4] as u128)]),
        (12, 1..=2) => m("ParameterProblem", vec![("code", c as u128)]),
        // RFC 792 p.16: 20 bytes; the crate documents that it rejects every other length
        (13, 0) | (14, 0) => {
            if b.len() != 20 {
                return Err(Short {
                    required: 20,
                    len: b.len(),
                    rule: if b.len() < 20 { "icmp4.timestamp_short" } else { "icmp4.timestamp_long" },
                });
            }
            Msg {
                kind: if t == 13 { "TimestampRequest" } else { "TimestampReply" },
                f: vec![
                    ("id", be16(b, 4)),
                    ("seq", be16(b, 6)),
                    ("originate", be32(b, 8)),
                    ("receive", be32(b, 12)),
                    ("transmit", be32(b, 16)),
                ],
                fixed: 20,
            }
        }
        _ => m(
            "Unknown",
            vec![("type", t as u128), ("code", c as u128), ("bytes5to8", be32(b, 4))],
        ),
    })
}

// ---------------------------------------------------------------------------------------------
// ICMPv6
// ---------------------------------------------------------------------------------------------

pub fn icmp6_typed(t: u8, c: u8) -> bool {
    matches!(
        (t, c),
        (1, 0..=6) | (2, 0) | (3, 0..=1) | (4, 0..=10) | (128, 0) | (129, 0) | (133, 0) | (134, 0) | (135, 0) | (136, 0) | (137, 0)
    )
}

pub fn icmp6(b: &[u8]) -> Result<Msg, Short> {
    if b.len() < 8 {
        return Err(Short {
            required: 8,
            len: b.len(),
            rule: "icmp6.header",
        });
    }
    let (t, c) = (b[0], b[1]);
    let m = |kind: &'static str, f: Vec<F>| Msg { kind, f, fixed: 8 };
    Ok(match (t, c) {
        // RFC 4443 §3.1
        (1, 0..=6) => m("DestinationUnreachable", vec![("code", c as u128)]),
        // RFC 4443 §3.2
        (2, 0) => m("PacketTooBig", vec![("mtu", be32(b, 4))]),
        // RFC 4443 §3.3
        (3, 0..=1) => m("TimeExceeded", vec![("code", c as u128)]),
        // RFC 4443 §3.4 (+ RFC 7112, 8754, 8883 codes)
        (4, 0..=10) => m("ParameterProblem", vec![("code", c as u128), ("pointer", be32(b, 4))]),
        // RFC 4443 §4.1, §4.2
        (128, 0) => m("EchoRequest", vec![("id", be16(b, 4)), ("seq", be16(b, 6))]),
        (129, 0) => m("EchoReply", vec![("id", be16(b, 4)), ("seq", be16(b, 6))]),
        // RFC 4861 §4.1: reserved(32)
        (133, 0) => m("RouterSolicitation", vec![]),
        // RFC 4861 §4.2: cur hop limit(8) M O reserved(6) router lifetime(16)
        (134, 0) => m(
            "RouterAdvertisement",
            vec![
                ("cur_hop_limit", b[4] as u128),
                ("managed", ((b[5] >> 7) & 1) as u128),
                ("other", ((b[5] >> 6) & 1) as u128),
                ("router_lifetime", be16(b, 6)),
            ],
        ),
        // RFC 4861 §4.3: reserved(32)
        (135, 0) => m("NeighborSolicitation", vec![]),
        // RFC 4861 §4.4: R S O reserved(29)
        (136, 0) => m(
            "NeighborAdvertisement",
            vec![
                ("router", ((b[4] >> 7) & 1) as u128),
                ("solicited", ((b[4] >> 6) & 1) as u128),
                ("override", ((b[4] >> 5) & 1) as u128),
            ],
        ),
        // RFC 4861 §4.5: reserved(32)
        (137, 0) => m("Redirect", vec![]),
        _ => m(
            "Unknown",
            vec![("type", t as u128), ("code", c as u128), ("bytes5to8", be32(b, 4))],
        ),
    })
}

/// structured view of the bytes behind the first 8 bytes of an ICMPv6 message
#[derive(Clone, Debug, PartialEq, Eq)]
pub struct Pay6 {
    pub kind: &'static str,
    pub f: Vec<F>,
    /// size of the fixed part of the payload (0 for everything but neighbour discovery)
    pub fixed: usize,
    /// the variable part is a neighbour discovery option area
    pub has_options: bool,
}

/// `p` = bytes behind the 8 byte ICMPv6 header
pub fn icmp6_payload(t: u8, c: u8, p: &[u8]) -> Result<Pay6, Short> {
    let plain = |kind: &'static str| Pay6 {
        kind,
        f: vec![],
        fixed: 0,
        has_options: false,
    };
    let need = |n: usize, rule: &'static str| -> Result<(), Short> {
        if p.len() < n {
            Err(Short {
                required: n,
                len: p.len(),
                rule,
            })
        } else {
            Ok(())
        }
    };
    Ok(match (t, c) {
        // RFC 4443: as much of the invoking packet as fits
        (1, 0..=6) => plain("DestinationUnreachable"),
        (2, 0) => plain("PacketTooBig"),
        (3, 0..=1) => plain("TimeExceeded"),
        (4, 0..=10) => plain("ParameterProblem"),
        // arbitrary data
        (128, 0) => plain("EchoRequest"),
        (129, 0) => plain("EchoReply"),
        // RFC 4861 §4.1: options directly behind the reserved word
        (133, 0) => Pay6 {
            kind: "RouterSolicitation",
            f: vec![],
            fixed: 0,
            has_options: true,
        },
        // RFC 4861 §4.2: reachable time(32) retrans timer(32) options
        (134, 0) => {
            need(8, "ndp.ra_fixed")?;
            Pay6 {
                kind: "RouterAdvertisement",
                f: vec![("reachable_time", be32(p, 0)), ("retrans_timer", be32(p, 4))],
                fixed: 8,
                has_options: true,
            }
        }
        // RFC 4861 §4.3: target address(128) options
        (135, 0) => {
            need(16, "ndp.ns_fixed")?;
            Pay6 {
                kind: "NeighborSolicitation",
                f: vec![("target", be128(p, 0))],
                fixed: 16,
                has_options: true,
            }
        }
        // RFC 4861 §4.4
        (136, 0) => {
            need(16, "ndp.na_fixed")?;
            Pay6 {
                kind: "NeighborAdvertisement",
                f: vec![("target", be128(p, 0))],
                fixed: 16,
                has_options: true,
            }
        }
        // RFC 4861 §4.5: target address(128) destination address(128) options
        (137, 0) => {
            need(32, "ndp.redirect_fixed")?;
            Pay6 {
                kind: "Redirect",
                f: vec![("target", be128(p, 0)), ("destination", be128(p, 16))],
                fixed: 32,
                has_options: true,
            }
        }
        _ => plain("Raw"),
    })
}

// ---------------------------------------------------------------------------------------------
// neighbour discovery options (RFC 4861 §4.6)
// ---------------------------------------------------------------------------------------------

#[derive(Clone, Debug, PartialEq, Eq)]
pub struct ROpt {
    pub ty: u8,
    pub units: u8,
    /// byte range of the whole option inside the option area
    pub off: usize,
    pub len: usize,
    pub kind: &'static str,
    pub f: Vec<F>,
    /// byte range of the variable body (link layer address, redirected packet, unknown data)
    pub body_off: usize,
    pub body_len: usize,
}

#[derive(Clone, Copy, Debug, PartialEq, Eq)]
pub enum Reject {
    /// fewer than the 2 bytes of type + length are left
    TruncatedHeader,
    /// length field 0 (RFC 4861 §4.6: "Nodes MUST silently discard an ND packet that contains an
    /// option with length zero")
    ZeroLength,
    /// length * 8 exceeds what is left of the area
    Truncated,
    /// an option of fixed size (prefix information: 4 units, MTU: 1 unit) with another length
    WrongFixedSize,
}

#[derive(Clone, Debug, PartialEq, Eq)]
pub struct RReject {
    pub off: usize,
    /// type byte of the rejected option
    pub ty: u8,
    pub units: Option<u8>,
    /// bytes left in the area at `off`
    pub left: usize,
    /// every truthful reason
    pub reasons: Vec<Reject>,
}

#[derive(Clone, Debug, PartialEq, Eq)]
pub struct ROpts {
    pub opts: Vec<ROpt>,
    pub reject: Option<RReject>,
}

pub fn fixed_units(ty: u8) -> Option<u8> {
    match ty {
        3 => Some(4), // RFC 4861 §4.6.2
        5 => Some(1), // RFC 4861 §4.6.4
        _ => None,
    }
}

pub fn ndp_options(a: &[u8]) -> ROpts {
    let mut opts = Vec::new();
    let mut o = 0usize;
    loop {
        let left = a.len() - o;
        if left == 0 {
            return ROpts { opts, reject: None };
        }
        let ty = a[o];
        if left < 2 {
            return ROpts {
                opts,
                reject: Some(RReject {
                    off: o,
                    ty,
                    units: None,
                    left,
                    reasons: vec![Reject::TruncatedHeader],
                }),
            };
        }
        let units = a[o + 1];
        let len = units as usize * 8;
        let mut reasons = Vec::new();
        if units == 0 {
            reasons.push(Reject::ZeroLength);
        }
        if len > left {
            reasons.push(Reject::Truncated);
        }
        if let Some(fu) = fixed_units(ty) {
            if fu != units {
                reasons.push(Reject::WrongFixedSize);
            }
        }
        if !reasons.is_empty() {
            return ROpts {
                opts,
                reject: Some(RReject {
                    off: o,
                    ty,
                    units: Some(units),
                    left,
                    reasons,
                }),
            };
        }
        let b = &a[o..o + len];
        let (kind, f, body_off, body_len): (&'static str, Vec<F>, usize, usize) = match ty {
            // §4.6.1 source / target link-layer address: the address fills the option
            1 => ("SourceLinkLayerAddress", vec![("addr", be_var(&b[2..]))], o + 2, len - 2),
            2 => ("TargetLinkLayerAddress", vec![("addr", be_var(&b[2..]))], o + 2, len - 2),
            // §4.6.2: prefix length(8) L A reserved1(6) valid(32) preferred(32) reserved2(32) prefix(128)
            3 => (
                "PrefixInformation",
                vec![
                    ("prefix_length", b[2] as u128),
                    ("on_link", ((b[3] >> 7) & 1) as u128),
                    ("autonomous", ((b[3] >> 6) & 1) as u128),
                    ("valid_lifetime", be32(b, 4)),
                    ("preferred_lifetime", be32(b, 8)),
                    ("prefix", be128(b, 16)),
                ],
                o + 16,
                16,
            ),
            // §4.6.3: reserved(48) IP header + data
            4 => ("RedirectedHeader", vec![], o + 8, len - 8),
            // §4.6.4: reserved(16) MTU(32)
            5 => ("Mtu", vec![("mtu", be32(b, 4))], o + 4, 4),
            _ => ("Unknown", vec![], o + 2, len - 2),
        };
        opts.push(ROpt {
            ty,
            units,
            off: o,
            len,
            kind,
            f,
            body_off,
            body_len,
        });
        o += len;
    }
}

/// reference encoder (self check of the option walker)
pub fn enc_option(ty: u8, units: u8, body: &[u8]) -> Vec<u8> {
    let mut v = vec![ty, units];
    let n = (units as usize * 8).saturating_sub(2);
    for i in 0..n {
        v.push(body.get(i).copied().unwrap_or(0));
    }
    v
}

// ---------------------------------------------------------------------------------------------
// IGMP
// ---------------------------------------------------------------------------------------------

/// RFC 3376 §4.1.1 / §4.1.7: codes >= 128 are a floating point value
/// (mant | 0x10) << (exp + 3)
pub fn igmp_code_value(code: u8) -> u128 {
    if code < 128 {
        code as u128
    } else {
        let mant = (code & 0x0f) as u128;
        let exp = ((code >> 4) & 0x07) as u32;
        (mant | 0x10) << (exp + 3)
    }
}

pub fn igmp(b: &[u8]) -> Result<Msg, Short> {
    if b.len() < 8 {
        return Err(Short {
            required: 8,
            len: b.len(),
            rule: "igmp.header",
        });
    }
    let t = b[0];
    let group = be32(b, 4);
    let m = |kind: &'static str, f: Vec<F>| Msg { kind, f, fixed: 8 };
    Ok(match t {
        0x11 => {
            // RFC 9776 §7.1 (= RFC 3376 §7.1): 8 octets: v1/v2, >= 12 octets: v3, anything else
            // must be ignored
            if b.len() == 8 {
                m("MembershipQuery", vec![("max_resp", b[1] as u128), ("group", group)])
            } else if b.len() >= 12 {
                Msg {
                    kind: "MembershipQueryWithSources",
                    f: vec![
                        ("max_resp_code", b[1] as u128),
                        ("max_resp_value", igmp_code_value(b[1])),
                        ("group", group),
                        // RFC 3376 §4.1: resv(4) S(1) QRV(3) QQIC(8) number of sources(16)
                        ("raw_byte_8", b[8] as u128),
                        ("flags", (b[8] >> 4) as u128),
                        ("s", ((b[8] >> 3) & 1) as u128),
                        ("qrv", (b[8] & 7) as u128),
                        ("qqic", b[9] as u128),
                        ("nsrc", be16(b, 10)),
                    ],
                    fixed: 12,
                }
            } else {
                return Err(Short {
                    required: 12,
                    len: b.len(),
                    rule: "igmp.query_9_to_11",
                });
            }
        }
        // RFC 1112 appendix I
        0x12 => m("MembershipReportV1", vec![("group", group)]),
        // RFC 2236 §2
        0x16 => m("MembershipReportV2", vec![("group", group)]),
        0x17 => m("LeaveGroup", vec![("group", group)]),
        // RFC 3376 §4.2: reserved(8) checksum reserved/flags(16) number of group records(16)
        0x22 => m("MembershipReportV3", vec![("flags", be16(b, 4)), ("nrec", be16(b, 6))]),
        _ => m(
            "Unknown",
            vec![("type", t as u128), ("byte1", b[1] as u128), ("bytes4_7", group)],
        ),
    })
}

/// RFC 3376 §4.2.4: record type(8) aux data len(8) number of sources(16) multicast address(32)
/// sources(32 each) auxiliary data (aux data len 32 bit words); returns the header and the total
/// record length announced by it
pub fn igmp_group_record(b: &[u8]) -> Result<(Msg, usize), Short> {
    if b.len() < 8 {
        return Err(Short {
            required: 8,
            len: b.len(),
            rule: "igmp.group_record",
        });
    }
    let nsrc = be16(b, 2) as usize;
    let aux = b[1] as usize;
    Ok((
        Msg {
            kind: "GroupRecord",
            f: vec![
                ("record_type", b[0] as u128),
                ("aux_data_len", b[1] as u128),
                ("nsrc", nsrc as u128),
                ("multicast_address", be32(b, 4)),
            ],
            fixed: 8,
        },
        8 + 4 * nsrc + 4 * aux,
    ))
}

// ---------------------------------------------------------------------------------------------
// ARP (RFC 826)
// ---------------------------------------------------------------------------------------------

#[derive(Clone, Debug, PartialEq, Eq)]
pub struct RArp {
    pub hrd: u16,
    pub pro: u16,
    pub hln: u8,
    pub pln: u8,
    pub op: u16,
    /// (offset, len) of ar$sha, ar$spa, ar$tha, ar$tpa
    pub sha: (usize, usize),
    pub spa: (usize, usize),
    pub tha: (usize, usize),
    pub tpa: (usize, usize),
    /// length of the packet; bytes behind it (padding) do not belong to it
    pub total: usize,
    /// hrd 1 (Ethernet), pro 0x0800 (IPv4), hln 6, pln 4
    pub eth_ipv4: bool,
}

pub fn arp(b: &[u8]) -> Result<RArp, Short> {
    if b.len() < 8 {
        return Err(Short {
            required: 8,
            len: b.len(),
            rule: "arp.fixed",
        });
    }
    let hrd = be16(b, 0) as u16;
    let pro = be16(b, 2) as u16;
    let hln = b[4];
    let pln = b[5];
    let op = be16(b, 6) as u16;
    let (h, p) = (hln as usize, pln as usize);
    let total = 8 + 2 * h + 2 * p;
    if b.len() < total {
        return Err(Short {
            required: total,
            len: b.len(),
            rule: "arp.addresses",
        });
    }
    Ok(RArp {
        hrd,
        pro,
        hln,
        pln,
        op,
        sha: (8, h),
        spa: (8 + h, p),
        tha: (8 + h + p, h),
        tpa: (8 + 2 * h + p, p),
        total,
        eth_ipv4: hrd == 1 && pro == 0x0800 && hln == 6 && pln == 4,
    })
}

// ---------------------------------------------------------------------------------------------
// literal vectors (who checks the checker): returns a list of disagreements
// ---------------------------------------------------------------------------------------------

fn get(f: &[F], name: &str) -> Option<u128> {
    f.iter().find(|x| x.0 == name).map(|x| x.1)
}

pub fn self_check() -> Vec<String> {
    let mut bad = Vec::new();
    let mut expect = |what: &str, ok: bool| {
        if !ok {
            bad.push(what.to_string());
        }
    };

    // ICMPv4 echo request id 1 seq 2 with 4 data bytes
    let v = [8u8, 0, 0xf7, 0xfa, 0, 1, 0, 2, b'a', b'b', b'c', b'd'];
    match icmp4(&v) {
        Ok(m) => expect(
            "icmp4 echo request",
            m.kind == "EchoRequest" && get(&m.f, "id") == Some(1) && get(&m.f, "seq") == Some(2) && m.fixed == 8,
        ),
        Err(_) => expect("icmp4 echo request rejected", false),
    }
    // ICMPv4 fragmentation needed, next hop MTU 1500 (RFC 1191)
    let v = [3u8, 4, 0, 0, 0, 0, 0x05, 0xdc, 0x45, 0, 0, 20];
    match icmp4(&v) {
        Ok(m) => expect(
            "icmp4 frag needed",
            m.kind == "DestinationUnreachable" && get(&m.f, "code") == Some(4) && get(&m.f, "next_hop_mtu") == Some(1500),
        ),
        Err(_) => expect("icmp4 frag needed rejected", false),
    }
    // ICMPv4 timestamp: exactly 20 bytes
    let mut v = vec![13u8, 0, 0, 0, 0x12, 0x34, 0x56, 0x78];
    v.extend_from_slice(&[0, 0, 0, 1, 0, 0, 0, 2, 0, 0, 0, 3]);
    match icmp4(&v) {
        Ok(m) => expect(
            "icmp4 timestamp",
            m.kind == "TimestampRequest"
                && get(&m.f, "id") == Some(0x1234)
                && get(&m.f, "seq") == Some(0x5678)
                && get(&m.f, "originate") == Some(1)
                && get(&m.f, "receive") == Some(2)
                && get(&m.f, "transmit") == Some(3)
                && m.fixed == 20,
        ),
        Err(_) => expect("icmp4 timestamp rejected", false),
    }
    expect("icmp4 timestamp 19 bytes", icmp4(&v[..19]).is_err());
    expect("icmp4 7 bytes", icmp4(&v[..7]).is_err());
    expect("icmp4 source quench is unknown", icmp4(&[4, 0, 0, 0, 0, 0, 0, 0]).map(|m| m.kind) == Ok("Unknown"));
    expect("icmp4 echo code 1 is unknown", icmp4(&[8, 1, 0, 0, 0, 0, 0, 0]).map(|m| m.kind) == Ok("Unknown"));

    // ICMPv6 router advertisement: hop limit 64, M+O, lifetime 1800, reachable 30000, retrans
    // 1000, options: SLLA 00:11:22:33:44:55, MTU 1500, prefix 2001:db8::/64 L+A 2592000/604800
    let mut ra = vec![134u8, 0, 0, 0, 64, 0xc0, 0x07, 0x08];
    ra.extend_from_slice(&[0, 0, 0x75, 0x30, 0, 0, 0x03, 0xe8]);
    ra.extend_from_slice(&[1, 1, 0x00, 0x11, 0x22, 0x33, 0x44, 0x55]);
    ra.extend_from_slice(&[5, 1, 0, 0, 0, 0, 0x05, 0xdc]);
    ra.extend_from_slice(&[3, 4, 64, 0xc0, 0x00, 0x27, 0x8d, 0x00, 0x00, 0x09, 0x3a, 0x80, 0, 0, 0, 0]);
    ra.extend_from_slice(&[0x20, 0x01, 0x0d, 0xb8, 0, 0, 0, 0, 0, 0, 0, 0, 0, 0, 0, 0]);
    match icmp6(&ra) {
        Ok(m) => expect(
            "icmp6 RA header",
            m.kind == "RouterAdvertisement"
                && get(&m.f, "cur_hop_limit") == Some(64)
                && get(&m.f, "managed") == Some(1)
                && get(&m.f, "other") == Some(1)
                && get(&m.f, "router_lifetime") == Some(1800),
        ),
        Err(_) => expect("icmp6 RA rejected", false),
    }
    match icmp6_payload(134, 0, &ra[8..]) {
        Ok(p) => {
            expect(
                "icmp6 RA payload",
                p.kind == "RouterAdvertisement"
                    && get(&p.f, "reachable_time") == Some(30000)
                    && get(&p.f, "retrans_timer") == Some(1000)
                    && p.fixed == 8
                    && p.has_options,
            );
            let o = ndp_options(&ra[16..]);
            expect("RA options count", o.opts.len() == 3 && o.reject.is_none());
            if o.opts.len() == 3 {
                expect(
                    "RA SLLA",
                    o.opts[0].kind == "SourceLinkLayerAddress"
                        && get(&o.opts[0].f, "addr") == Some(0x001122334455)
                        && (o.opts[0].off, o.opts[0].len) == (0, 8),
                );
                expect(
                    "RA MTU",
                    o.opts[1].kind == "Mtu" && get(&o.opts[1].f, "mtu") == Some(1500) && (o.opts[1].off, o.opts[1].len) == (8, 8),
                );
                expect(
                    "RA prefix",
                    o.opts[2].kind == "PrefixInformation"
                        && get(&o.opts[2].f, "prefix_length") == Some(64)
                        && get(&o.opts[2].f, "on_link") == Some(1)
                        && get(&o.opts[2].f, "autonomous") == Some(1)
                        && get(&o.opts[2].f, "valid_lifetime") == Some(2592000)
                        && get(&o.opts[2].f, "preferred_lifetime") == Some(604800)
                        && get(&o.opts[2].f, "prefix") == Some(0x2001_0db8u128 << 96)
                        && (o.opts[2].off, o.opts[2].len) == (16, 32),
                );
            }
        }
        Err(_) => expect("icmp6 RA payload rejected", false),
    }
    expect("RA payload of 7 bytes", icmp6_payload(134, 0, &ra[8..15]).is_err());
    expect("NS payload of 15 bytes", icmp6_payload(135, 0, &ra[8..23]).is_err());
    expect("redirect payload of 31 bytes", icmp6_payload(137, 0, &ra[8..39]).is_err());
    expect("icmp6 MLD query is unknown", icmp6(&[130, 0, 0, 0, 0, 0, 0, 0]).map(|m| m.kind) == Ok("Unknown"));
    expect("icmp6 NS code 1 is unknown", icmp6(&[135, 1, 0, 0, 0, 0, 0, 0]).map(|m| m.kind) == Ok("Unknown"));
    // option walker: zero length, truncation, wrong fixed size
    let z = ndp_options(&[1, 1, 0, 0, 0, 0, 0, 0, 9, 0, 0, 0, 0, 0, 0, 0]);
    expect(
        "zero length option",
        z.opts.len() == 1 && z.reject.as_ref().map(|r| (r.off, r.reasons.clone())) == Some((8, vec![Reject::ZeroLength])),
    );
    let z = ndp_options(&[1, 2, 0, 0, 0, 0, 0, 0, 9, 0, 0, 0]);
    expect(
        "truncated option",
        z.opts.is_empty() && z.reject.as_ref().map(|r| r.reasons.clone()) == Some(vec![Reject::Truncated]),
    );
    let z = ndp_options(&[5, 2, 0, 0, 0, 0, 0, 0, 0, 0, 0, 0, 0, 0, 0, 0]);
    expect(
        "MTU option of 2 units",
        z.opts.is_empty() && z.reject.as_ref().map(|r| r.reasons.clone()) == Some(vec![Reject::WrongFixedSize]),
    );
    let z = ndp_options(&[7]);
    expect(
        "one dangling byte",
        z.reject.as_ref().map(|r| r.reasons.clone()) == Some(vec![Reject::TruncatedHeader]),
    );
    // encoder / decoder round trip
    let mut area = Vec::new();
    let list: [(u8, u8); 6] = [(1, 1), (2, 2), (4, 6), (5, 1), (3, 4), (200, 3)];
    for (i, (ty, units)) in list.iter().enumerate() {
        area.extend_from_slice(&enc_option(*ty, *units, &[i as u8 + 1; 64]));
    }
    let d = ndp_options(&area);
    let mut off = 0;
    let mut same = d.reject.is_none() && d.opts.len() == list.len();
    if same {
        for (o, (ty, units)) in d.opts.iter().zip(list.iter()) {
            same &= o.ty == *ty && o.units == *units && o.off == off && o.len == *units as usize * 8;
            off += o.len;
        }
    }
    expect("option encoder/decoder round trip", same && off == area.len());

    // IGMPv2 general query, max resp time 10 s
    match igmp(&[0x11, 100, 0xee, 0x9b, 0, 0, 0, 0]) {
        Ok(m) => expect(
            "igmp v2 query",
            m.kind == "MembershipQuery" && get(&m.f, "max_resp") == Some(100) && get(&m.f, "group") == Some(0) && m.fixed == 8,
        ),
        Err(_) => expect("igmp v2 query rejected", false),
    }
    // IGMPv3 query: group 224.0.0.1, S set, QRV 2, QQIC 125, one source
    let q3 = [0x11u8, 100, 0, 0, 224, 0, 0, 1, 0x0a, 125, 0, 1, 192, 168, 0, 1];
    match igmp(&q3) {
        Ok(m) => expect(
            "igmp v3 query",
            m.kind == "MembershipQueryWithSources"
                && get(&m.f, "group") == Some(0xe000_0001)
                && get(&m.f, "flags") == Some(0)
                && get(&m.f, "s") == Some(1)
                && get(&m.f, "qrv") == Some(2)
                && get(&m.f, "qqic") == Some(125)
                && get(&m.f, "nsrc") == Some(1)
                && m.fixed == 12,
        ),
        Err(_) => expect("igmp v3 query rejected", false),
    }
    for n in 9..12 {
        expect("igmp query of 9..11 bytes", igmp(&q3[..n]).is_err());
    }
    expect("igmp 7 bytes", igmp(&q3[..7]).is_err());
    // RFC 3376 §4.1.1 example values of the floating point code
    expect("max resp code 127", igmp_code_value(127) == 127);
    expect("max resp code 128", igmp_code_value(128) == 128);
    expect("max resp code 255", igmp_code_value(255) == 31744);
    // IGMPv3 report: one record CHANGE_TO_EXCLUDE 239.1.2.3 with one source
    let r3 = [0x22u8, 0, 0, 0, 0, 0, 0, 1, 4, 0, 0, 1, 239, 1, 2, 3, 10, 0, 0, 1];
    match igmp(&r3) {
        Ok(m) => expect(
            "igmp v3 report",
            m.kind == "MembershipReportV3" && get(&m.f, "nrec") == Some(1) && get(&m.f, "flags") == Some(0) && m.fixed == 8,
        ),
        Err(_) => expect("igmp v3 report rejected", false),
    }
    match igmp_group_record(&r3[8..]) {
        Ok((m, total)) => expect(
            "igmp group record",
            get(&m.f, "record_type") == Some(4)
                && get(&m.f, "nsrc") == Some(1)
                && get(&m.f, "multicast_address") == Some(0xef01_0203)
                && total == 12,
        ),
        Err(_) => expect("igmp group record rejected", false),
    }
    expect("igmp type 0x13 unknown", igmp(&[0x13, 0, 0, 0, 0, 0, 0, 0]).map(|m| m.kind) == Ok("Unknown"));

    // ARP request Ethernet/IPv4 (RFC 826) with 18 bytes of Ethernet padding
    let mut a = vec![0u8, 1, 8, 0, 6, 4, 0, 1];
    a.extend_from_slice(&[0x02, 0, 0, 0, 0, 1, 10, 0, 0, 1]);
    a.extend_from_slice(&[0, 0, 0, 0, 0, 0, 10, 0, 0, 2]);
    a.extend_from_slice(&[0; 18]);
    match arp(&a) {
        Ok(r) => expect(
            "arp request",
            r.eth_ipv4
                && r.op == 1
                && r.sha == (8, 6)
                && r.spa == (14, 4)
                && r.tha == (18, 6)
                && r.tpa == (24, 4)
                && r.total == 28,
        ),
        Err(_) => expect("arp request rejected", false),
    }
    expect("arp 27 bytes", arp(&a[..27]).is_err());
    expect("arp 7 bytes", arp(&a[..7]).is_err());
    bad
}
