//! Reference model of the TCP option area, written from the RFC text with plain indexing.
//!
//! * RFC 9293 §3.1 "Options": an option is either a single kind octet (End of Option List = 0,
//!   No-Operation = 1) or kind, length, data where the length counts kind and length octets.
//!   "End of Option List … indicates the end of the option list". The data offset is a 4 bit
//!   count of 32 bit words, the fixed header has 5 -> at most (15 - 5) * 4 = 40 option octets,
//!   and the header is padded with zeros to a 32 bit boundary. MSS: kind 2, length 4, 16 bit.
//! * RFC 7323 §2.2 window scale: kind 3, length 3, shift count octet. §3.2 timestamps: kind 8,
//!   length 10, TSval (32 bit), TSecr (32 bit).
//! * RFC 2018 §2 SACK-permitted: kind 4, length 2. §3 SACK: kind 5, length 8 * n + 2, n blocks
//!   of left edge / right edge (32 bit each); 40 octets leave room for at most 4 blocks ->
//!   lengths 10, 18, 26, 34.
//!
//! Nothing in here calls etherparse.

pub const KIND_END: u8 = 0;
pub const KIND_NOP: u8 = 1;
pub const KIND_MSS: u8 = 2;
pub const KIND_WSCALE: u8 = 3;
pub const KIND_SACK_PERM: u8 = 4;
pub const KIND_SACK: u8 = 5;
pub const KIND_TS: u8 = 8;

/// (15 - 5) * 4
pub const MAX_AREA: usize = 40;

#[derive(Clone, Debug, PartialEq, Eq)]
pub enum ROpt {
    Nop,
    Mss(u16),
    WScale(u8),
    SackPerm,
    /// 1..=4 blocks (left edge, right edge)
    Sack(Vec<(u32, u32)>),
    Ts(u32, u32),
}

impl ROpt {
    pub fn wire_len(&self) -> usize {
        match self {
            ROpt::Nop => 1,
            ROpt::Mss(_) => 4,
            ROpt::WScale(_) => 3,
            ROpt::SackPerm => 2,
            ROpt::Sack(b) => 2 + 8 * b.len(),
            ROpt::Ts(_, _) => 10,
        }
    }

    pub fn kind(&self) -> u8 {
        match self {
            ROpt::Nop => KIND_NOP,
            ROpt::Mss(_) => KIND_MSS,
            ROpt::WScale(_) => KIND_WSCALE,
            ROpt::SackPerm => KIND_SACK_PERM,
            ROpt::Sack(_) => KIND_SACK,
            ROpt::Ts(_, _) => KIND_TS,
        }
    }

    /// index 0..9 of the "shape": nop mss ws sackp sack1 sack2 sack3 sack4 ts
    pub fn shape(&self) -> usize {
        match self {
            ROpt::Nop => 0,
            ROpt::Mss(_) => 1,
            ROpt::WScale(_) => 2,
            ROpt::SackPerm => 3,
            ROpt::Sack(b) => 3 + b.len().clamp(1, 4),
            ROpt::Ts(_, _) => 8,
        }
    }

    pub fn encode_into(&self, out: &mut Vec<u8>) {
        match self {
            ROpt::Nop => out.push(KIND_NOP),
            ROpt::Mss(v) => {
                out.push(KIND_MSS);
                out.push(4);
                out.push((*v >> 8) as u8);
                out.push((*v & 0xff) as u8);
            }
            ROpt::WScale(v) => {
                out.push(KIND_WSCALE);
                out.push(3);
                out.push(*v);
            }
            ROpt::SackPerm => {
                out.push(KIND_SACK_PERM);
                out.push(2);
            }
            ROpt::Sack(blocks) => {
                out.push(KIND_SACK);
                out.push((2 + 8 * blocks.len()) as u8);
                for (l, r) in blocks {
                    put32(out, *l);
                    put32(out, *r);
                }
            }
            ROpt::Ts(a, b) => {
                out.push(KIND_TS);
                out.push(10);
                put32(out, *a);
                put32(out, *b);
            }
        }
    }
}

pub const SHAPE_NAMES: [&str; 9] = ["nop", "mss", "wscale", "sack_perm", "sack1", "sack2", "sack3", "sack4", "ts"];
pub const SHAPE_CODES: [char; 9] = ['N', 'M', 'W', 'P', 'a', 'b', 'c', 'd', 'T'];
pub const SHAPE_SIZES: [usize; 9] = [1, 4, 3, 2, 10, 18, 26, 34, 10];

fn put32(out: &mut Vec<u8>, v: u32) {
    out.push((v >> 24) as u8);
    out.push(((v >> 16) & 0xff) as u8);
    out.push(((v >> 8) & 0xff) as u8);
    out.push((v & 0xff) as u8);
}

fn get32(b: &[u8], i: usize) -> u32 {
    ((b[i] as u32) << 24) | ((b[i + 1] as u32) << 16) | ((b[i + 2] as u32) << 8) | (b[i + 3] as u32)
}

/// the options one behind the other, no padding
pub fn encode(list: &[ROpt]) -> Vec<u8> {
    let mut out = Vec::with_capacity(48);
    for o in list {
        o.encode_into(&mut out);
    }
    out
}

/// next multiple of four
pub fn pad4(n: usize) -> usize {
    (n + 3) / 4 * 4
}

/// `bytes` followed by End of Option List octets (zero) up to the next 32 bit boundary
pub fn padded(bytes: &[u8]) -> Vec<u8> {
    let mut v = bytes.to_vec();
    while v.len() % 4 != 0 {
        v.push(KIND_END);
    }
    v
}

/// what is wrong with the first option that cannot be decoded
#[derive(Clone, Debug, PartialEq, Eq)]
pub enum RErr {
    /// the option of this kind occupies `need` octets, only `left` are left in the area
    Truncated { kind: u8, need: usize, left: usize },
    /// the length octet has a value that the kind does not allow
    BadLength { kind: u8, len: u8 },
    /// a kind outside of {0, 1, 2, 3, 4, 5, 8}
    UnknownKind(u8),
}

impl RErr {
    pub fn class(&self) -> &'static str {
        match self {
            RErr::Truncated { .. } => "truncated",
            RErr::BadLength { .. } => "bad_length",
            RErr::UnknownKind(_) => "unknown_kind",
        }
    }
}

#[derive(Clone, Debug, PartialEq, Eq)]
pub enum REnd {
    /// the options tile the whole area
    Exhausted,
    /// End of Option List octet at this offset
    EndOption { off: usize },
    /// the option starting at `off` is malformed or of an unknown kind. `primary` is what a
    /// reader finds that goes kind -> length octet -> length allowed for the kind -> length
    /// against the octets left; `admissible` are all truthful descriptions (several rules can
    /// be broken at once, e.g. a wrong length octet in an option that is also cut off).
    Fault {
        off: usize,
        primary: RErr,
        admissible: Vec<RErr>,
    },
}

#[derive(Clone, Debug, PartialEq, Eq)]
pub struct RParse {
    /// (offset, option)
    pub items: Vec<(usize, ROpt)>,
    pub end: REnd,
}

impl RParse {
    /// octets covered by the decoded options
    pub fn tiled(&self) -> usize {
        self.items.last().map(|(o, i)| o + i.wire_len()).unwrap_or(0)
    }
}

fn fixed_len(kind: u8) -> Option<usize> {
    match kind {
        KIND_MSS => Some(4),
        KIND_WSCALE => Some(3),
        KIND_SACK_PERM => Some(2),
        KIND_TS => Some(10),
        _ => None,
    }
}

pub fn parse(b: &[u8]) -> RParse {
    let n = b.len();
    let mut items: Vec<(usize, ROpt)> = Vec::new();
    let mut p = 0usize;
    loop {
        if p >= n {
            return RParse {
                items,
                end: REnd::Exhausted,
            };
        }
        let kind = b[p];
        let left = n - p;
        if kind == KIND_END {
            return RParse {
                items,
                end: REnd::EndOption { off: p },
            };
        }
        if kind == KIND_NOP {
            items.push((p, ROpt::Nop));
            p += 1;
            continue;
        }
        let fault = |primary: RErr, mut more: Vec<RErr>| -> REnd {
            more.insert(0, primary.clone());
            REnd::Fault {
                off: p,
                primary,
                admissible: more,
            }
        };
        if let Some(l) = fixed_len(kind) {
            if left < 2 {
                // not even the length octet: the option would occupy l octets (2 to get at
                // the length octet)
                let end = fault(
                    RErr::Truncated { kind, need: l, left },
                    vec![RErr::Truncated { kind, need: 2, left }],
                );
                return RParse { items, end };
            }
            let lb = b[p + 1];
            if lb as usize != l {
                let mut more = Vec::new();
                if left < l {
                    // wrong length octet and fewer octets than the kind needs
                    more.push(RErr::Truncated { kind, need: l, left });
                }
                if (lb as usize) > left {
                    more.push(RErr::Truncated {
                        kind,
                        need: lb as usize,
                        left,
                    });
                }
                let end = fault(RErr::BadLength { kind, len: lb }, more);
                return RParse { items, end };
            }
            if left < l {
                let end = fault(RErr::Truncated { kind, need: l, left }, vec![]);
                return RParse { items, end };
            }
            let item = match kind {
                KIND_MSS => ROpt::Mss(((b[p + 2] as u16) << 8) | b[p + 3] as u16),
                KIND_WSCALE => ROpt::WScale(b[p + 2]),
                KIND_SACK_PERM => ROpt::SackPerm,
                _ => ROpt::Ts(get32(b, p + 2), get32(b, p + 6)),
            };
            items.push((p, item));
            p += l;
            continue;
        }
        if kind == KIND_SACK {
            if left < 2 {
                let end = fault(
                    RErr::Truncated { kind, need: 2, left },
                    vec![RErr::Truncated { kind, need: 10, left }],
                );
                return RParse { items, end };
            }
            let lb = b[p + 1];
            let l = lb as usize;
            if !(l == 10 || l == 18 || l == 26 || l == 34) {
                let mut more = Vec::new();
                if left < 10 {
                    more.push(RErr::Truncated { kind, need: 10, left });
                }
                if l > left {
                    more.push(RErr::Truncated { kind, need: l, left });
                }
                let end = fault(RErr::BadLength { kind, len: lb }, more);
                return RParse { items, end };
            }
            if left < l {
                let end = fault(RErr::Truncated { kind, need: l, left }, vec![]);
                return RParse { items, end };
            }
            let blocks_n = (l - 2) / 8;
            let mut blocks = Vec::with_capacity(blocks_n);
            for i in 0..blocks_n {
                blocks.push((get32(b, p + 2 + 8 * i), get32(b, p + 6 + 8 * i)));
            }
            items.push((p, ROpt::Sack(blocks)));
            p += l;
            continue;
        }
        let end = fault(RErr::UnknownKind(kind), vec![]);
        return RParse { items, end };
    }
}

/// literal vectors (the usual SYN / data segment layouts of RFC 7323 appendix A and RFC 2018 §3)
/// and encoder / decoder agreement; returns the failures
pub fn selfcheck() -> Vec<String> {
    let mut bad = Vec::new();
    // SYN: MSS 1460, SACK permitted, TS (1, 0), NOP, window scale 7
    let syn: [u8; 20] = [
        0x02, 0x04, 0x05, 0xb4, 0x04, 0x02, 0x08, 0x0a, 0x00, 0x00, 0x00, 0x01, 0x00, 0x00, 0x00, 0x00, 0x01, 0x03, 0x03, 0x07,
    ];
    let want = vec![ROpt::Mss(1460), ROpt::SackPerm, ROpt::Ts(1, 0), ROpt::Nop, ROpt::WScale(7)];
    let got = parse(&syn);
    if got.items.iter().map(|x| x.1.clone()).collect::<Vec<_>>() != want || got.end != REnd::Exhausted {
        bad.push(format!("SYN vector decodes to {:?}", got));
    }
    if encode(&want) != syn.to_vec() {
        bad.push("SYN vector does not re-encode".to_string());
    }
    // RFC 7323 appendix A: NOP NOP TSopt
    let ts: [u8; 12] = [0x01, 0x01, 0x08, 0x0a, 0x11, 0x22, 0x33, 0x44, 0xaa, 0xbb, 0xcc, 0xdd];
    let got = parse(&ts);
    if got.items != vec![(0, ROpt::Nop), (1, ROpt::Nop), (2, ROpt::Ts(0x11223344, 0xaabbccdd))] || got.end != REnd::Exhausted {
        bad.push(format!("TS vector decodes to {:?}", got));
    }
    // RFC 2018 §3: NOP NOP SACK with two blocks, then end of list + padding
    let sack: [u8; 24] = [
        0x01, 0x01, 0x05, 0x12, 0, 0, 0x15, 0x7c, 0, 0, 0x17, 0x70, 0, 0, 0x19, 0x64, 0, 0, 0x1b, 0x58, 0x00, 0x00, 0x00, 0x00,
    ];
    let got = parse(&sack);
    if got.items != vec![(0, ROpt::Nop), (1, ROpt::Nop), (2, ROpt::Sack(vec![(5500, 6000), (6500, 7000)]))]
        || got.end != (REnd::EndOption { off: 20 })
    {
        bad.push(format!("SACK vector decodes to {:?}", got));
    }
    // faults
    let cases: [(&[u8], RErr); 6] = [
        (&[0x02, 0x04, 0x05], RErr::Truncated { kind: 2, need: 4, left: 3 }),
        (&[0x01, 0x03, 0x04, 0x00], RErr::BadLength { kind: 3, len: 4 }),
        (&[0x05, 0x0b, 0, 0, 0, 0, 0, 0, 0, 0, 0, 0], RErr::BadLength { kind: 5, len: 11 }),
        (&[0x05, 0x22, 0, 0, 0, 0, 0, 0, 0, 0], RErr::Truncated { kind: 5, need: 34, left: 10 }),
        (&[0x1e, 0x04, 0, 0], RErr::UnknownKind(30)),
        (&[0x08], RErr::Truncated { kind: 8, need: 10, left: 1 }),
    ];
    for (bytes, want) in cases.iter() {
        match parse(bytes).end {
            REnd::Fault { primary, .. } if primary == *want => {}
            other => bad.push(format!("fault vector {:02x?} gives {:?}, expected {:?}", bytes, other, want)),
        }
    }
    if pad4(0) != 0 || pad4(1) != 4 || pad4(4) != 4 || pad4(37) != 40 || pad4(41) != 44 {
        bad.push("pad4".to_string());
    }
    bad
}
