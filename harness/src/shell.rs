//! Execution shell: catch_unwind with a recording panic hook, and the progress word that lets the
//! supervisor attribute a fatal signal (guard page SIGSEGV, ub_checks SIGABRT/SIGILL, ASan abort)
//! to the case and entry point that was running.

use std::cell::RefCell;
use std::panic::{catch_unwind, AssertUnwindSafe};
use std::sync::atomic::{AtomicPtr, AtomicU64, Ordering};

thread_local! {
    static LAST_PANIC: RefCell<Option<String>> = const { RefCell::new(None) };
}

pub fn install_panic_hook() {
    std::panic::set_hook(Box::new(|info| {
        let loc = info
            .location()
            .map(|l| format!("{}:{}", l.file(), l.line()))
            .unwrap_or_else(|| "?".to_string());
        let msg = if let Some(s) = info.payload().downcast_ref::<&str>() {
            s.to_string()
        } else if let Some(s) = info.payload().downcast_ref::<String>() {
            s.clone()
        } else {
            "<non-string panic>".to_string()
        };
        if msg.contains("unsafe precondition") || msg.contains("in a function that cannot unwind") {
            // unsafe-precondition check of core (debug assertions): the process aborts after the
            // hook returns; leave the evidence on stderr for the supervisor
            eprintln!("FATAL non-unwinding panic: {} @ {}", msg, loc);
            let bt = std::backtrace::Backtrace::force_capture().to_string();
            for l in bt.lines() {
                if l.contains("etherparse/src/") || l.contains("epverif") {
                    eprintln!("  {}", l.trim());
                }
            }
        }
        LAST_PANIC.with(|p| *p.borrow_mut() = Some(format!("{} @ {}", msg, loc)));
    }));
}

#[derive(Debug, Clone)]
pub struct Panicked(pub String);

impl Panicked {
    /// location part "file:line" with the message stripped (stable signature)
    pub fn location(&self) -> String {
        match self.0.rfind(" @ ") {
            Some(i) => {
                let l = &self.0[i + 3..];
                // strip absolute prefixes so that signatures are stable
                match l.find("etherparse/src/") {
                    Some(j) => l[j..].to_string(),
                    None => l.to_string(),
                }
            }
            None => "?".to_string(),
        }
    }
}

/// run `f`, turning a panic into `Err(Panicked(message @ file:line))`
pub fn guarded<R>(f: impl FnOnce() -> R) -> Result<R, Panicked> {
    match catch_unwind(AssertUnwindSafe(f)) {
        Ok(r) => Ok(r),
        Err(_) => {
            let m = LAST_PANIC
                .with(|p| p.borrow_mut().take())
                .unwrap_or_else(|| "<no message>".to_string());
            Err(Panicked(m))
        }
    }
}

// ---------------------------------------------------------------------------------------------
// progress word (shared file mapping: [magic, engine hash, case idx, entry id, calls])
// ---------------------------------------------------------------------------------------------

static PROGRESS: AtomicPtr<u64> = AtomicPtr::new(std::ptr::null_mut());
static LOCAL: [AtomicU64; 8] = [
    AtomicU64::new(0),
    AtomicU64::new(0),
    AtomicU64::new(0),
    AtomicU64::new(0),
    AtomicU64::new(0),
    AtomicU64::new(0),
    AtomicU64::new(0),
    AtomicU64::new(0),
];

#[cfg(not(miri))]
pub fn open_progress(path: &str) -> bool {
    use std::os::unix::io::AsRawFd;
    let f = match std::fs::OpenOptions::new()
        .read(true)
        .write(true)
        .create(true)
        .truncate(true)
        .open(path)
    {
        Ok(f) => f,
        Err(_) => return false,
    };
    if f.set_len(64).is_err() {
        return false;
    }
    let p = unsafe {
        crate::arena::mmap(
            std::ptr::null_mut(),
            4096,
            crate::arena::PROT_READ | crate::arena::PROT_WRITE,
            crate::arena::MAP_SHARED,
            f.as_raw_fd(),
            0,
        )
    };
    if p as isize == -1 {
        return false;
    }
    PROGRESS.store(p as *mut u64, Ordering::SeqCst);
    std::mem::forget(f);
    true
}

#[cfg(miri)]
pub fn open_progress(_path: &str) -> bool {
    false
}

#[inline]
fn word(i: usize) -> &'static AtomicU64 {
    let p = PROGRESS.load(Ordering::Relaxed);
    if p.is_null() {
        &LOCAL[i]
    } else {
        unsafe { &*(p.add(i) as *const AtomicU64) }
    }
}

#[inline]
pub fn progress_case(engine_hash: u64, case: u64) {
    word(0).store(0x4550_5645_5249_4621, Ordering::Relaxed);
    word(1).store(engine_hash, Ordering::Relaxed);
    word(2).store(case, Ordering::Relaxed);
    word(3).store(0, Ordering::Relaxed);
}

/// entry point id about to be called (see observe::ENTRY_NAMES)
#[inline]
pub fn progress_entry(entry: u64) {
    word(3).store(entry, Ordering::Relaxed);
    word(4).fetch_add(1, Ordering::Relaxed);
}

/// sub-step within an entry (accessor group), to localise crashes
#[inline]
pub fn progress_step(step: u64) {
    word(5).store(step, Ordering::Relaxed);
}
