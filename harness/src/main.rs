//! epverif — worker binary of the etherparse runtime-monitoring harness.
//!
//! `epverif run --prop C03 --tier quick --seed 1 --shard 0 --nshards 16 --out FILE
//!              [--progress FILE] [--only ENGINE:CASE] [--scale F] [--flavour NAME]`
//!
//! Every case is addressed by (seed, engine, index); a shard processes the indices congruent to
//! its number. Results are written as JSON lines (report.rs) and merged by the python driver.

#![allow(clippy::all)]
#![allow(dead_code)]

use epverif::{gen, monitors, prng, report, shell};
use epverif::monitors::{Monitor, Tier};
use epverif::prng::Prng;
use epverif::report::Report;

struct Args {
    prop: String,
    tier: Tier,
    seed: u64,
    shard: u64,
    nshards: u64,
    out: Option<String>,
    progress: Option<String>,
    only: Option<(String, u64)>,
    resume: Option<(String, u64)>,
    scale: f64,
    flavour: String,
    list: bool,
}

fn parse_args() -> Args {
    let mut a = Args {
        prop: String::new(),
        tier: Tier::Quick,
        seed: 1,
        shard: 0,
        nshards: 1,
        out: None,
        progress: None,
        only: None,
        resume: None,
        scale: 1.0,
        flavour: "chk".to_string(),
        list: false,
    };
    let v: Vec<String> = std::env::args().collect();
    let mut i = 1;
    while i < v.len() {
        let k = v[i].as_str();
        let mut val = || {
            i += 1;
            v.get(i).cloned().unwrap_or_default()
        };
        match k {
            "run" => {}
            "list" => a.list = true,
            "--prop" => a.prop = val(),
            "--tier" => {
                a.tier = if val() == "thorough" {
                    Tier::Thorough
                } else {
                    Tier::Quick
                }
            }
            "--seed" => a.seed = val().parse().unwrap_or(1),
            "--shard" => a.shard = val().parse().unwrap_or(0),
            "--nshards" => a.nshards = val().parse().unwrap_or(1),
            "--out" => a.out = Some(val()),
            "--progress" => a.progress = Some(val()),
            "--scale" => a.scale = val().parse().unwrap_or(1.0),
            "--flavour" => a.flavour = val(),
            "--resume" => {
                let s = val();
                if let Some((e, c)) = s.rsplit_once(':') {
                    a.resume = Some((e.to_string(), c.parse().unwrap_or(0)));
                }
            }
            "--only" => {
                let s = val();
                if let Some((e, c)) = s.rsplit_once(':') {
                    a.only = Some((e.to_string(), c.parse().unwrap_or(0)));
                }
            }
            _ => {}
        }
        i += 1;
    }
    a
}

/// `epverif dump-corpus <dir> <n> [seed]`: writes generated cases as fuzzer seed files
fn dump_corpus(dir: &str, n: u64, seed: u64) {
    use epverif::refmodel::pkt::Start;
    std::fs::create_dir_all(dir).unwrap();
    for i in 0..n {
        let mut rng = Prng::for_case(seed, "corpus", i);
        let o = if i % 3 == 0 { gen::GenOpts::clean() } else { gen::GenOpts::hostile() };
        let c = gen::gen_case(&mut rng, &o);
        if c.bytes.len() > 300 {
            continue;
        }
        let b0: u8 = match c.start {
            Start::Eth => 0,
            Start::Sll => 2,
            Start::Ip => 3,
            Start::EtherType(0x0800) => 5,
            Start::EtherType(0x86dd) => 6,
            Start::EtherType(0x0806) => 7,
            Start::EtherType(0x8100) => 8,
            Start::EtherType(0x88e5) => 9,
            Start::EtherType(0x88a8) => 10,
            Start::EtherType(0x9100) => 11,
            _ => continue,
        };
        let mut v = vec![b0];
        v.extend_from_slice(&c.bytes);
        std::fs::write(format!("{}/seed_{:05}", dir, i), v).unwrap();
    }
}

fn main() {
    let argv: Vec<String> = std::env::args().collect();
    if argv.len() >= 4 && argv[1] == "dump-corpus" {
        dump_corpus(&argv[2], argv[3].parse().unwrap_or(1000), argv.get(4).and_then(|s| s.parse().ok()).unwrap_or(1));
        return;
    }
    if argv.len() >= 3 && argv[1] == "judge-file" {
        // `epverif judge-file <file>…`: run the fuzz judges on recorded inputs (corpus / artifacts)
        shell::install_panic_hook();
        for f in &argv[2..] {
            let data = std::fs::read(f).unwrap_or_default();
            let t = std::time::Instant::now();
            let v = epverif::fuzz::judge(&data);
            println!("{} ({} bytes, {:?}): {} violation(s)", f, data.len(), t.elapsed(), v.len());
            for (s, d) in v {
                println!("  {}: {}", s, d);
            }
        }
        return;
    }
    let args = parse_args();
    shell::install_panic_hook();
    if let Some(p) = &args.progress {
        shell::open_progress(p);
    }
    std::env::set_var("EPVERIF_TIER", if args.tier == Tier::Thorough { "thorough" } else { "quick" });
    if matches!(args.flavour.as_str(), "miri" | "vg") {
        gen::set_small(true);
    }
    let mut mon: Box<dyn Monitor> = match monitors::make(&args.prop, &args.flavour) {
        Some(m) => m,
        None => {
            eprintln!("unknown property {}", args.prop);
            std::process::exit(2);
        }
    };
    let mut rep = Report::new(&args.prop, &args.flavour);
    let engines = mon.engines(args.tier);
    let mut resume = args.resume.clone();
    if args.list {
        for (e, n) in &engines {
            println!("{} {} {:x}", e, n, prng::hash_str(e));
        }
        return;
    }
    for (engine, count) in &engines {
        let count = if args.scale == 1.0 {
            *count
        } else {
            ((*count as f64) * args.scale).ceil().max(1.0) as u64
        };
        let eh = prng::hash_str(engine);
        rep.cur_engine = engine.to_string();
        if let Some((oe, oc)) = &args.only {
            if oe != engine {
                continue;
            }
            rep.cur_case = *oc;
            shell::progress_case(eh, *oc);
            let mut rng = Prng::for_case(args.seed, engine, *oc);
            mon.run_case(engine, *oc, &mut rng, &mut rep);
            continue;
        }
        let mut idx = args.shard;
        if let Some((re, rc)) = &resume {
            if re != engine {
                continue;
            }
            // continue behind the case that killed the previous process
            idx = rc + args.nshards;
            resume = None;
        }
        while idx < count {
            rep.cur_case = idx;
            shell::progress_case(eh, idx);
            let mut rng = Prng::for_case(args.seed, engine, idx);
            mon.run_case(engine, idx, &mut rng, &mut rep);
            idx += args.nshards;
        }
    }
    mon.finish(&mut rep);
    let text = rep.to_jsonl();
    match &args.out {
        Some(p) => {
            if let Err(e) = std::fs::write(p, text) {
                eprintln!("cannot write {}: {}", p, e);
                std::process::exit(2);
            }
        }
        None => print!("{}", text),
    }
}
