//! PacketBuilder driver: a plain-data description of a builder configuration and a function that
//! runs it against one of the four outputs (`size`, `write`, `write_to_vec`, `write_to_slice`).
//! Builder steps consume themselves, so every output re-creates the chain from the description.

use crate::prng::Prng;
use etherparse::*;
use std::io::Write;

#[derive(Clone, Debug)]
pub enum BLink {
    None,
    Eth { src: [u8; 6], dst: [u8; 6] },
    Sll { ptype: u16, alen: u16, addr: [u8; 8] },
}

#[derive(Clone, Debug)]
pub enum BVlan {
    None,
    Single(u16),
    Double(u16, u16),
    /// through `.vlan(VlanHeader)` with arbitrary pcp/dei
    SingleHeader { pcp: u8, dei: bool, vid: u16 },
    DoubleHeader { outer: (u8, bool, u16), inner: (u8, bool, u16) },
}

#[derive(Clone, Debug)]
pub enum BNet {
    Ipv4 { src: [u8; 4], dst: [u8; 4], ttl: u8 },
    Ipv6 { src: [u8; 16], dst: [u8; 16], hop: u8 },
    Ip(IpHeaders),
    Arp(ArpPacket),
}

#[derive(Clone, Debug)]
pub struct BTcp {
    pub sp: u16,
    pub dp: u16,
    pub seq: u32,
    pub win: u16,
    pub ns: bool,
    pub fin: bool,
    pub syn: bool,
    pub rst: bool,
    pub psh: bool,
    pub ack: Option<u32>,
    pub urg: Option<u16>,
    pub ece: bool,
    pub cwr: bool,
    /// options set by an earlier call: a later `.options()` / `.options_raw()` call must replace them
    pub pre_options: Option<Vec<TcpOptionElement>>,
    pub options: Option<Vec<TcpOptionElement>>,
    pub options_raw: Option<Vec<u8>>,
}

#[derive(Clone, Debug)]
pub enum BTr {
    Raw(u8),
    Udp { sp: u16, dp: u16 },
    Tcp(BTcp),
    TcpHeader(TcpHeader),
    Icmp4(Icmpv4Type),
    Icmp4Raw { ty: u8, code: u8, b58: [u8; 4] },
    Icmp4EchoRequest { id: u16, seq: u16 },
    Icmp4EchoReply { id: u16, seq: u16 },
    Icmp6(Icmpv6Type),
    Icmp6Raw { ty: u8, code: u8, b58: [u8; 4] },
    Icmp6EchoRequest { id: u16, seq: u16 },
    Icmp6EchoReply { id: u16, seq: u16 },
    /// ARP has no transport
    None,
}

#[derive(Clone, Debug)]
pub struct BConf {
    pub link: BLink,
    pub vlan: BVlan,
    pub net: BNet,
    pub tr: BTr,
}

pub enum Out<'a> {
    Size(usize),
    Writer(&'a mut dyn Write),
    Vec(&'a mut Vec<u8>),
    Slice(&'a mut [u8]),
}

#[derive(Debug, Clone, PartialEq, Eq)]
pub enum BResult {
    Size(usize),
    Ok,
    /// bytes written to the slice
    OkSlice(usize),
    /// error class + text
    Err(String, String),
    /// TCP options rejected while configuring
    ConfigErr(String),
}

impl BResult {
    pub fn class(&self) -> String {
        match self {
            BResult::Size(_) => "size".into(),
            BResult::Ok | BResult::OkSlice(_) => "ok".into(),
            BResult::Err(c, _) => c.clone(),
            BResult::ConfigErr(_) => "config".into(),
        }
    }
}

fn w_err(e: err::packet::BuildWriteError) -> BResult {
    use err::packet::BuildWriteError::*;
    let class = match &e {
        Io(_) => "Io",
        PayloadLen(_) => "PayloadLen",
        Ipv4Exts(_) => "Ipv4Exts",
        Ipv6Exts(_) => "Ipv6Exts",
        Icmpv6InIpv4 => "Icmpv6InIpv4",
        ArpHeaderNotMatch => "ArpHeaderNotMatch",
    };
    BResult::Err(class.into(), format!("{:?}", e))
}
fn v_err(e: err::packet::BuildVecWriteError) -> BResult {
    use err::packet::BuildVecWriteError::*;
    let class = match &e {
        PayloadLen(_) => "PayloadLen",
        Ipv4Exts(_) => "Ipv4Exts",
        Ipv6Exts(_) => "Ipv6Exts",
        Icmpv6InIpv4 => "Icmpv6InIpv4",
        ArpHeaderNotMatch => "ArpHeaderNotMatch",
    };
    BResult::Err(class.into(), format!("{:?}", e))
}
fn s_err(e: err::packet::BuildSliceWriteError) -> BResult {
    use err::packet::BuildSliceWriteError::*;
    let class = match &e {
        Space(_) => "Space",
        PayloadLen(_) => "PayloadLen",
        Ipv4Exts(_) => "Ipv4Exts",
        Ipv6Exts(_) => "Ipv6Exts",
        Icmpv6InIpv4 => "Icmpv6InIpv4",
        ArpHeaderNotMatch => "ArpHeaderNotMatch",
    };
    BResult::Err(class.into(), format!("{:?}", e))
}

macro_rules! finish {
    ($step:expr, $out:expr, $payload:expr) => {{
        let step = $step;
        match $out {
            Out::Size(n) => BResult::Size(step.size(n)),
            Out::Writer(mut w) => match step.write(&mut w, $payload) {
                Ok(()) => BResult::Ok,
                Err(e) => w_err(e),
            },
            Out::Vec(v) => match step.write_to_vec(v, $payload) {
                Ok(()) => BResult::Ok,
                Err(e) => v_err(e),
            },
            Out::Slice(s) => match step.write_to_slice(s, $payload) {
                Ok(n) => BResult::OkSlice(n),
                Err(e) => s_err(e),
            },
        }
    }};
}

fn vid(v: u16) -> VlanId {
    VlanId::try_new(v & 0x0fff).unwrap()
}

fn vlan_header(v: &BVlan) -> Option<VlanHeader> {
    let single = |(pcp, dei, id): (u8, bool, u16)| SingleVlanHeader {
        pcp: VlanPcp::try_new(pcp & 7).unwrap(),
        drop_eligible_indicator: dei,
        vlan_id: vid(id),
        ether_type: EtherType(0),
    };
    match v {
        BVlan::SingleHeader { pcp, dei, vid } => Some(VlanHeader::Single(single((*pcp, *dei, *vid)))),
        BVlan::DoubleHeader { outer, inner } => Some(VlanHeader::Double(DoubleVlanHeader {
            outer: single(*outer),
            inner: single(*inner),
        })),
        _ => None,
    }
}

fn transport(step: PacketBuilderStep<IpHeaders>, tr: &BTr, out: Out, payload: &[u8]) -> BResult {
    match tr {
        BTr::Raw(n) => {
            let n = IpNumber(*n);
            match out {
                Out::Size(s) => BResult::Size(step.size(s)),
                Out::Writer(mut w) => match step.write(&mut w, n, payload) {
                    Ok(()) => BResult::Ok,
                    Err(e) => w_err(e),
                },
                Out::Vec(v) => match step.write_to_vec(v, n, payload) {
                    Ok(()) => BResult::Ok,
                    Err(e) => v_err(e),
                },
                Out::Slice(s) => match step.write_to_slice(s, n, payload) {
                    Ok(n) => BResult::OkSlice(n),
                    Err(e) => s_err(e),
                },
            }
        }
        BTr::Udp { sp, dp } => finish!(step.udp(*sp, *dp), out, payload),
        BTr::Tcp(t) => {
            let mut s = step.tcp(t.sp, t.dp, t.seq, t.win);
            if t.ns {
                s = s.ns();
            }
            if t.fin {
                s = s.fin();
            }
            if t.syn {
                s = s.syn();
            }
            if t.rst {
                s = s.rst();
            }
            if t.psh {
                s = s.psh();
            }
            if let Some(a) = t.ack {
                s = s.ack(a);
            }
            if let Some(u) = t.urg {
                s = s.urg(u);
            }
            if t.ece {
                s = s.ece();
            }
            if t.cwr {
                s = s.cwr();
            }
            if let Some(o) = &t.pre_options {
                s = match s.options(o) {
                    Ok(s) => s,
                    Err(e) => return BResult::ConfigErr(format!("{:?}", e)),
                };
            }
            if let Some(o) = &t.options {
                s = match s.options(o) {
                    Ok(s) => s,
                    Err(e) => return BResult::ConfigErr(format!("{:?}", e)),
                };
            }
            if let Some(o) = &t.options_raw {
                s = match s.options_raw(o) {
                    Ok(s) => s,
                    Err(e) => return BResult::ConfigErr(format!("{:?}", e)),
                };
            }
            finish!(s, out, payload)
        }
        BTr::TcpHeader(h) => finish!(step.tcp_header(h.clone()), out, payload),
        BTr::Icmp4(t) => finish!(step.icmpv4(t.clone()), out, payload),
        BTr::Icmp4Raw { ty, code, b58 } => finish!(step.icmpv4_raw(*ty, *code, *b58), out, payload),
        BTr::Icmp4EchoRequest { id, seq } => finish!(step.icmpv4_echo_request(*id, *seq), out, payload),
        BTr::Icmp4EchoReply { id, seq } => finish!(step.icmpv4_echo_reply(*id, *seq), out, payload),
        BTr::Icmp6(t) => finish!(step.icmpv6(t.clone()), out, payload),
        BTr::Icmp6Raw { ty, code, b58 } => finish!(step.icmpv6_raw(*ty, *code, *b58), out, payload),
        BTr::Icmp6EchoRequest { id, seq } => finish!(step.icmpv6_echo_request(*id, *seq), out, payload),
        BTr::Icmp6EchoReply { id, seq } => finish!(step.icmpv6_echo_reply(*id, *seq), out, payload),
        BTr::None => BResult::ConfigErr("no transport".into()),
    }
}

fn arp_finish(step: PacketBuilderStep<ArpPacket>, out: Out) -> BResult {
    match out {
        Out::Size(_) => BResult::Size(step.size()),
        Out::Writer(mut w) => match step.write(&mut w) {
            Ok(()) => BResult::Ok,
            Err(e) => w_err(e),
        },
        Out::Vec(v) => match step.write_to_vec(v) {
            Ok(()) => BResult::Ok,
            Err(e) => v_err(e),
        },
        Out::Slice(s) => match step.write_to_slice(s) {
            Ok(n) => BResult::OkSlice(n),
            Err(e) => s_err(e),
        },
    }
}

/// run configuration `c` against one output
pub fn run(c: &BConf, out: Out, payload: &[u8]) -> BResult {
    macro_rules! net {
        ($s:expr) => {{
            let s = $s;
            match &c.net {
                BNet::Ipv4 { src, dst, ttl } => transport(s.ipv4(*src, *dst, *ttl), &c.tr, out, payload),
                BNet::Ipv6 { src, dst, hop } => transport(s.ipv6(*src, *dst, *hop), &c.tr, out, payload),
                BNet::Ip(h) => transport(s.ip(h.clone()), &c.tr, out, payload),
                BNet::Arp(a) => arp_finish(s.arp(a.clone()), out),
            }
        }};
    }
    match &c.link {
        BLink::None => match &c.net {
            BNet::Ipv4 { src, dst, ttl } => transport(PacketBuilder::ipv4(*src, *dst, *ttl), &c.tr, out, payload),
            BNet::Ipv6 { src, dst, hop } => transport(PacketBuilder::ipv6(*src, *dst, *hop), &c.tr, out, payload),
            BNet::Ip(h) => transport(PacketBuilder::ip(h.clone()), &c.tr, out, payload),
            BNet::Arp(_) => BResult::ConfigErr("arp needs a link layer".into()),
        },
        BLink::Eth { src, dst } => {
            let e = PacketBuilder::ethernet2(*src, *dst);
            match &c.vlan {
                BVlan::None => net!(e),
                BVlan::Single(v) => net!(e.single_vlan(vid(*v))),
                BVlan::Double(o, i) => net!(e.double_vlan(vid(*o), vid(*i))),
                other => net!(e.vlan(vlan_header(other).unwrap())),
            }
        }
        BLink::Sll { ptype, alen, addr } => {
            let s = PacketBuilder::linux_sll(LinuxSllPacketType::try_from(*ptype & 7).unwrap(), *alen, *addr);
            net!(s)
        }
    }
}

// ------------------------------------------------------------------------------------------------
// random configurations
// ------------------------------------------------------------------------------------------------

fn rand_raw_ext(rng: &mut Prng) -> Ipv6RawExtHeader {
    let units = rng.below(3) as usize;
    Ipv6RawExtHeader::new_raw(IpNumber(0), &rng.bytes(6 + 8 * units)).unwrap()
}

pub fn rand_auth(rng: &mut Prng) -> IpAuthHeader {
    let w = rng.below(5) as usize;
    IpAuthHeader::new(IpNumber(0), rng.u32_corner(), rng.u32_corner(), &rng.bytes(4 * w)).unwrap()
}

pub fn rand_ipv6_exts(rng: &mut Prng) -> Ipv6Extensions {
    let route = rng.chance(1, 3);
    Ipv6Extensions {
        hop_by_hop_options: if rng.chance(1, 3) { Some(rand_raw_ext(rng)) } else { None },
        destination_options: if rng.chance(1, 3) { Some(rand_raw_ext(rng)) } else { None },
        routing: if route {
            Some(Ipv6RoutingExtensions {
                routing: rand_raw_ext(rng),
                final_destination_options: if rng.chance(1, 2) { Some(rand_raw_ext(rng)) } else { None },
            })
        } else {
            None
        },
        // a fragment header that does not fragment (offset 0, no more fragments), so that strict
        // parsing still decodes the transport layer
        fragment: if rng.chance(1, 4) {
            Some(Ipv6FragmentHeader::new(IpNumber(0), IpFragOffset::ZERO, false, rng.u32_corner()))
        } else {
            None
        },
        auth: if rng.chance(1, 3) { Some(rand_auth(rng)) } else { None },
    }
}

pub fn rand_ip_headers(rng: &mut Prng) -> IpHeaders {
    if rng.bool() {
        let mut h = Ipv4Header::new(0, rng.u8_corner(), IpNumber(0), rng.bytes(4).try_into().unwrap(), rng.bytes(4).try_into().unwrap()).unwrap();
        h.identification = rng.u16_corner();
        h.dont_fragment = rng.bool();
        h.dscp = IpDscp::try_new(rng.u8() & 0x3f).unwrap();
        h.ecn = IpEcn::try_new(rng.u8() & 3).unwrap();
        if rng.chance(1, 3) {
            let w = rng.range(1, 10) as usize;
            h.set_options(&rng.bytes(4 * w)).unwrap();
        }
        IpHeaders::Ipv4(
            h,
            Ipv4Extensions {
                auth: if rng.chance(1, 2) { Some(rand_auth(rng)) } else { None },
            },
        )
    } else {
        let h = Ipv6Header {
            traffic_class: rng.u8_corner(),
            flow_label: Ipv6FlowLabel::try_new(rng.u32() & 0xfffff).unwrap(),
            payload_length: 0,
            next_header: IpNumber(0),
            hop_limit: rng.u8_corner(),
            source: rng.bytes(16).try_into().unwrap(),
            destination: rng.bytes(16).try_into().unwrap(),
        };
        IpHeaders::Ipv6(h, rand_ipv6_exts(rng))
    }
}

pub fn rand_tcp_elements(rng: &mut Prng) -> Vec<TcpOptionElement> {
    let mut v = Vec::new();
    let n = rng.below(4);
    for _ in 0..n {
        v.push(match rng.below(6) {
            0 => TcpOptionElement::Noop,
            1 => TcpOptionElement::MaximumSegmentSize(rng.u16_corner()),
            2 => TcpOptionElement::WindowScale(rng.u8_corner()),
            3 => TcpOptionElement::SelectiveAcknowledgementPermitted,
            4 => TcpOptionElement::Timestamp(rng.u32_corner(), rng.u32_corner()),
            _ => {
                // every subset of the three optional blocks, holes included (the encoder packs them)
                let mut rest: [Option<(u32, u32)>; 3] = [None; 3];
                let mask = rng.below(8);
                for (i, r) in rest.iter_mut().enumerate() {
                    if mask & (1 << i) != 0 {
                        *r = Some((rng.u32_corner(), rng.u32_corner()));
                    }
                }
                TcpOptionElement::SelectiveAcknowledgement((rng.u32(), rng.u32()), rest)
            }
        });
    }
    v
}

pub fn rand_conf(rng: &mut Prng) -> BConf {
    let link = match rng.below(5) {
        0 | 1 => BLink::Eth {
            src: rng.bytes(6).try_into().unwrap(),
            dst: rng.bytes(6).try_into().unwrap(),
        },
        2 => BLink::Sll {
            ptype: rng.below(8) as u16,
            alen: rng.u16_corner(),
            addr: rng.bytes(8).try_into().unwrap(),
        },
        _ => BLink::None,
    };
    let vlan = if matches!(link, BLink::Eth { .. }) {
        match rng.below(8) {
            0 | 1 => BVlan::Single(rng.u16()),
            2 => BVlan::Double(rng.u16(), rng.u16()),
            3 => BVlan::SingleHeader {
                pcp: rng.u8(),
                dei: rng.bool(),
                vid: rng.u16(),
            },
            4 => BVlan::DoubleHeader {
                outer: (rng.u8(), rng.bool(), rng.u16()),
                inner: (rng.u8(), rng.bool(), rng.u16()),
            },
            _ => BVlan::None,
        }
    } else {
        BVlan::None
    };
    let arp_ok = !matches!(link, BLink::None);
    let net = match rng.below(8) {
        0 if arp_ok => {
            let (hl, pl) = if rng.chance(2, 3) { (6, 4) } else { (rng.below(20) as usize, rng.below(20) as usize) };
            BNet::Arp(
                ArpPacket::new(
                    ArpHardwareId(rng.u16_corner()),
                    EtherType(rng.u16_corner()),
                    ArpOperation(rng.u16_corner()),
                    &rng.bytes(hl),
                    &rng.bytes(pl),
                    &rng.bytes(hl),
                    &rng.bytes(pl),
                )
                .unwrap(),
            )
        }
        1 | 2 => BNet::Ipv4 {
            src: rng.bytes(4).try_into().unwrap(),
            dst: rng.bytes(4).try_into().unwrap(),
            ttl: rng.u8_corner(),
        },
        3 | 4 => BNet::Ipv6 {
            src: rng.bytes(16).try_into().unwrap(),
            dst: rng.bytes(16).try_into().unwrap(),
            hop: rng.u8_corner(),
        },
        _ => BNet::Ip(rand_ip_headers(rng)),
    };
    let tr = if matches!(net, BNet::Arp(_)) {
        BTr::None
    } else {
        match rng.below(14) {
            0 | 1 => BTr::Udp {
                sp: rng.u16_corner(),
                dp: rng.u16_corner(),
            },
            2 | 3 => {
                let mut t = BTcp {
                    sp: rng.u16_corner(),
                    dp: rng.u16_corner(),
                    seq: rng.u32_corner(),
                    win: rng.u16_corner(),
                    ns: rng.chance(1, 4),
                    fin: rng.chance(1, 4),
                    syn: rng.chance(1, 4),
                    rst: rng.chance(1, 4),
                    psh: rng.chance(1, 4),
                    ack: if rng.chance(1, 3) { Some(rng.u32_corner()) } else { None },
                    urg: if rng.chance(1, 4) { Some(rng.u16_corner()) } else { None },
                    ece: rng.chance(1, 4),
                    cwr: rng.chance(1, 4),
                    pre_options: None,
                    options: None,
                    options_raw: None,
                };
                if rng.chance(1, 4) {
                    // an earlier call with other options; what is configured last is what counts
                    let mut pre = rand_tcp_elements(rng);
                    if pre.is_empty() {
                        pre.push(TcpOptionElement::MaximumSegmentSize(rng.u16_corner()));
                    }
                    t.pre_options = Some(pre);
                    if rng.chance(1, 3) {
                        t.options = Some(Vec::new());
                    }
                }
                match rng.below(4) {
                    0 => t.options = Some(rand_tcp_elements(rng)),
                    1 => {
                        let n = rng.below(41) as usize;
                        t.options_raw = Some(crate::gen::headers::tcp_option_area(rng, n));
                    }
                    _ => {}
                }
                BTr::Tcp(t)
            }
            4 => {
                let mut h = TcpHeader::new(rng.u16(), rng.u16(), rng.u32(), rng.u16());
                h.ack = rng.bool();
                h.acknowledgment_number = rng.u32();
                h.urg = rng.bool();
                h.urgent_pointer = rng.u16();
                BTr::TcpHeader(h)
            }
            5 => BTr::Icmp4EchoRequest {
                id: rng.u16_corner(),
                seq: rng.u16_corner(),
            },
            6 => BTr::Icmp4EchoReply {
                id: rng.u16_corner(),
                seq: rng.u16_corner(),
            },
            7 => BTr::Icmp4Raw {
                ty: rng.u8(),
                code: rng.u8(),
                b58: rng.bytes(4).try_into().unwrap(),
            },
            8 => BTr::Icmp6EchoRequest {
                id: rng.u16_corner(),
                seq: rng.u16_corner(),
            },
            9 => BTr::Icmp6EchoReply {
                id: rng.u16_corner(),
                seq: rng.u16_corner(),
            },
            10 => BTr::Icmp6Raw {
                ty: rng.u8(),
                code: rng.u8(),
                b58: rng.bytes(4).try_into().unwrap(),
            },
            11 => BTr::Icmp4(match rng.below(4) {
                0 => Icmpv4Type::DestinationUnreachable(icmpv4::DestUnreachableHeader::Network),
                1 => Icmpv4Type::TimeExceeded(icmpv4::TimeExceededCode::TtlExceededInTransit),
                2 => Icmpv4Type::TimestampRequest(icmpv4::TimestampMessage {
                    id: rng.u16(),
                    seq: rng.u16(),
                    originate_timestamp: rng.u32(),
                    receive_timestamp: rng.u32(),
                    transmit_timestamp: rng.u32(),
                }),
                _ => Icmpv4Type::ParameterProblem(icmpv4::ParameterProblemHeader::PointerIndicatesError(rng.u8())),
            }),
            12 => BTr::Icmp6(match rng.below(4) {
                0 => Icmpv6Type::DestinationUnreachable(icmpv6::DestUnreachableCode::NoRoute),
                1 => Icmpv6Type::PacketTooBig { mtu: rng.u32() },
                2 => Icmpv6Type::TimeExceeded(icmpv6::TimeExceededCode::HopLimitExceeded),
                _ => Icmpv6Type::ParameterProblem(icmpv6::ParameterProblemHeader {
                    code: icmpv6::ParameterProblemCode::ErroneousHeaderField,
                    pointer: rng.u32(),
                }),
            }),
            _ => BTr::Raw(*rng.pick(&[253u8, 254, 47, 132, 89, 4, 41])),
        }
    };
    BConf { link, vlan, net, tr }
}
