//! Full accessor closure: calls every public accessor, conversion, iterator and formatter that
//! is reachable from a decode result, checking containment of every returned slice and feeding
//! every rendering into a hash (position independence, C01) — and giving the memory/UB
//! instruments something to watch (C01/C02).

use super::*;
use etherparse::icmpv6::*;
use std::fmt::Write as _;

/// FNV style incremental hash over everything rendered
pub struct Sink {
    pub h: u64,
    pub bytes: u64,
    buf: String,
}

impl Sink {
    pub fn new() -> Sink {
        Sink {
            h: 0xcbf2_9ce4_8422_2325,
            bytes: 0,
            buf: String::with_capacity(4096),
        }
    }
    #[cfg(miri)]
    fn eat(&mut self) {
        // interpreting a per-byte hash loop is the dominant cost under Miri; the renderings are
        // still produced (that is what exercises the accessors), only their hash is cheapened
        self.h = self.h.wrapping_mul(31).wrapping_add(self.buf.len() as u64);
        self.bytes += self.buf.len() as u64;
        self.buf.clear();
    }
    #[cfg(not(miri))]
    fn eat(&mut self) {
        for b in self.buf.as_bytes() {
            self.h ^= *b as u64;
            self.h = self.h.wrapping_mul(0x0000_0100_0000_01B3);
        }
        self.bytes += self.buf.len() as u64;
        self.buf.clear();
    }
    pub fn dbg<T: core::fmt::Debug>(&mut self, v: &T) {
        if !RENDER.load(std::sync::atomic::Ordering::Relaxed) {
            return;
        }
        let _ = write!(self.buf, "{:?}", v);
        self.eat();
    }
    pub fn disp<T: core::fmt::Display>(&mut self, v: &T) {
        if !RENDER.load(std::sync::atomic::Ordering::Relaxed) {
            return;
        }
        let _ = write!(self.buf, "{}", v);
        self.eat();
    }
    #[cfg(miri)]
    pub fn raw(&mut self, s: &[u8]) {
        // touch first and last byte (bounds are what Miri watches), cheap hash
        if let (Some(a), Some(b)) = (s.first(), s.last()) {
            self.h = self.h.wrapping_mul(31).wrapping_add(*a as u64 + *b as u64);
        }
        self.bytes += s.len() as u64;
    }
    #[cfg(not(miri))]
    pub fn raw(&mut self, s: &[u8]) {
        for b in s {
            self.h ^= *b as u64;
            self.h = self.h.wrapping_mul(0x0000_0100_0000_01B3);
        }
        self.bytes += s.len() as u64;
    }
    pub fn num(&mut self, v: u64) {
        self.raw(&v.to_le_bytes());
    }
}

/// rendering (Debug / Display) can be switched off per case: under Miri formatting costs
/// ~0.25 ms per byte and would leave no budget for the accessors themselves
pub static RENDER: std::sync::atomic::AtomicBool = std::sync::atomic::AtomicBool::new(true);

pub fn set_render(v: bool) {
    RENDER.store(v, std::sync::atomic::Ordering::Relaxed);
}

thread_local! {
    pub static SINK: std::cell::RefCell<Sink> = std::cell::RefCell::new(Sink::new());
}

pub fn sink_reset() {
    SINK.with(|s| {
        let mut s = s.borrow_mut();
        s.h = 0xcbf2_9ce4_8422_2325;
        s.bytes = 0;
    });
}
pub fn sink_hash() -> (u64, u64) {
    SINK.with(|s| {
        let s = s.borrow();
        (s.h, s.bytes)
    })
}
fn dbg<T: core::fmt::Debug>(v: &T) {
    SINK.with(|s| s.borrow_mut().dbg(v));
}
fn disp<T: core::fmt::Display>(v: &T) {
    SINK.with(|s| s.borrow_mut().disp(v));
}
fn raw(v: &[u8]) {
    SINK.with(|s| s.borrow_mut().raw(v));
}
fn num(v: u64) {
    SINK.with(|s| s.borrow_mut().num(v));
}

/// Debug + Display + source() chain of an error value
pub fn fmt_err<E: std::error::Error>(cx: &mut Cx, e: &E) {
    dbg(e);
    disp(e);
    let mut src = e.source();
    let mut n = 0;
    while let Some(s) = src {
        disp(&s);
        src = s.source();
        n += 1;
        if n > 8 {
            break;
        }
    }
    cx.calls(3);
}

/// slice result: containment + content into the hash
fn sl(cx: &mut Cx, s: &[u8], what: &'static str) {
    cx.touch(s, what);
    num(s.len() as u64);
    raw(s);
}

pub fn ether_payload(cx: &mut Cx, p: &EtherPayloadSlice) {
    sl(cx, p.payload, "EtherPayloadSlice.payload");
    dbg(p);
}

pub fn macsec_header(cx: &mut Cx, h: &MacsecHeaderSlice) {
    sl(cx, h.slice(), "MacsecHeaderSlice::slice");
    num(h.tci_an_raw() as u64);
    dbg(&h.ptype());
    num(h.is_unmodified() as u64);
    dbg(&h.expected_payload_len());
    let hd = h.to_header();
    dbg(&hd);
    num(hd.header_len() as u64);
    dbg(&hd.expected_payload_len());
    raw(&hd.to_bytes());
    dbg(h);
    cx.calls(10);
}

pub fn link_slice(cx: &mut Cx, l: &LinkSlice) {
    dbg(l);
    dbg(&l.to_header());
    if let Some(p) = l.ether_payload() {
        ether_payload(cx, &p);
    }
    let sp = l.sll_payload();
    sl(cx, sp.payload, "LinkSlice::sll_payload");
    dbg(&sp);
    match l {
        LinkSlice::Ethernet2(e) => {
            dbg(&e.fcs());
            let h = e.to_header();
            raw(&h.to_bytes());
            num(e.header_len() as u64);
        }
        LinkSlice::LinuxSll(s) => {
            let h = s.to_header();
            raw(&h.to_bytes());
            num(s.header_len() as u64);
            dbg(&s.packet_type());
            dbg(&s.arp_hardware_type());
            dbg(&s.protocol_type());
        }
        _ => {}
    }
    cx.calls(8);
}

pub fn vlan_slice(cx: &mut Cx, v: &SingleVlanSlice) {
    dbg(v);
    let h = v.to_header();
    dbg(&h);
    raw(&h.to_bytes());
    num(v.header_len() as u64);
    ether_payload(cx, &v.payload());
    cx.calls(5);
}

pub fn ipv4_header_slice(cx: &mut Cx, h: &Ipv4HeaderSlice) {
    dbg(h);
    sl(cx, h.slice(), "Ipv4HeaderSlice::slice");
    num(h.version() as u64);
    dbg(&h.payload_len());
    dbg(&h.source_addr());
    dbg(&h.destination_addr());
    num(h.is_fragmenting_payload() as u64);
    let hd = h.to_header();
    dbg(&hd);
    raw(&hd.to_bytes());
    num(hd.header_len() as u64);
    num(hd.calc_header_checksum() as u64);
    dbg(&hd.payload_len());
    cx.calls(12);
}

pub fn ipv6_header_slice(cx: &mut Cx, h: &Ipv6HeaderSlice) {
    dbg(h);
    sl(cx, h.slice(), "Ipv6HeaderSlice::slice");
    num(h.version() as u64);
    dbg(&h.ecn());
    dbg(&h.dscp());
    dbg(&h.source_addr());
    dbg(&h.destination_addr());
    num(h.header_len() as u64);
    let hd = h.to_header();
    dbg(&hd);
    raw(&hd.to_bytes());
    cx.calls(10);
}

pub fn auth_slice(cx: &mut Cx, a: &IpAuthHeaderSlice) {
    dbg(a);
    sl(cx, a.slice(), "IpAuthHeaderSlice::slice");
    sl(cx, a.raw_icv(), "IpAuthHeaderSlice::raw_icv");
    let h = a.to_header();
    dbg(&h);
    raw(&h.to_bytes());
    num(h.header_len() as u64);
    cx.calls(6);
}

pub fn raw_ext_slice(cx: &mut Cx, r: &Ipv6RawExtHeaderSlice) {
    dbg(r);
    sl(cx, r.slice(), "Ipv6RawExtHeaderSlice::slice");
    sl(cx, r.payload(), "Ipv6RawExtHeaderSlice::payload");
    let h = r.to_header();
    dbg(&h);
    raw(&h.to_bytes());
    num(h.header_len() as u64);
    cx.calls(6);
}

pub fn frag_slice(cx: &mut Cx, f: &Ipv6FragmentHeaderSlice) {
    dbg(f);
    sl(cx, f.slice(), "Ipv6FragmentHeaderSlice::slice");
    num(f.is_fragmenting_payload() as u64);
    let h = f.to_header();
    dbg(&h);
    raw(&h.to_bytes());
    cx.calls(5);
}

/// drives the extension iterator to exhaustion (bounded) and three steps beyond;
/// returns false if the step budget was exceeded
/// `Iterator::size_hint` brackets the number of items still to come at every point of the
/// iteration (iterations longer than `budget` are judged by the caller's own budget)
pub fn size_hint_holds<I: Iterator + Clone>(it: &I, budget: usize) -> bool {
    let total = it.clone().take(budget + 2).count();
    if total > budget + 1 {
        return true;
    }
    let mut cur = it.clone();
    let mut left = total;
    loop {
        let (lo, hi) = cur.size_hint();
        if lo > left || hi.map_or(false, |h| h < left) {
            return false;
        }
        if cur.next().is_none() || left == 0 {
            return true;
        }
        left -= 1;
    }
}

pub fn ipv6_exts_slice(cx: &mut Cx, e: &Ipv6ExtensionsSlice) -> bool {
    dbg(e);
    sl(cx, e.slice(), "Ipv6ExtensionsSlice::slice");
    dbg(&e.first_header());
    num(e.is_empty() as u64);
    num(e.is_fragmenting_payload() as u64);
    let budget = e.slice().len() / 8 + 2;
    let mut it = e.clone().into_iter();
    dbg(&it);
    if !size_hint_holds(&it, budget) {
        return false;
    }
    let mut n = 0;
    loop {
        match it.next() {
            Some(x) => {
                n += 1;
                if n > budget {
                    return false;
                }
                match &x {
                    Ipv6ExtensionSlice::HopByHop(r)
                    | Ipv6ExtensionSlice::Routing(r)
                    | Ipv6ExtensionSlice::DestinationOptions(r) => raw_ext_slice(cx, r),
                    Ipv6ExtensionSlice::Fragment(f) => frag_slice(cx, f),
                    Ipv6ExtensionSlice::Authentication(a) => auth_slice(cx, a),
                }
                dbg(&x);
            }
            None => break,
        }
    }
    // an exhausted iterator stays exhausted
    for _ in 0..3 {
        if it.next().is_some() {
            return false;
        }
    }
    cx.calls(8);
    true
}

pub fn ip_payload(cx: &mut Cx, p: &IpPayloadSlice) {
    dbg(p);
    sl(cx, p.payload, "IpPayloadSlice.payload");
}
pub fn lax_ip_payload(cx: &mut Cx, p: &LaxIpPayloadSlice) {
    dbg(p);
    sl(cx, p.payload, "LaxIpPayloadSlice.payload");
}

pub fn ip_headers_slice(cx: &mut Cx, h: &IpHeadersSlice) {
    dbg(h);
    sl(cx, h.slice(), "IpHeadersSlice::slice");
    num(h.is_ipv4() as u64 + 2 * h.is_ipv6() as u64);
    dbg(&h.source_addr());
    dbg(&h.destination_addr());
    dbg(&h.next_header());
    dbg(&h.payload_ip_number());
    num(h.version() as u64);
    num(h.header_len() as u64);
    match h.try_to_header() {
        Ok(x) => {
            dbg(&x);
            num(x.header_len() as u64);
        }
        Err(e) => fmt_err(cx, &e),
    }
    if let Some(x) = h.ipv4() {
        sl(cx, x.slice(), "IpHeadersSlice::ipv4");
    }
    if let Some(x) = h.ipv4_exts() {
        dbg(&x.is_empty());
    }
    if let Some(x) = h.ipv6() {
        sl(cx, x.slice(), "IpHeadersSlice::ipv6");
    }
    if let Some(x) = h.ipv6_exts() {
        sl(cx, x.slice(), "IpHeadersSlice::ipv6_exts");
    }
    cx.calls(14);
}

pub fn ipv4_slice(cx: &mut Cx, s: &Ipv4Slice) {
    dbg(s);
    ipv4_header_slice(cx, &s.header());
    let e = s.extensions();
    dbg(&e);
    num(e.is_empty() as u64);
    dbg(&e.to_header());
    if let Some(a) = &e.auth {
        auth_slice(cx, a);
    }
    ip_payload(cx, s.payload());
    dbg(&s.payload_ip_number());
    num(s.is_payload_fragmented() as u64);
    let ip: IpSlice = s.clone().into();
    ip_slice_common(cx, &ip);
    cx.calls(8);
}

pub fn ipv6_slice(cx: &mut Cx, s: &Ipv6Slice) -> bool {
    dbg(s);
    ipv6_header_slice(cx, &s.header());
    let ok = ipv6_exts_slice(cx, s.extensions());
    ip_payload(cx, s.payload());
    num(s.is_payload_fragmented() as u64);
    if ok {
        let ip: IpSlice = s.clone().into();
        ip_slice_common(cx, &ip);
    }
    cx.calls(5);
    ok
}

pub fn ip_slice_common(cx: &mut Cx, ip: &IpSlice) {
    dbg(ip);
    ip_headers_slice(cx, &ip.header());
    dbg(&ip.to_header());
    num(ip.is_fragmenting_payload() as u64);
    dbg(&ip.source_addr());
    dbg(&ip.destination_addr());
    ip_payload(cx, ip.payload());
    dbg(&ip.payload_ip_number());
    num(ip.ipv4().is_some() as u64);
    num(ip.ipv6().is_some() as u64);
    cx.calls(9);
}

pub fn lax_ipv4_slice(cx: &mut Cx, s: &LaxIpv4Slice) {
    dbg(s);
    ipv4_header_slice(cx, &s.header());
    let e = s.extensions();
    dbg(&e);
    dbg(&e.to_header());
    if let Some(a) = &e.auth {
        auth_slice(cx, a);
    }
    lax_ip_payload(cx, s.payload());
    dbg(&s.payload_ip_number());
    num(s.is_payload_fragmented() as u64);
    let ip: LaxIpSlice = s.clone().into();
    lax_ip_slice_common(cx, &ip);
    cx.calls(7);
}

pub fn lax_ipv6_slice(cx: &mut Cx, s: &LaxIpv6Slice) -> bool {
    dbg(s);
    ipv6_header_slice(cx, &s.header());
    let ok = ipv6_exts_slice(cx, s.extensions());
    lax_ip_payload(cx, s.payload());
    num(s.is_payload_fragmented() as u64);
    let ip: LaxIpSlice = s.clone().into();
    lax_ip_slice_common(cx, &ip);
    cx.calls(5);
    ok
}

pub fn lax_ip_slice_common(cx: &mut Cx, ip: &LaxIpSlice) {
    dbg(ip);
    num(ip.is_fragmenting_payload() as u64);
    dbg(&ip.source_addr());
    dbg(&ip.destination_addr());
    lax_ip_payload(cx, ip.payload());
    dbg(&ip.payload_ip_number());
    num(ip.ipv4().is_some() as u64);
    num(ip.ipv6().is_some() as u64);
    cx.calls(7);
}

pub fn arp_slice(cx: &mut Cx, a: &ArpPacketSlice) {
    dbg(a);
    sl(cx, a.slice(), "ArpPacketSlice::slice");
    let p = a.to_packet();
    dbg(&p);
    raw(&p.to_bytes());
    num(p.packet_len() as u64);
    match p.try_eth_ipv4() {
        Ok(x) => {
            dbg(&x);
            raw(&x.to_bytes());
        }
        Err(e) => fmt_err(cx, &e),
    }
    cx.calls(6);
}

/// drives a TCP options iterator: returns false if the step budget was exceeded
pub fn tcp_options_iter(cx: &mut Cx, mut it: TcpOptionsIterator, area_len: usize) -> bool {
    dbg(&it);
    let budget = area_len + 1;
    if !size_hint_holds(&it, budget) {
        return false;
    }
    let mut n = 0;
    loop {
        sl(cx, it.rest(), "TcpOptionsIterator::rest");
        match it.next() {
            Some(Ok(e)) => dbg(&e),
            Some(Err(e)) => fmt_err(cx, &e),
            None => break,
        }
        n += 1;
        if n > budget {
            return false;
        }
    }
    for _ in 0..3 {
        if it.next().is_some() {
            return false;
        }
    }
    cx.calls(4);
    true
}

pub fn tcp_slice(cx: &mut Cx, t: &TcpSlice) -> bool {
    dbg(t);
    sl(cx, t.slice(), "TcpSlice::slice");
    sl(cx, t.header_slice(), "TcpSlice::header_slice");
    sl(cx, t.options(), "TcpSlice::options");
    sl(cx, t.payload(), "TcpSlice::payload");
    num(t.header_len() as u64);
    let ok = tcp_options_iter(cx, t.options_iterator(), t.options().len());
    let h = t.to_header();
    dbg(&h);
    raw(&h.to_bytes());
    num(h.header_len() as u64);
    // (the owned header iterates over its own copy of the options)
    let mut own = Cx::new(h.options.as_slice());
    let ok2 = tcp_options_iter(&mut own, h.options.elements_iter(), h.options.len());
    cx.bad.append(&mut own.bad);
    dbg(&t.calc_checksum_ipv4([1, 2, 3, 4], [5, 6, 7, 8]));
    dbg(&t.calc_checksum_ipv6([1; 16], [2; 16]));
    cx.calls(12);
    ok && ok2
}

pub fn udp_slice(cx: &mut Cx, u: &UdpSlice) {
    dbg(u);
    sl(cx, u.slice(), "UdpSlice::slice");
    sl(cx, u.header_slice(), "UdpSlice::header_slice");
    sl(cx, u.payload(), "UdpSlice::payload");
    dbg(&u.payload_len_source());
    num(u.header_len() as u64 + u.header_len_u16() as u64);
    let h = u.to_header();
    dbg(&h);
    raw(&h.to_bytes());
    cx.calls(8);
}

pub fn icmpv4_slice(cx: &mut Cx, i: &Icmpv4Slice) {
    dbg(i);
    sl(cx, i.slice(), "Icmpv4Slice::slice");
    sl(cx, i.payload(), "Icmpv4Slice::payload");
    num(i.header_len() as u64);
    let t = i.icmp_type();
    dbg(&t);
    let h = i.header();
    dbg(&h);
    raw(&h.to_bytes());
    num(h.header_len() as u64);
    dbg(&h.fixed_payload_size());
    cx.calls(9);
}

pub fn ndp_options(cx: &mut Cx, mut it: NdpOptionsIterator, area_len: usize) -> bool {
    dbg(&it);
    let budget = area_len / 8 + 2;
    if !size_hint_holds(&it, budget) {
        return false;
    }
    let mut n = 0;
    loop {
        sl(cx, it.rest(), "NdpOptionsIterator::rest");
        match it.next() {
            Some(Ok(o)) => {
                dbg(&o);
                sl(cx, o.as_bytes(), "NdpOptionSlice::as_bytes");
                dbg(&o.option_type());
                match &o {
                    NdpOptionSlice::SourceLinkLayerAddress(x) => {
                        sl(cx, x.link_layer_address(), "SourceLinkLayerAddressOptionSlice::link_layer_address")
                    }
                    NdpOptionSlice::TargetLinkLayerAddress(x) => {
                        sl(cx, x.link_layer_address(), "TargetLinkLayerAddressOptionSlice::link_layer_address")
                    }
                    NdpOptionSlice::PrefixInformation(x) => {
                        sl(cx, x.as_bytes(), "PrefixInformationOptionSlice::as_bytes");
                        num(x.prefix_length() as u64);
                        num(x.on_link() as u64);
                        num(x.autonomous_address_configuration() as u64);
                        num(x.valid_lifetime() as u64);
                        num(x.preferred_lifetime() as u64);
                        raw(&x.prefix());
                        let pi = x.prefix_information();
                        dbg(&pi);
                        raw(&pi.to_bytes());
                    }
                    NdpOptionSlice::RedirectedHeader(x) => {
                        sl(cx, x.redirected_packet(), "RedirectedHeaderOptionSlice::redirected_packet")
                    }
                    NdpOptionSlice::Mtu(x) => num(x.mtu() as u64),
                    NdpOptionSlice::Unknown(x) => {
                        sl(cx, x.data(), "UnknownNdpOptionSlice::data");
                        dbg(&x.option_type());
                    }
                    #[allow(unreachable_patterns)]
                    _ => {}
                }
            }
            Some(Err(e)) => fmt_err(cx, &e),
            None => break,
        }
        n += 1;
        if n > budget {
            return false;
        }
    }
    for _ in 0..3 {
        if it.next().is_some() {
            return false;
        }
    }
    cx.calls(4);
    true
}

fn invoking(cx: &mut Cx, r: Result<(LaxIpSlice, Option<(err::ipv6_exts::HeaderSliceError, err::Layer)>), err::ip::LaxHeaderSliceError>) -> bool {
    match r {
        Ok((ip, stop)) => {
            dbg(&stop);
            let mut ok = true;
            match &ip {
                LaxIpSlice::Ipv4(s) => lax_ipv4_slice(cx, s),
                LaxIpSlice::Ipv6(s) => ok = lax_ipv6_slice(cx, s),
            }
            ok
        }
        Err(e) => {
            fmt_err(cx, &e);
            true
        }
    }
}

pub fn icmpv6_payload_slice(cx: &mut Cx, p: &Icmpv6PayloadSlice) -> bool {
    dbg(p);
    sl(cx, p.slice(), "Icmpv6PayloadSlice::slice");
    if let Some((pl, opts)) = p.to_payload() {
        dbg(&pl);
        sl(cx, opts, "Icmpv6PayloadSlice::to_payload");
    }
    let mut ok = true;
    match p {
        Icmpv6PayloadSlice::DestinationUnreachable(x) => {
            sl(cx, x.invoking_packet(), "invoking_packet");
            ok &= invoking(cx, x.as_lax_ip_slice());
        }
        Icmpv6PayloadSlice::PacketTooBig(x) => {
            sl(cx, x.invoking_packet(), "invoking_packet");
            ok &= invoking(cx, x.as_lax_ip_slice());
        }
        Icmpv6PayloadSlice::TimeExceeded(x) => {
            sl(cx, x.invoking_packet(), "invoking_packet");
            ok &= invoking(cx, x.as_lax_ip_slice());
        }
        Icmpv6PayloadSlice::ParameterProblem(x) => {
            sl(cx, x.invoking_packet(), "invoking_packet");
            ok &= invoking(cx, x.as_lax_ip_slice());
        }
        Icmpv6PayloadSlice::EchoRequest(x) => sl(cx, x.data(), "EchoRequestPayloadSlice::data"),
        Icmpv6PayloadSlice::EchoReply(x) => sl(cx, x.data(), "EchoReplyPayloadSlice::data"),
        Icmpv6PayloadSlice::RouterSolicitation(x) => {
            sl(cx, x.options(), "options");
            ok &= ndp_options(cx, x.options_iterator(), x.options().len());
        }
        Icmpv6PayloadSlice::RouterAdvertisement(x) => {
            num(x.reachable_time() as u64 + x.retrans_timer() as u64);
            sl(cx, x.options(), "options");
            ok &= ndp_options(cx, x.options_iterator(), x.options().len());
        }
        Icmpv6PayloadSlice::NeighborSolicitation(x) => {
            dbg(&x.target_address());
            sl(cx, x.options(), "options");
            ok &= ndp_options(cx, x.options_iterator(), x.options().len());
        }
        Icmpv6PayloadSlice::NeighborAdvertisement(x) => {
            dbg(&x.target_address());
            sl(cx, x.options(), "options");
            ok &= ndp_options(cx, x.options_iterator(), x.options().len());
        }
        Icmpv6PayloadSlice::Redirect(x) => {
            dbg(&x.target_address());
            dbg(&x.destination_address());
            sl(cx, x.options(), "options");
            ok &= ndp_options(cx, x.options_iterator(), x.options().len());
        }
        Icmpv6PayloadSlice::Raw(s) => sl(cx, s, "Icmpv6PayloadSlice::Raw"),
        #[allow(unreachable_patterns)]
        _ => {}
    }
    cx.calls(6);
    ok
}

pub fn icmpv6_slice(cx: &mut Cx, i: &Icmpv6Slice) -> bool {
    dbg(i);
    sl(cx, i.slice(), "Icmpv6Slice::slice");
    sl(cx, i.payload(), "Icmpv6Slice::payload");
    num(i.header_len() as u64);
    let t = i.icmp_type();
    dbg(&t);
    let h = i.header();
    dbg(&h);
    raw(&h.to_bytes());
    dbg(&h.fixed_payload_size());
    num(i.is_checksum_valid([3; 16], [4; 16]) as u64);
    let mut ok = true;
    match i.payload_slice() {
        Ok(p) => ok = icmpv6_payload_slice(cx, &p),
        Err(e) => fmt_err(cx, &e),
    }
    match Icmpv6PayloadSlice::from_slice(&t, i.payload()) {
        Ok(p) => {
            dbg(&p);
        }
        Err(e) => fmt_err(cx, &e),
    }
    cx.calls(10);
    ok
}

pub fn transport_slice(cx: &mut Cx, t: &TransportSlice) -> bool {
    dbg(t);
    match t {
        TransportSlice::Udp(u) => {
            udp_slice(cx, u);
            true
        }
        TransportSlice::Tcp(t) => tcp_slice(cx, t),
        TransportSlice::Icmpv4(i) => {
            icmpv4_slice(cx, i);
            true
        }
        TransportSlice::Icmpv6(i) => icmpv6_slice(cx, i),
    }
}

pub fn sliced_packet(cx: &mut Cx, p: &SlicedPacket) -> bool {
    let mut ok = true;
    dbg(p);
    dbg(&p.payload_ether_type());
    if let Some(e) = p.ether_payload() {
        ether_payload(cx, &e);
    }
    if let Some(i) = p.ip_payload() {
        ip_payload(cx, i);
    }
    num(p.is_ip_payload_fragmented() as u64);
    if let Some(v) = p.vlan() {
        dbg(&v);
        dbg(&v.to_header());
        ether_payload(cx, &v.payload());
        if let VlanSlice::DoubleVlan(d) = &v {
            dbg(&d.to_header());
            sl(cx, d.payload_slice(), "DoubleVlanSlice::payload_slice");
        }
    }
    dbg(&p.vlan_ids());
    if let Some(l) = &p.link {
        link_slice(cx, l);
    }
    for e in &p.link_exts {
        dbg(e);
        num(e.header_len() as u64);
        dbg(&e.to_header());
        if let Some(x) = e.ether_payload() {
            ether_payload(cx, &x);
        }
        match e {
            LinkExtSlice::Vlan(v) => vlan_slice(cx, v),
            LinkExtSlice::Macsec(m) => {
                macsec_header(cx, &m.header);
                dbg(&m.next_ether_type());
                if let Some(x) = m.ether_payload() {
                    ether_payload(cx, &x);
                }
                if let MacsecPayloadSlice::Modified(s) = &m.payload {
                    sl(cx, s, "MacsecPayloadSlice::Modified");
                }
            }
        }
    }
    if let Some(n) = &p.net {
        dbg(n);
        num(n.is_ip() as u64 + 2 * n.is_ipv4() as u64 + 4 * n.is_ipv6() as u64 + 8 * n.is_arp() as u64);
        if let Some(x) = n.ip_payload_ref() {
            ip_payload(cx, x);
        }
        match n {
            NetSlice::Ipv4(s) => ipv4_slice(cx, s),
            NetSlice::Ipv6(s) => ok &= ipv6_slice(cx, s),
            NetSlice::Arp(a) => arp_slice(cx, a),
        }
    }
    if let Some(t) = &p.transport {
        ok &= transport_slice(cx, t);
    }
    cx.calls(10);
    ok
}

pub fn lax_sliced_packet(cx: &mut Cx, p: &LaxSlicedPacket) -> bool {
    let mut ok = true;
    dbg(p);
    if let Some(e) = p.ether_payload() {
        dbg(&e);
        sl(cx, e.payload, "LaxSlicedPacket::ether_payload");
    }
    if let Some(i) = p.ip_payload() {
        lax_ip_payload(cx, i);
    }
    if let Some(v) = p.vlan() {
        dbg(&v);
        dbg(&v.to_header());
        ether_payload(cx, &v.payload());
    }
    dbg(&p.vlan_ids());
    if let Some((e, l)) = &p.stop_err {
        fmt_err(cx, e);
        dbg(l);
        disp(l);
        num(l.error_title().len() as u64);
    }
    if let Some(l) = &p.link {
        link_slice(cx, l);
    }
    for e in &p.link_exts {
        dbg(e);
        num(e.header_len() as u64);
        dbg(&e.to_header());
        if let Some(x) = e.payload() {
            dbg(&x);
            sl(cx, x.payload, "LaxLinkExtSlice::payload");
        }
        match e {
            LaxLinkExtSlice::Vlan(v) => vlan_slice(cx, v),
            LaxLinkExtSlice::Macsec(m) => {
                macsec_header(cx, &m.header);
                dbg(&m.next_ether_type());
                if let Some(x) = m.ether_payload() {
                    dbg(&x);
                    sl(cx, x.payload, "LaxMacsecSlice::ether_payload");
                }
                if let LaxMacsecPayloadSlice::Modified { payload, .. } = &m.payload {
                    sl(cx, payload, "LaxMacsecPayloadSlice::Modified");
                }
            }
        }
    }
    if let Some(n) = &p.net {
        dbg(n);
        if let Some(x) = n.ip_payload_ref() {
            lax_ip_payload(cx, x);
        }
        match n {
            LaxNetSlice::Ipv4(s) => lax_ipv4_slice(cx, s),
            LaxNetSlice::Ipv6(s) => ok &= lax_ipv6_slice(cx, s),
            LaxNetSlice::Arp(a) => arp_slice(cx, a),
        }
    }
    if let Some(t) = &p.transport {
        ok &= transport_slice(cx, t);
    }
    cx.calls(10);
    ok
}

pub fn net_headers(cx: &mut Cx, n: &NetHeaders) {
    dbg(n);
    num(n.header_len() as u64);
    num(n.is_ip() as u64 + 2 * n.is_ipv4() as u64 + 4 * n.is_ipv6() as u64 + 8 * n.is_arp() as u64);
    match n {
        NetHeaders::Ipv4(h, e) => {
            raw(&h.to_bytes());
            num(e.header_len() as u64);
            dbg(&e.is_empty());
        }
        NetHeaders::Ipv6(h, e) => {
            raw(&h.to_bytes());
            num(e.header_len() as u64);
            dbg(&e.is_empty());
            dbg(&e.is_fragmenting_payload());
            dbg(&e.next_header(h.next_header));
        }
        NetHeaders::Arp(a) => {
            raw(&a.to_bytes());
        }
    }
    cx.calls(6);
}

pub fn transport_header(cx: &mut Cx, t: &TransportHeader) {
    dbg(t);
    num(t.header_len() as u64);
    match t {
        TransportHeader::Udp(u) => raw(&u.to_bytes()),
        TransportHeader::Tcp(t) => {
            raw(&t.to_bytes());
            let mut own = Cx::new(t.options.as_slice());
            let _ = tcp_options_iter(&mut own, t.options.elements_iter(), t.options.len());
            cx.bad.append(&mut own.bad);
        }
        TransportHeader::Icmpv4(i) => raw(&i.to_bytes()),
        TransportHeader::Icmpv6(i) => raw(&i.to_bytes()),
    }
    cx.calls(3);
}

pub fn packet_headers(cx: &mut Cx, p: &PacketHeaders) {
    dbg(p);
    dbg(&p.vlan());
    dbg(&p.vlan_ids());
    if let Some(l) = &p.link {
        num(l.header_len() as u64);
    }
    for e in &p.link_exts {
        num(e.header_len() as u64);
        if let LinkExtHeader::Macsec(m) = e {
            raw(&m.to_bytes());
        }
    }
    if let Some(n) = &p.net {
        net_headers(cx, n);
    }
    if let Some(t) = &p.transport {
        transport_header(cx, t);
    }
    sl(cx, p.payload.slice(), "PacketHeaders.payload");
    cx.calls(6);
}

pub fn lax_packet_headers(cx: &mut Cx, p: &LaxPacketHeaders) {
    dbg(p);
    dbg(&p.vlan());
    dbg(&p.vlan_ids());
    if let Some((e, l)) = &p.stop_err {
        fmt_err(cx, e);
        disp(l);
    }
    if let Some(l) = &p.link {
        num(l.header_len() as u64);
    }
    for e in &p.link_exts {
        num(e.header_len() as u64);
        if let LinkExtHeader::Macsec(m) = e {
            raw(&m.to_bytes());
        }
    }
    if let Some(n) = &p.net {
        net_headers(cx, n);
    }
    if let Some(t) = &p.transport {
        transport_header(cx, t);
    }
    sl(cx, p.payload.slice(), "LaxPacketHeaders.payload");
    cx.calls(6);
}

pub fn ip_headers(cx: &mut Cx, h: &IpHeaders) {
    dbg(h);
    num(h.header_len() as u64);
    dbg(&h.next_header());
    num(h.is_fragmenting_payload() as u64);
    num(h.ipv4().is_some() as u64 + 2 * h.ipv6().is_some() as u64);
    match h {
        IpHeaders::Ipv4(h, e) => {
            raw(&h.to_bytes());
            num(e.header_len() as u64);
        }
        IpHeaders::Ipv6(h, e) => {
            raw(&h.to_bytes());
            num(e.header_len() as u64);
            dbg(&e.next_header(h.next_header));
        }
    }
    cx.calls(7);
}
