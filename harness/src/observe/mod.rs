//! O — observation adapters: turn etherparse results into the neutral form and, on the way,
//! check that every sub-slice handed back lies inside the input (C01 containment monitor).

use crate::neutral::*;
use etherparse::err::{self, Layer, LenError};
use etherparse::*;

pub mod builder;
pub mod entry;
pub mod exhaust;
pub mod iplevel;
pub mod single;
pub mod whole;

/// observation context for one decode of one input
pub struct Cx {
    base: usize,
    len: usize,
    /// containment failures: (what, offset relative to input start, len)
    pub bad: Vec<String>,
    pub sub_slices: u64,
    pub accessor_calls: u64,
}

impl Cx {
    pub fn new(input: &[u8]) -> Cx {
        Cx {
            base: input.as_ptr() as usize,
            len: input.len(),
            bad: Vec::new(),
            sub_slices: 0,
            accessor_calls: 0,
        }
    }

    /// offset of `s` relative to the input; records a containment failure if `s` is not
    /// entirely inside the input
    #[inline]
    pub fn off(&mut self, s: &[u8], what: &'static str) -> usize {
        self.sub_slices += 1;
        let p = s.as_ptr() as usize;
        // (an empty slice covers no memory: constants like `&[]` are fine)
        let ok = s.is_empty() || (p >= self.base && p + s.len() <= self.base + self.len);
        if s.is_empty() && !(p >= self.base && p <= self.base + self.len) {
            return 0;
        }
        if !ok {
            if self.bad.len() < 8 {
                self.bad.push(format!(
                    "{} at input{:+} len {} (input len {})",
                    what,
                    p as isize - self.base as isize,
                    s.len(),
                    self.len
                ));
            }
            return NO_OFF - 1;
        }
        p - self.base
    }

    #[inline]
    pub fn touch(&mut self, s: &[u8], what: &'static str) {
        let _ = self.off(s, what);
    }

    #[inline]
    pub fn calls(&mut self, n: u64) {
        self.accessor_calls += n;
    }
}

pub fn lay(l: Layer) -> Lay {
    use Layer::*;
    match l {
        LinuxSllHeader => Lay::LinuxSllHeader,
        Ethernet2Header => Lay::Ethernet2Header,
        EtherPayload => Lay::EtherPayload,
        VlanHeader => Lay::VlanHeader,
        MacsecHeader => Lay::MacsecHeader,
        MacsecPacket => Lay::MacsecPacket,
        IpHeader => Lay::IpHeader,
        Ipv4Header => Lay::Ipv4Header,
        Ipv4Packet => Lay::Ipv4Packet,
        IpAuthHeader => Lay::IpAuthHeader,
        Ipv6Header => Lay::Ipv6Header,
        Ipv6Packet => Lay::Ipv6Packet,
        Ipv6ExtHeader => Lay::Ipv6ExtHeader,
        Ipv6HopByHopHeader => Lay::Ipv6HopByHopHeader,
        Ipv6DestOptionsHeader => Lay::Ipv6DestOptionsHeader,
        Ipv6RouteHeader => Lay::Ipv6RouteHeader,
        Ipv6FragHeader => Lay::Ipv6FragHeader,
        UdpHeader => Lay::UdpHeader,
        UdpPayload => Lay::UdpPayload,
        TcpHeader => Lay::TcpHeader,
        Icmpv4 => Lay::Icmpv4,
        Icmpv4Timestamp => Lay::Icmpv4Timestamp,
        Icmpv4TimestampReply => Lay::Icmpv4TimestampReply,
        Icmpv6 => Lay::Icmpv6,
        Igmp => Lay::Igmp,
        Arp => Lay::Arp,
    }
}

pub fn src(s: LenSource) -> Src {
    match s {
        LenSource::Slice => Src::Slice,
        LenSource::MacsecShortLength => Src::MacsecShort,
        LenSource::Ipv4HeaderTotalLen => Src::Ipv4Total,
        LenSource::Ipv6HeaderPayloadLen => Src::Ipv6Payload,
        LenSource::UdpHeaderLen => Src::UdpLen,
        LenSource::TcpHeaderLen => Src::TcpLen,
        LenSource::ArpAddrLengths => Src::ArpAddr,
    }
}

thread_local! {
    static LEN_TEXT_TICK: std::cell::Cell<u32> = const { std::cell::Cell::new(0) };
    static LEN_TEXT_FAULT: std::cell::RefCell<Option<(String, String)>> = const { std::cell::RefCell::new(None) };
    static LEN_TEXT_CHECKED: std::cell::Cell<u64> = const { std::cell::Cell::new(0) };
}

/// What the message of a `LenError` has to say to describe the fault its fields describe: both
/// byte counts, the offset when there is one, the direction, and the length source - by the name of
/// the header field, with no other field named. Returns (what is wrong, the text).
pub fn len_text_fault(e: &LenError) -> Option<(String, String)> {
    let text = format!("{}", e);
    let numbers: Vec<&str> = text.split(|c: char| !c.is_ascii_digit()).filter(|t| !t.is_empty()).collect();
    let has = |v: usize| numbers.iter().any(|t| t.parse::<usize>().ok() == Some(v));
    if !has(e.required_len) || !has(e.len) {
        return Some(("byte_counts".into(), text));
    }
    if e.layer_start_offset > 0 && !has(e.layer_start_offset) {
        return Some(("offset".into(), text));
    }
    let dir_ok = if e.required_len > e.len { text.contains("Not enough data") } else { text.contains("too big") };
    if !dir_ok {
        return Some(("direction".into(), text));
    }
    const FIELDS: [(&str, Src); 6] = [
        ("from the MACsec", Src::MacsecShort),
        ("from the IPv4", Src::Ipv4Total),
        ("from the IPv6", Src::Ipv6Payload),
        ("from the UDP", Src::UdpLen),
        ("from the TCP", Src::TcpLen),
        ("from the ARP", Src::ArpAddr),
    ];
    let s = src(e.len_source);
    for (kw, k) in FIELDS {
        if text.contains(kw) != (k == s) {
            return Some((format!("len_source.{:?}", s), text));
        }
    }
    if (s == Src::Slice) != text.contains("slice length") {
        return Some((format!("len_source.{:?}", s), text));
    }
    None
}

/// first message fault seen since the last call (checked on every 4th `LenError` that passes
/// through `nlen`), and the number of messages checked
pub fn take_len_text_fault() -> (Option<(String, String)>, u64) {
    (LEN_TEXT_FAULT.with(|f| f.borrow_mut().take()), LEN_TEXT_CHECKED.with(|c| c.replace(0)))
}

pub fn nlen(e: &LenError) -> NErr {
    let t = LEN_TEXT_TICK.with(|c| {
        let v = c.get().wrapping_add(1);
        c.set(v);
        v
    });
    if t % 4 == 0 && !cfg!(miri) {
        LEN_TEXT_CHECKED.with(|c| c.set(c.get() + 1));
        if let Some(f) = len_text_fault(e) {
            LEN_TEXT_FAULT.with(|x| {
                let mut x = x.borrow_mut();
                if x.is_none() {
                    *x = Some(f);
                }
            });
        }
    }
    NErr::Len {
        required: e.required_len,
        len: e.len,
        src: src(e.len_source),
        layer: lay(e.layer),
        off: e.layer_start_offset,
    }
}

pub fn c_ip(e: &err::ip::HeaderError) -> NErr {
    use err::ip::HeaderError::*;
    NErr::Content(match e {
        UnsupportedIpVersion { version_number } => format!("ip.BadVersion({})", version_number),
        Ipv4HeaderLengthSmallerThanHeader { ihl } => {
            format!("ip.IhlTooSmall({})", ihl)
        }
    })
}
pub fn c_ipv4(e: &err::ipv4::HeaderError) -> NErr {
    use err::ipv4::HeaderError::*;
    NErr::Content(match e {
        UnexpectedVersion { version_number } => format!("ip.BadVersion({})", version_number),
        HeaderLengthSmallerThanHeader { ihl } => format!("ip.IhlTooSmall({})", ihl),
    })
}
pub fn c_ipv6(e: &err::ipv6::HeaderError) -> NErr {
    use err::ipv6::HeaderError::*;
    NErr::Content(match e {
        UnexpectedVersion { version_number } => format!("ip.BadVersion({})", version_number),
    })
}
pub fn c_auth_v4(e: &err::ip_auth::HeaderError) -> NErr {
    match e {
        err::ip_auth::HeaderError::ZeroPayloadLen => NErr::Content("auth.ZeroPayloadLen".to_string()),
    }
}
pub fn c_auth_plain(e: &err::ip_auth::HeaderError) -> NErr {
    match e {
        err::ip_auth::HeaderError::ZeroPayloadLen => NErr::Content("auth.ZeroPayloadLen".to_string()),
    }
}
pub fn c_ipv6_exts(e: &err::ipv6_exts::HeaderError) -> NErr {
    use err::ipv6_exts::HeaderError::*;
    NErr::Content(match e {
        HopByHopNotAtStart => "ipv6exts.HopByHopNotAtStart".to_string(),
        IpAuth(err::ip_auth::HeaderError::ZeroPayloadLen) => "auth.ZeroPayloadLen".to_string(),
    })
}
pub fn c_tcp(e: &err::tcp::HeaderError) -> NErr {
    use err::tcp::HeaderError::*;
    NErr::Content(match e {
        DataOffsetTooSmall { data_offset } => format!("tcp.DataOffsetTooSmall({})", data_offset),
    })
}
pub fn c_macsec(e: &err::macsec::HeaderError) -> NErr {
    use err::macsec::HeaderError::*;
    NErr::Content(match e {
        UnexpectedVersion => "macsec.UnexpectedVersion".to_string(),
        InvalidUnmodifiedShortLen => "macsec.InvalidUnmodifiedShortLen".to_string(),
    })
}
pub fn c_sll(e: &err::linux_sll::HeaderError) -> NErr {
    use err::linux_sll::HeaderError::*;
    NErr::Content(match e {
        UnsupportedPacketTypeField { packet_type } => {
            format!("sll.UnsupportedPacketTypeField({})", packet_type)
        }
        UnsupportedArpHardwareId { arp_hardware_type } => {
            format!("sll.UnsupportedArpHardwareId({})", arp_hardware_type.0)
        }
    })
}

pub fn n_packet_slice_error(e: &err::packet::SliceError) -> NErr {
    use err::packet::SliceError::*;
    match e {
        Len(l) => nlen(l),
        LinuxSll(c) => c_sll(c),
        Macsec(c) => c_macsec(c),
        Ip(c) => c_ip(c),
        Ipv4(c) => c_ipv4(c),
        Ipv6(c) => c_ipv6(c),
        Ipv4Exts(c) => c_auth_v4(c),
        Ipv6Exts(c) => c_ipv6_exts(c),
        Tcp(c) => c_tcp(c),
    }
}

pub fn n_ip_slice_error(e: &err::ip::SliceError) -> NErr {
    match e {
        err::ip::SliceError::Len(l) => nlen(l),
        err::ip::SliceError::IpHeaders(h) => n_ip_headers_error(h),
    }
}
pub fn n_ip_headers_error(h: &err::ip::HeadersError) -> NErr {
    match h {
        err::ip::HeadersError::Ip(c) => c_ip(c),
        err::ip::HeadersError::Ipv4Ext(c) => c_auth_v4(c),
        err::ip::HeadersError::Ipv6Ext(c) => c_ipv6_exts(c),
    }
}
pub fn n_ip_headers_slice_error(e: &err::ip::HeadersSliceError) -> NErr {
    match e {
        err::ip::HeadersSliceError::Len(l) => nlen(l),
        err::ip::HeadersSliceError::Content(h) => n_ip_headers_error(h),
    }
}
pub fn n_ipv4_slice_error(e: &err::ipv4::SliceError) -> NErr {
    match e {
        err::ipv4::SliceError::Len(l) => nlen(l),
        err::ipv4::SliceError::Header(c) => c_ipv4(c),
        err::ipv4::SliceError::Exts(c) => c_auth_v4(c),
    }
}
pub fn n_ipv6_slice_error(e: &err::ipv6::SliceError) -> NErr {
    match e {
        err::ipv6::SliceError::Len(l) => nlen(l),
        err::ipv6::SliceError::Header(c) => c_ipv6(c),
        err::ipv6::SliceError::Exts(c) => c_ipv6_exts(c),
    }
}
pub fn n_lax_ip_header_error(e: &err::ip::LaxHeaderSliceError) -> NErr {
    match e {
        err::ip::LaxHeaderSliceError::Len(l) => nlen(l),
        err::ip::LaxHeaderSliceError::Content(c) => c_ip(c),
    }
}
pub fn n_ipv4_header_slice_error(e: &err::ipv4::HeaderSliceError) -> NErr {
    match e {
        err::ipv4::HeaderSliceError::Len(l) => nlen(l),
        err::ipv4::HeaderSliceError::Content(c) => c_ipv4(c),
    }
}
pub fn n_ipv6_header_slice_error(e: &err::ipv6::HeaderSliceError) -> NErr {
    match e {
        err::ipv6::HeaderSliceError::Len(l) => nlen(l),
        err::ipv6::HeaderSliceError::Content(c) => c_ipv6(c),
    }
}
pub fn n_ipv6_exts_slice_error(e: &err::ipv6_exts::HeaderSliceError) -> NErr {
    match e {
        err::ipv6_exts::HeaderSliceError::Len(l) => nlen(l),
        err::ipv6_exts::HeaderSliceError::Content(c) => c_ipv6_exts(c),
    }
}
pub fn n_auth_slice_error_v4(e: &err::ip_auth::HeaderSliceError) -> NErr {
    match e {
        err::ip_auth::HeaderSliceError::Len(l) => nlen(l),
        err::ip_auth::HeaderSliceError::Content(c) => c_auth_v4(c),
    }
}
pub fn n_tcp_slice_error(e: &err::tcp::HeaderSliceError) -> NErr {
    match e {
        err::tcp::HeaderSliceError::Len(l) => nlen(l),
        err::tcp::HeaderSliceError::Content(c) => c_tcp(c),
    }
}
pub fn n_macsec_slice_error(e: &err::macsec::HeaderSliceError) -> NErr {
    match e {
        err::macsec::HeaderSliceError::Len(l) => nlen(l),
        err::macsec::HeaderSliceError::Content(c) => c_macsec(c),
    }
}
pub fn n_sll_slice_error(e: &err::linux_sll::HeaderSliceError) -> NErr {
    match e {
        err::linux_sll::HeaderSliceError::Len(l) => nlen(l),
        err::linux_sll::HeaderSliceError::Content(c) => c_sll(c),
    }
}

// ------------------------------------------------------------------------------------------------
// per-layer adapters: slices
// ------------------------------------------------------------------------------------------------

pub fn sll_pkind(p: &LinuxSllProtocolType) -> (u8, u16) {
    match p {
        LinuxSllProtocolType::Ignored(v) => (0, *v),
        LinuxSllProtocolType::NetlinkProtocolType(v) => (1, *v),
        LinuxSllProtocolType::GenericRoutingEncapsulationProtocolType(v) => (2, *v),
        LinuxSllProtocolType::EtherType(v) => (3, v.0),
        // see refmodel::pkt::sll — R does not distinguish the two ether type flavours
        LinuxSllProtocolType::LinuxNonstandardEtherType(v) => (3, (*v).into()),
    }
}

pub fn l_eth(cx: &mut Cx, s: &Ethernet2Slice) -> NLayer {
    let o = cx.off(s.slice(), "Ethernet2Slice::slice");
    let mut l = NLayer::new(Kind::Eth, o);
    l.blob("dst", &s.destination());
    l.blob("src", &s.source());
    l.p("ety", s.ether_type().0);
    let p = s.payload();
    l.pu("~pay_off", cx.off(p.payload, "Ethernet2Slice::payload"));
    l.pu("~pay_len", p.payload.len());
    cx.touch(s.header_slice(), "Ethernet2Slice::header_slice");
    cx.touch(s.payload_slice(), "Ethernet2Slice::payload_slice");
    cx.calls(8);
    l
}

pub fn l_eth_hdr(h: &Ethernet2Header) -> NLayer {
    let mut l = NLayer::new(Kind::Eth, NO_OFF);
    l.blob("dst", &h.destination);
    l.blob("src", &h.source);
    l.p("ety", h.ether_type.0);
    l
}

pub fn l_sll(cx: &mut Cx, s: &LinuxSllSlice) -> NLayer {
    let o = cx.off(s.slice(), "LinuxSllSlice::slice");
    let mut l = NLayer::new(Kind::Sll, o);
    l.p("ptype", u16::from(s.packet_type()));
    l.p("hrd", s.arp_hardware_type().0);
    l.p("alen", s.sender_address_valid_length());
    l.blob("addr", &s.sender_address_full());
    // the valid part of the address field (at most the 8 octets the field has)
    l.blob("~saddr", s.sender_address());
    let (k, v) = sll_pkind(&s.protocol_type());
    l.p("proto", v);
    l.p("pkind", k);
    let p = s.payload();
    l.pu("~pay_off", cx.off(p.payload, "LinuxSllSlice::payload"));
    l.pu("~pay_len", p.payload.len());
    cx.touch(s.header_slice(), "LinuxSllSlice::header_slice");
    cx.touch(s.payload_slice(), "LinuxSllSlice::payload_slice");
    cx.touch(s.sender_address(), "LinuxSllSlice::sender_address");
    cx.calls(11);
    l
}

pub fn l_sll_hdr(h: &LinuxSllHeader) -> NLayer {
    let mut l = NLayer::new(Kind::Sll, NO_OFF);
    l.p("ptype", u16::from(h.packet_type));
    l.p("hrd", h.arp_hrd_type.0);
    l.p("alen", h.sender_address_valid_length);
    l.blob("addr", &h.sender_address);
    let (k, v) = sll_pkind(&h.protocol_type);
    l.p("proto", v);
    l.p("pkind", k);
    l
}

pub fn l_ether_start(cx: &mut Cx, p: &EtherPayloadSlice) -> NLayer {
    let mut l = NLayer::new(Kind::EtherStart, 0);
    l.p("ety", p.ether_type.0);
    l.pu("~pay_off", cx.off(p.payload, "EtherPayloadSlice::payload"));
    l.pu("~pay_len", p.payload.len());
    l
}

pub fn l_vlan(cx: &mut Cx, s: &SingleVlanSlice) -> NLayer {
    let o = cx.off(s.slice(), "SingleVlanSlice::slice");
    let mut l = NLayer::new(Kind::Vlan, o);
    l.p("pcp", s.priority_code_point().value());
    l.pb("dei", s.drop_eligible_indicator());
    l.p("vid", s.vlan_identifier().value());
    l.p("ety", s.ether_type().0);
    let p = s.payload();
    l.pu("~pay_off", cx.off(p.payload, "SingleVlanSlice::payload"));
    l.pu("~pay_len", p.payload.len());
    cx.touch(s.header_slice(), "SingleVlanSlice::header_slice");
    cx.touch(s.payload_slice(), "SingleVlanSlice::payload_slice");
    cx.calls(8);
    l
}

pub fn l_vlan_hdr(h: &SingleVlanHeader) -> NLayer {
    let mut l = NLayer::new(Kind::Vlan, NO_OFF);
    l.p("pcp", h.pcp.value());
    l.pb("dei", h.drop_eligible_indicator);
    l.p("vid", h.vlan_id.value());
    l.p("ety", h.ether_type.0);
    l
}

fn macsec_hdr_fields(cx: &mut Cx, l: &mut NLayer, h: &MacsecHeaderSlice) {
    cx.touch(h.slice(), "MacsecHeaderSlice::slice");
    l.pu("hlen", h.header_len());
    l.pb("es", h.endstation_id());
    l.pb("sc", h.sci_present());
    l.pb("scb", h.tci_scb());
    l.pb("e", h.encrypted());
    l.pb("c", h.userdata_changed());
    l.p("an", h.an().value());
    l.p("sl", h.short_len().value());
    l.p("pn", h.packet_nr());
    l.p("sci", h.sci().unwrap_or(0));
    let n = h.next_ether_type();
    l.pb("has_next", n.is_some());
    l.p("next_ety", n.map(|e| e.0).unwrap_or(0));
    cx.calls(12);
}

pub fn l_macsec(cx: &mut Cx, s: &MacsecSlice) -> NLayer {
    let o = cx.off(s.header.slice(), "MacsecSlice::header");
    let mut l = NLayer::new(Kind::Macsec, o);
    macsec_hdr_fields(cx, &mut l, &s.header);
    match &s.payload {
        MacsecPayloadSlice::Unmodified(e) => {
            l.pu("~pay_off", cx.off(e.payload, "MacsecSlice::payload"));
            l.pu("~pay_len", e.payload.len());
            l.p("~pay_src", src(e.len_source) as u8);
        }
        MacsecPayloadSlice::Modified(p) => {
            l.pu("~pay_off", cx.off(p, "MacsecSlice::payload(mod)"));
            l.pu("~pay_len", p.len());
            // a modified payload carries no length source; derived from the header
            let sl = s.header.short_len().value();
            l.p(
                "~pay_src",
                if sl == 0 { Src::Slice } else { Src::MacsecShort } as u8,
            );
        }
    }
    l
}

pub fn l_lax_macsec(cx: &mut Cx, s: &LaxMacsecSlice) -> NLayer {
    let o = cx.off(s.header.slice(), "LaxMacsecSlice::header");
    let mut l = NLayer::new(Kind::Macsec, o);
    macsec_hdr_fields(cx, &mut l, &s.header);
    match &s.payload {
        LaxMacsecPayloadSlice::Unmodified(e) => {
            l.pu("~pay_off", cx.off(e.payload, "LaxMacsecSlice::payload"));
            l.pu("~pay_len", e.payload.len());
            l.p("~pay_src", src(e.len_source) as u8);
            l.pb("~incomplete", e.incomplete);
        }
        LaxMacsecPayloadSlice::Modified { incomplete, payload } => {
            l.pu("~pay_off", cx.off(payload, "LaxMacsecSlice::payload(mod)"));
            l.pu("~pay_len", payload.len());
            let sl = s.header.short_len().value();
            l.p(
                "~pay_src",
                if sl == 0 || *incomplete {
                    Src::Slice
                } else {
                    Src::MacsecShort
                } as u8,
            );
            l.pb("~incomplete", *incomplete);
        }
    }
    l
}

pub fn l_macsec_hdr(h: &MacsecHeader) -> NLayer {
    let mut l = NLayer::new(Kind::Macsec, NO_OFF);
    l.pu("hlen", h.header_len());
    l.pb("es", h.endstation_id);
    l.pb("sc", h.sci.is_some());
    l.pb("scb", h.scb);
    l.pb("e", h.encrypted());
    l.pb("c", h.userdata_changed());
    l.p("an", h.an.value());
    l.p("sl", h.short_len.value());
    l.p("pn", h.packet_nr);
    l.p("sci", h.sci.unwrap_or(0));
    let n = h.next_ether_type();
    l.pb("has_next", n.is_some());
    l.p("next_ety", n.map(|e| e.0).unwrap_or(0));
    l
}

pub fn l_arp(cx: &mut Cx, s: &ArpPacketSlice) -> NLayer {
    let o = cx.off(s.slice(), "ArpPacketSlice::slice");
    let mut l = NLayer::new(Kind::Arp, o);
    l.p("hrd", s.hw_addr_type().0);
    l.p("pro", s.proto_addr_type().0);
    l.p("hlen", s.hw_addr_size());
    l.p("plen", s.proto_addr_size());
    l.p("op", s.operation().0);
    cx.touch(s.sender_hw_addr(), "ArpPacketSlice::sender_hw_addr");
    cx.touch(s.sender_protocol_addr(), "ArpPacketSlice::sender_protocol_addr");
    cx.touch(s.target_hw_addr(), "ArpPacketSlice::target_hw_addr");
    cx.touch(s.target_protocol_addr(), "ArpPacketSlice::target_protocol_addr");
    l.blob("sha", s.sender_hw_addr());
    l.blob("spa", s.sender_protocol_addr());
    l.blob("tha", s.target_hw_addr());
    l.blob("tpa", s.target_protocol_addr());
    l.pu("~total_len", s.slice().len());
    cx.calls(10);
    l
}

pub fn l_arp_pkt(p: &ArpPacket) -> NLayer {
    let mut l = NLayer::new(Kind::Arp, NO_OFF);
    l.p("hrd", p.hw_addr_type.0);
    l.p("pro", p.proto_addr_type.0);
    l.p("hlen", p.hw_addr_size());
    l.p("plen", p.protocol_addr_size());
    l.p("op", p.operation.0);
    l.blob("sha", p.sender_hw_addr());
    l.blob("spa", p.sender_protocol_addr());
    l.blob("tha", p.target_hw_addr());
    l.blob("tpa", p.target_protocol_addr());
    l.pu("~total_len", p.packet_len());
    l
}

pub fn ipv4_hdr_fields(cx: &mut Cx, l: &mut NLayer, h: &Ipv4HeaderSlice) {
    l.p("ihl", h.ihl());
    l.p("dscp", h.dcp().value());
    l.p("ecn", h.ecn().value());
    l.p("total_len", h.total_len());
    l.p("id", h.identification());
    l.pb("df", h.dont_fragment());
    l.pb("mf", h.more_fragments());
    l.p("frag_off", h.fragments_offset().value());
    l.p("ttl", h.ttl());
    l.p("proto", h.protocol().0);
    l.p("csum", h.header_checksum());
    l.blob("src", &h.source());
    l.blob("dst", &h.destination());
    cx.touch(h.options(), "Ipv4HeaderSlice::options");
    l.blob("options", h.options());
    cx.calls(15);
}

pub fn ipv4_hdr_struct_fields(l: &mut NLayer, h: &Ipv4Header) {
    l.p("ihl", h.ihl());
    l.p("dscp", h.dscp.value());
    l.p("ecn", h.ecn.value());
    l.p("total_len", h.total_len);
    l.p("id", h.identification);
    l.pb("df", h.dont_fragment);
    l.pb("mf", h.more_fragments);
    l.p("frag_off", h.fragment_offset.value());
    l.p("ttl", h.time_to_live);
    l.p("proto", h.protocol.0);
    l.p("csum", h.header_checksum);
    l.blob("src", &h.source);
    l.blob("dst", &h.destination);
    l.blob("options", h.options.as_slice());
}

pub fn l_ah(cx: &mut Cx, a: &IpAuthHeaderSlice) -> NLayer {
    let o = cx.off(a.slice(), "IpAuthHeaderSlice::slice");
    let mut l = NLayer::new(Kind::ExtAh, o);
    l.p("next", a.next_header().0);
    l.p("spi", a.spi());
    l.p("seq", a.sequence_number());
    l.pu("len", a.slice().len());
    cx.touch(a.raw_icv(), "IpAuthHeaderSlice::raw_icv");
    l.blob("icv", a.raw_icv());
    cx.calls(6);
    l
}

pub fn l_ah_hdr(a: &IpAuthHeader) -> NLayer {
    let mut l = NLayer::new(Kind::ExtAh, NO_OFF);
    l.p("next", a.next_header.0);
    l.p("spi", a.spi);
    l.p("seq", a.sequence_number);
    l.pu("len", a.header_len());
    l.blob("icv", a.raw_icv());
    l
}

pub fn l_raw_ext(cx: &mut Cx, kind: Kind, r: &Ipv6RawExtHeaderSlice) -> NLayer {
    let o = cx.off(r.slice(), "Ipv6RawExtHeaderSlice::slice");
    let mut l = NLayer::new(kind, o);
    l.p("next", r.next_header().0);
    l.pu("len", r.slice().len());
    cx.touch(r.payload(), "Ipv6RawExtHeaderSlice::payload");
    l.blob("payload", r.payload());
    cx.calls(4);
    l
}

pub fn l_raw_ext_hdr(kind: Kind, r: &Ipv6RawExtHeader) -> NLayer {
    let mut l = NLayer::new(kind, NO_OFF);
    l.p("next", r.next_header.0);
    l.pu("len", r.header_len());
    l.blob("payload", r.payload());
    l
}

pub fn l_frag(cx: &mut Cx, f: &Ipv6FragmentHeaderSlice) -> NLayer {
    let o = cx.off(f.slice(), "Ipv6FragmentHeaderSlice::slice");
    let mut l = NLayer::new(Kind::ExtFrag, o);
    l.p("next", f.next_header().0);
    l.p("frag_off", f.fragment_offset().value());
    l.pb("mf", f.more_fragments());
    l.p("id", f.identification());
    cx.calls(5);
    l
}

pub fn l_frag_hdr(f: &Ipv6FragmentHeader) -> NLayer {
    let mut l = NLayer::new(Kind::ExtFrag, NO_OFF);
    l.p("next", f.next_header.0);
    l.p("frag_off", f.fragment_offset.value());
    l.pb("mf", f.more_fragments);
    l.p("id", f.identification);
    l
}

pub fn ipv6_hdr_fields(cx: &mut Cx, l: &mut NLayer, h: &Ipv6HeaderSlice) {
    cx.touch(h.slice(), "Ipv6HeaderSlice::slice");
    l.p("tc", h.traffic_class());
    l.p("flow", h.flow_label().value());
    l.p("plen", h.payload_length());
    l.p("next", h.next_header().0);
    l.p("hop", h.hop_limit());
    l.blob("src", &h.source());
    l.blob("dst", &h.destination());
    cx.calls(8);
}

pub fn ipv6_hdr_struct_fields(l: &mut NLayer, h: &Ipv6Header) {
    l.p("tc", h.traffic_class);
    l.p("flow", h.flow_label.value());
    l.p("plen", h.payload_length);
    l.p("next", h.next_header.0);
    l.p("hop", h.hop_limit);
    l.blob("src", &h.source);
    l.blob("dst", &h.destination);
}

/// walks an extension slice with the crate's own iterator; `max` bounds the number of items
/// (step budget, C02). Returns the layers and whether the budget was exceeded.
pub fn ipv6_ext_layers(cx: &mut Cx, exts: &Ipv6ExtensionsSlice, out: &mut Vec<NLayer>) -> bool {
    let budget = exts.slice().len() / 8 + 2;
    let mut n = 0usize;
    for e in exts.clone().into_iter() {
        n += 1;
        if n > budget {
            return true;
        }
        out.push(match &e {
            Ipv6ExtensionSlice::HopByHop(r) => l_raw_ext(cx, Kind::ExtHbh, r),
            Ipv6ExtensionSlice::Routing(r) => l_raw_ext(cx, Kind::ExtRoute, r),
            Ipv6ExtensionSlice::DestinationOptions(r) => l_raw_ext(cx, Kind::ExtDest, r),
            Ipv6ExtensionSlice::Fragment(f) => l_frag(cx, f),
            Ipv6ExtensionSlice::Authentication(a) => l_ah(cx, a),
        });
    }
    false
}

pub fn ip_payload_fields(cx: &mut Cx, l: &mut NLayer, p: &IpPayloadSlice) {
    l.p("pay_num", p.ip_number.0);
    l.pb("fragmented", p.fragmented);
    l.pu("~pay_off", cx.off(p.payload, "IpPayloadSlice::payload"));
    l.pu("~pay_len", p.payload.len());
    l.p("pay_src", src(p.len_source) as u8);
}

pub fn lax_ip_payload_fields(cx: &mut Cx, l: &mut NLayer, p: &LaxIpPayloadSlice) {
    l.p("pay_num", p.ip_number.0);
    l.pb("fragmented", p.fragmented);
    l.pu("~pay_off", cx.off(p.payload, "LaxIpPayloadSlice::payload"));
    l.pu("~pay_len", p.payload.len());
    l.p("pay_src", src(p.len_source) as u8);
    l.pb("~incomplete", p.incomplete);
}

/// Ipv4Slice -> [Ipv4, (ExtAh)]
pub fn ls_ipv4(cx: &mut Cx, s: &Ipv4Slice, out: &mut Vec<NLayer>) {
    let h = s.header();
    let o = cx.off(h.slice(), "Ipv4Slice::header");
    let mut l = NLayer::new(Kind::Ipv4, o);
    ipv4_hdr_fields(cx, &mut l, &h);
    ip_payload_fields(cx, &mut l, s.payload());
    // the redundant accessors must agree with the payload struct
    if s.payload_ip_number() != s.payload().ip_number || s.is_payload_fragmented() != s.payload().fragmented {
        l.p("accessor_mismatch", 1u8);
    }
    let ip: IpSlice = s.clone().into();
    l.p("~hdr_pay_num", ip.header().payload_ip_number().0);
    out.push(l);
    if let Some(a) = s.extensions().auth {
        out.push(l_ah(cx, &a));
    }
}

pub fn ls_lax_ipv4(cx: &mut Cx, s: &LaxIpv4Slice, out: &mut Vec<NLayer>) {
    let h = s.header();
    let o = cx.off(h.slice(), "LaxIpv4Slice::header");
    let mut l = NLayer::new(Kind::Ipv4, o);
    ipv4_hdr_fields(cx, &mut l, &h);
    lax_ip_payload_fields(cx, &mut l, s.payload());
    if s.payload_ip_number() != s.payload().ip_number || s.is_payload_fragmented() != s.payload().fragmented {
        l.p("accessor_mismatch", 1u8);
    }
    out.push(l);
    if let Some(a) = s.extensions().auth {
        out.push(l_ah(cx, &a));
    }
}

/// Ipv6Slice -> [Ipv6, exts…]; returns true if the extension iterator exceeded its step budget
pub fn ls_ipv6(cx: &mut Cx, s: &Ipv6Slice, out: &mut Vec<NLayer>) -> bool {
    let h = s.header();
    let o = cx.off(h.slice(), "Ipv6Slice::header");
    let mut l = NLayer::new(Kind::Ipv6, o);
    ipv6_hdr_fields(cx, &mut l, &h);
    ip_payload_fields(cx, &mut l, s.payload());
    l.pu("~exts_len", s.extensions().slice().len());
    cx.touch(s.extensions().slice(), "Ipv6ExtensionsSlice::slice");
    if s.is_payload_fragmented() != s.payload().fragmented {
        l.p("accessor_mismatch", 1u8);
    }
    // the same number through the header view of the slice (IpSlice::header())
    let ip: IpSlice = s.clone().into();
    l.p("~hdr_pay_num", ip.header().payload_ip_number().0);
    out.push(l);
    ipv6_ext_layers(cx, s.extensions(), out)
}

pub fn ls_lax_ipv6(cx: &mut Cx, s: &LaxIpv6Slice, out: &mut Vec<NLayer>) -> bool {
    let h = s.header();
    let o = cx.off(h.slice(), "LaxIpv6Slice::header");
    let mut l = NLayer::new(Kind::Ipv6, o);
    ipv6_hdr_fields(cx, &mut l, &h);
    lax_ip_payload_fields(cx, &mut l, s.payload());
    l.pu("~exts_len", s.extensions().slice().len());
    cx.touch(s.extensions().slice(), "Ipv6ExtensionsSlice::slice");
    if s.is_payload_fragmented() != s.payload().fragmented {
        l.p("accessor_mismatch", 1u8);
    }
    out.push(l);
    ipv6_ext_layers(cx, s.extensions(), out)
}

/// owned IPv4 header + extensions -> [Ipv4, (ExtAh)]
pub fn ls_ipv4_hdr(h: &Ipv4Header, e: &Ipv4Extensions, out: &mut Vec<NLayer>) {
    let mut l = NLayer::new(Kind::Ipv4, NO_OFF);
    ipv4_hdr_struct_fields(&mut l, h);
    out.push(l);
    if let Some(a) = &e.auth {
        out.push(l_ah_hdr(a));
    }
}

/// owned IPv6 header + extensions. The struct does not keep the order of the headers; they are
/// listed in the struct's canonical order (monitors that compare with a chain sort both sides).
pub fn ls_ipv6_hdr(h: &Ipv6Header, e: &Ipv6Extensions, out: &mut Vec<NLayer>) {
    let mut l = NLayer::new(Kind::Ipv6, NO_OFF);
    ipv6_hdr_struct_fields(&mut l, h);
    out.push(l);
    if let Some(x) = &e.hop_by_hop_options {
        out.push(l_raw_ext_hdr(Kind::ExtHbh, x));
    }
    if let Some(x) = &e.destination_options {
        out.push(l_raw_ext_hdr(Kind::ExtDest, x));
    }
    if let Some(r) = &e.routing {
        out.push(l_raw_ext_hdr(Kind::ExtRoute, &r.routing));
        if let Some(x) = &r.final_destination_options {
            out.push(l_raw_ext_hdr(Kind::ExtDest, x));
        }
    }
    if let Some(x) = &e.fragment {
        out.push(l_frag_hdr(x));
    }
    if let Some(x) = &e.auth {
        out.push(l_ah_hdr(x));
    }
}

pub fn l_udp(cx: &mut Cx, u: &UdpSlice) -> NLayer {
    let o = cx.off(u.slice(), "UdpSlice::slice");
    let mut l = NLayer::new(Kind::Udp, o);
    l.p("sport", u.source_port());
    l.p("dport", u.destination_port());
    l.p("len", u.length());
    l.p("csum", u.checksum());
    l.pu("~pay_off", cx.off(u.payload(), "UdpSlice::payload"));
    l.pu("~pay_len", u.payload().len());
    l.p("~udp_src", src(u.payload_len_source()) as u8);
    cx.touch(u.header_slice(), "UdpSlice::header_slice");
    cx.calls(8);
    l
}

pub fn l_udp_hdr(u: &UdpHeader) -> NLayer {
    let mut l = NLayer::new(Kind::Udp, NO_OFF);
    l.p("sport", u.source_port);
    l.p("dport", u.destination_port);
    l.p("len", u.length);
    l.p("csum", u.checksum);
    l
}

pub fn l_tcp(cx: &mut Cx, t: &TcpSlice) -> NLayer {
    let o = cx.off(t.slice(), "TcpSlice::slice");
    let mut l = NLayer::new(Kind::Tcp, o);
    l.p("sport", t.source_port());
    l.p("dport", t.destination_port());
    l.p("seq", t.sequence_number());
    l.p("ack", t.acknowledgment_number());
    l.p("doff", t.data_offset());
    l.pb("ns", t.ns());
    l.pb("fin", t.fin());
    l.pb("syn", t.syn());
    l.pb("rst", t.rst());
    l.pb("psh", t.psh());
    l.pb("ackf", t.ack());
    l.pb("urg", t.urg());
    l.pb("ece", t.ece());
    l.pb("cwr", t.cwr());
    l.p("win", t.window_size());
    l.p("csum", t.checksum());
    l.p("urgp", t.urgent_pointer());
    cx.touch(t.options(), "TcpSlice::options");
    l.blob("options", t.options());
    l.pu("~pay_off", cx.off(t.payload(), "TcpSlice::payload"));
    l.pu("~pay_len", t.payload().len());
    cx.touch(t.header_slice(), "TcpSlice::header_slice");
    cx.calls(22);
    l
}

pub fn l_tcp_hdr(t: &TcpHeader) -> NLayer {
    let mut l = NLayer::new(Kind::Tcp, NO_OFF);
    l.p("sport", t.source_port);
    l.p("dport", t.destination_port);
    l.p("seq", t.sequence_number);
    l.p("ack", t.acknowledgment_number);
    l.p("doff", t.data_offset());
    l.pb("ns", t.ns);
    l.pb("fin", t.fin);
    l.pb("syn", t.syn);
    l.pb("rst", t.rst);
    l.pb("psh", t.psh);
    l.pb("ackf", t.ack);
    l.pb("urg", t.urg);
    l.pb("ece", t.ece);
    l.pb("cwr", t.cwr);
    l.p("win", t.window_size);
    l.p("csum", t.checksum);
    l.p("urgp", t.urgent_pointer);
    l.blob("options", t.options.as_slice());
    l
}

pub fn l_icmp4(cx: &mut Cx, s: &Icmpv4Slice) -> NLayer {
    let o = cx.off(s.slice(), "Icmpv4Slice::slice");
    let mut l = NLayer::new(Kind::Icmp4, o);
    l.p("ty", s.type_u8());
    l.p("code", s.code_u8());
    l.p("csum", s.checksum());
    l.blob("~b58", &s.bytes5to8());
    l.pu("~slice_len", s.slice().len());
    l.pu("~pay_off", cx.off(s.payload(), "Icmpv4Slice::payload"));
    l.pu("~pay_len", s.payload().len());
    cx.calls(7);
    l
}

pub fn l_icmp4_hdr(h: &Icmpv4Header) -> NLayer {
    let b = h.to_bytes();
    let mut l = NLayer::new(Kind::Icmp4, NO_OFF);
    l.p("ty", b[0]);
    l.p("code", b[1]);
    l.p("csum", h.checksum);
    l
}

pub fn l_icmp6(cx: &mut Cx, s: &Icmpv6Slice) -> NLayer {
    let o = cx.off(s.slice(), "Icmpv6Slice::slice");
    let mut l = NLayer::new(Kind::Icmp6, o);
    l.p("ty", s.type_u8());
    l.p("code", s.code_u8());
    l.p("csum", s.checksum());
    l.blob("~b58", &s.bytes5to8());
    l.pu("~slice_len", s.slice().len());
    l.pu("~pay_off", cx.off(s.payload(), "Icmpv6Slice::payload"));
    l.pu("~pay_len", s.payload().len());
    cx.calls(7);
    l
}

pub fn l_icmp6_hdr(h: &Icmpv6Header) -> NLayer {
    let b = h.to_bytes();
    let mut l = NLayer::new(Kind::Icmp6, NO_OFF);
    l.p("ty", b[0]);
    l.p("code", b[1]);
    l.p("csum", h.checksum);
    l
}

pub fn l_transport(cx: &mut Cx, t: &TransportSlice) -> NLayer {
    match t {
        TransportSlice::Udp(u) => l_udp(cx, u),
        TransportSlice::Tcp(t) => l_tcp(cx, t),
        TransportSlice::Icmpv4(i) => l_icmp4(cx, i),
        TransportSlice::Icmpv6(i) => l_icmp6(cx, i),
    }
}

pub fn l_transport_hdr(t: &TransportHeader) -> NLayer {
    match t {
        TransportHeader::Udp(u) => l_udp_hdr(u),
        TransportHeader::Tcp(t) => l_tcp_hdr(t),
        TransportHeader::Icmpv4(i) => l_icmp4_hdr(i),
        TransportHeader::Icmpv6(i) => l_icmp6_hdr(i),
    }
}
