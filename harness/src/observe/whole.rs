//! Whole-packet adapters: SlicedPacket / LaxSlicedPacket / PacketHeaders / LaxPacketHeaders
//! and the IP-level slicers -> neutral form.

use super::*;

/// the payload that remains behind the last decoded header
#[derive(Clone, Debug, PartialEq, Eq)]
pub struct NPay {
    /// empty | ether | macsec_mod | ip | udp | tcp | icmpv4 | icmpv6 | sll | none
    pub kind: &'static str,
    pub off: usize,
    pub len: usize,
    /// ether type / ip number where the payload carries one
    pub num: Option<u16>,
    pub src: Option<Src>,
    pub fragmented: Option<bool>,
    pub incomplete: Option<bool>,
}

impl NPay {
    pub fn none() -> NPay {
        NPay {
            kind: "none",
            off: 0,
            len: 0,
            num: None,
            src: None,
            fragmented: None,
            incomplete: None,
        }
    }
}

pub struct Whole {
    pub out: NOut,
    pub pay: NPay,
    /// what the packet-level accessor methods answer (`ether_payload()`, `ip_payload()`,
    /// `vlan_ids()`, `is_ip_payload_fragmented()`, `payload_ether_type()`): name -> value
    pub acc: Vec<(&'static str, u128)>,
    /// an iterator exceeded its step budget (C02)
    pub budget_exceeded: bool,
}

fn link_layer(cx: &mut Cx, l: &LinkSlice, layers: &mut Vec<NLayer>) {
    match l {
        LinkSlice::Ethernet2(e) => layers.push(l_eth(cx, e)),
        LinkSlice::LinuxSll(s) => layers.push(l_sll(cx, s)),
        LinkSlice::EtherPayload(p) => layers.push(l_ether_start(cx, p)),
        LinkSlice::LinuxSllPayload(p) => {
            // not produced by any parser entry point; observed for completeness
            let mut n = NLayer::new(Kind::Sll, NO_OFF);
            let (k, v) = sll_pkind(&p.protocol_type);
            n.p("proto", v);
            n.p("pkind", k);
            n.pu("~pay_off", cx.off(p.payload, "LinuxSllPayloadSlice::payload"));
            layers.push(n);
        }
    }
}

pub fn sliced(input: &[u8], p: &SlicedPacket) -> Whole {
    let mut cx = Cx::new(input);
    let w = sliced_cx(&mut cx, p);
    debug_assert!(cx.bad.is_empty());
    w
}

pub fn sliced_cx(cx: &mut Cx, p: &SlicedPacket) -> Whole {
    let mut layers = Vec::with_capacity(8);
    let mut budget = false;
    let mut pay = NPay::none();
    if let Some(l) = &p.link {
        link_layer(cx, l, &mut layers);
        match l {
            LinkSlice::Ethernet2(e) => {
                let ep = e.payload();
                pay = NPay {
                    kind: "ether",
                    off: cx.off(ep.payload, "eth payload"),
                    len: ep.payload.len(),
                    num: Some(ep.ether_type.0),
                    src: Some(src(ep.len_source)),
                    fragmented: None,
                    incomplete: None,
                };
            }
            LinkSlice::LinuxSll(s) => {
                let sp = s.payload();
                let (k, v) = sll_pkind(&sp.protocol_type);
                pay = NPay {
                    kind: if k == 3 && !crate::refmodel::pkt::LINUX_NONSTANDARD.contains(&v) {
                        "ether"
                    } else {
                        "sll"
                    },
                    off: cx.off(sp.payload, "sll payload"),
                    len: sp.payload.len(),
                    num: Some(v),
                    src: Some(Src::Slice),
                    fragmented: None,
                    incomplete: None,
                };
            }
            LinkSlice::EtherPayload(ep) => {
                pay = NPay {
                    kind: "ether",
                    off: cx.off(ep.payload, "ether payload"),
                    len: ep.payload.len(),
                    num: Some(ep.ether_type.0),
                    src: Some(src(ep.len_source)),
                    fragmented: None,
                    incomplete: None,
                };
            }
            LinkSlice::LinuxSllPayload(_) => {}
        }
    }
    for e in &p.link_exts {
        match e {
            LinkExtSlice::Vlan(v) => {
                layers.push(l_vlan(cx, v));
                let ep = v.payload();
                pay = NPay {
                    kind: "ether",
                    off: cx.off(ep.payload, "vlan payload"),
                    len: ep.payload.len(),
                    num: Some(ep.ether_type.0),
                    src: None,
                    fragmented: None,
                    incomplete: None,
                };
            }
            LinkExtSlice::Macsec(m) => {
                layers.push(l_macsec(cx, m));
                match &m.payload {
                    MacsecPayloadSlice::Unmodified(ep) => {
                        pay = NPay {
                            kind: "ether",
                            off: cx.off(ep.payload, "macsec payload"),
                            len: ep.payload.len(),
                            num: Some(ep.ether_type.0),
                            src: None,
                            fragmented: None,
                            incomplete: None,
                        };
                    }
                    MacsecPayloadSlice::Modified(s) => {
                        pay = NPay {
                            kind: "macsec_mod",
                            off: cx.off(s, "macsec mod payload"),
                            len: s.len(),
                            num: None,
                            src: None,
                            fragmented: None,
                            incomplete: None,
                        };
                    }
                }
            }
        }
    }
    if let Some(n) = &p.net {
        match n {
            NetSlice::Ipv4(s) => {
                ls_ipv4(cx, s, &mut layers);
                let ip = s.payload();
                pay = NPay {
                    kind: "ip",
                    off: cx.off(ip.payload, "ip payload"),
                    len: ip.payload.len(),
                    num: Some(ip.ip_number.0 as u16),
                    src: Some(src(ip.len_source)),
                    fragmented: Some(ip.fragmented),
                    incomplete: None,
                };
            }
            NetSlice::Ipv6(s) => {
                budget |= ls_ipv6(cx, s, &mut layers);
                let ip = s.payload();
                pay = NPay {
                    kind: "ip",
                    off: cx.off(ip.payload, "ip payload"),
                    len: ip.payload.len(),
                    num: Some(ip.ip_number.0 as u16),
                    src: Some(src(ip.len_source)),
                    fragmented: Some(ip.fragmented),
                    incomplete: None,
                };
            }
            NetSlice::Arp(a) => {
                layers.push(l_arp(cx, a));
                pay = NPay {
                    kind: "empty",
                    off: 0,
                    len: 0,
                    num: None,
                    src: None,
                    fragmented: None,
                    incomplete: None,
                };
            }
        }
    }
    if let Some(t) = &p.transport {
        layers.push(l_transport(cx, t));
        let (kind, s): (&'static str, &[u8]) = match t {
            TransportSlice::Udp(u) => ("udp", u.payload()),
            TransportSlice::Tcp(t) => ("tcp", t.payload()),
            TransportSlice::Icmpv4(i) => ("icmpv4", i.payload()),
            TransportSlice::Icmpv6(i) => ("icmpv6", i.payload()),
        };
        pay = NPay {
            kind,
            off: cx.off(s, "transport payload"),
            len: s.len(),
            num: None,
            src: None,
            fragmented: None,
            incomplete: None,
        };
    }
    let mut acc: Vec<(&'static str, u128)> = Vec::new();
    if let Some(e) = p.ether_payload() {
        acc.push(("ether.ety", e.ether_type.0 as u128));
        acc.push(("ether.off", cx.off(e.payload, "SlicedPacket::ether_payload") as u128));
        acc.push(("ether.len", e.payload.len() as u128));
        acc.push(("ether.src", src(e.len_source).bit() as u128));
    }
    if let Some(ety) = p.payload_ether_type() {
        acc.push(("payload_ether_type", ety.0 as u128));
    }
    if let Some(i) = p.ip_payload() {
        acc.push(("ip.num", i.ip_number.0 as u128));
        acc.push(("ip.off", cx.off(i.payload, "SlicedPacket::ip_payload") as u128));
        acc.push(("ip.len", i.payload.len() as u128));
        acc.push(("ip.src", src(i.len_source).bit() as u128));
        acc.push(("ip.frag", i.fragmented as u128));
    }
    acc.push(("is_ip_payload_fragmented", p.is_ip_payload_fragmented() as u128));
    acc.push(("vlan_ids", p.vlan_ids().iter().fold(1u128, |a, v| (a << 16) | v.value() as u128)));
    // redundant views must agree with the fields they are views of (1 = consistent)
    {
        let mut ok = true;
        if let Some(n) = &p.net {
            ok &= n.is_ip() == matches!(n, NetSlice::Ipv4(_) | NetSlice::Ipv6(_));
            ok &= match (n.ip_payload_ref(), p.ip_payload()) {
                (Some(a), Some(b)) => a.payload.as_ptr() == b.payload.as_ptr() && a.payload.len() == b.payload.len() && a.ip_number == b.ip_number && a.fragmented == b.fragmented,
                (None, None) => true,
                _ => false,
            };
            ok &= n.ipv4_ref().is_some() == matches!(n, NetSlice::Ipv4(_)) && n.ipv6_ref().is_some() == matches!(n, NetSlice::Ipv6(_)) && n.arp_ref().is_some() == matches!(n, NetSlice::Arp(_));
        }
        if let Some(l) = &p.link {
            if let LinkSlice::LinuxSll(s) = l {
                let sp = l.sll_payload();
                ok &= sp.payload.as_ptr() == s.payload().payload.as_ptr() && sp.payload.len() == s.payload().payload.len() && sp.protocol_type == s.payload().protocol_type;
            }
        }
        // vlan(): the two outermost VLAN tags
        let tags: Vec<(u16, u16)> = p.link_exts.iter().filter_map(|e| if let LinkExtSlice::Vlan(v) = e { Some((v.vlan_identifier().value(), v.ether_type().0)) } else { None }).collect();
        ok &= match (p.vlan(), tags.len()) {
            (None, 0) => true,
            (Some(VlanSlice::SingleVlan(s)), 1) => (s.vlan_identifier().value(), s.ether_type().0) == tags[0],
            (Some(VlanSlice::DoubleVlan(d)), n) if n >= 2 => (d.outer.vlan_identifier().value(), d.outer.ether_type().0) == tags[0] && (d.inner.vlan_identifier().value(), d.inner.ether_type().0) == tags[1],
            _ => false,
        };
        acc.push(("views_consistent", ok as u128));
    }
    Whole {
        out: NOut::ok(layers),
        pay,
        acc,
        budget_exceeded: budget,
    }
}

pub fn lax_sliced_cx(cx: &mut Cx, p: &LaxSlicedPacket) -> Whole {
    let mut layers = Vec::with_capacity(8);
    let mut budget = false;
    let mut pay = NPay::none();
    if let Some(l) = &p.link {
        link_layer(cx, l, &mut layers);
        match l {
            LinkSlice::Ethernet2(e) => {
                let ep = e.payload();
                pay = NPay {
                    kind: "ether",
                    off: cx.off(ep.payload, "eth payload"),
                    len: ep.payload.len(),
                    num: Some(ep.ether_type.0),
                    src: Some(src(ep.len_source)),
                    fragmented: None,
                    incomplete: Some(false),
                };
            }
            LinkSlice::EtherPayload(ep) => {
                pay = NPay {
                    kind: "ether",
                    off: cx.off(ep.payload, "ether payload"),
                    len: ep.payload.len(),
                    num: Some(ep.ether_type.0),
                    src: Some(src(ep.len_source)),
                    fragmented: None,
                    incomplete: Some(false),
                };
            }
            _ => {}
        }
    }
    for e in &p.link_exts {
        match e {
            LaxLinkExtSlice::Vlan(v) => {
                layers.push(l_vlan(cx, v));
                let ep = v.payload();
                pay = NPay {
                    kind: "ether",
                    off: cx.off(ep.payload, "vlan payload"),
                    len: ep.payload.len(),
                    num: Some(ep.ether_type.0),
                    src: None,
                    fragmented: None,
                    incomplete: None,
                };
            }
            LaxLinkExtSlice::Macsec(m) => {
                layers.push(l_lax_macsec(cx, m));
                match &m.payload {
                    LaxMacsecPayloadSlice::Unmodified(ep) => {
                        pay = NPay {
                            kind: "ether",
                            off: cx.off(ep.payload, "macsec payload"),
                            len: ep.payload.len(),
                            num: Some(ep.ether_type.0),
                            src: None,
                            fragmented: None,
                            incomplete: Some(ep.incomplete),
                        };
                    }
                    LaxMacsecPayloadSlice::Modified { incomplete, payload } => {
                        pay = NPay {
                            kind: "macsec_mod",
                            off: cx.off(payload, "macsec mod payload"),
                            len: payload.len(),
                            num: None,
                            src: None,
                            fragmented: None,
                            incomplete: Some(*incomplete),
                        };
                    }
                }
            }
        }
    }
    if let Some(n) = &p.net {
        match n {
            LaxNetSlice::Ipv4(s) => {
                ls_lax_ipv4(cx, s, &mut layers);
                let ip = s.payload();
                pay = NPay {
                    kind: "ip",
                    off: cx.off(ip.payload, "ip payload"),
                    len: ip.payload.len(),
                    num: Some(ip.ip_number.0 as u16),
                    src: Some(src(ip.len_source)),
                    fragmented: Some(ip.fragmented),
                    incomplete: Some(ip.incomplete),
                };
            }
            LaxNetSlice::Ipv6(s) => {
                budget |= ls_lax_ipv6(cx, s, &mut layers);
                let ip = s.payload();
                pay = NPay {
                    kind: "ip",
                    off: cx.off(ip.payload, "ip payload"),
                    len: ip.payload.len(),
                    num: Some(ip.ip_number.0 as u16),
                    src: Some(src(ip.len_source)),
                    fragmented: Some(ip.fragmented),
                    incomplete: Some(ip.incomplete),
                };
            }
            LaxNetSlice::Arp(a) => {
                layers.push(l_arp(cx, a));
                pay = NPay {
                    kind: "empty",
                    off: 0,
                    len: 0,
                    num: None,
                    src: None,
                    fragmented: None,
                    incomplete: None,
                };
            }
        }
    }
    if let Some(t) = &p.transport {
        layers.push(l_transport(cx, t));
        let (kind, s): (&'static str, &[u8]) = match t {
            TransportSlice::Udp(u) => ("udp", u.payload()),
            TransportSlice::Tcp(t) => ("tcp", t.payload()),
            TransportSlice::Icmpv4(i) => ("icmpv4", i.payload()),
            TransportSlice::Icmpv6(i) => ("icmpv6", i.payload()),
        };
        pay = NPay {
            kind,
            off: cx.off(s, "transport payload"),
            len: s.len(),
            num: None,
            src: None,
            fragmented: None,
            incomplete: None,
        };
    }
    let stop = p
        .stop_err
        .as_ref()
        .map(|(e, l)| (n_packet_slice_error(e), lay(*l)));
    let mut acc: Vec<(&'static str, u128)> = Vec::new();
    if let Some(e) = p.ether_payload() {
        acc.push(("ether.ety", e.ether_type.0 as u128));
        acc.push(("ether.off", cx.off(e.payload, "LaxSlicedPacket::ether_payload") as u128));
        acc.push(("ether.len", e.payload.len() as u128));
        acc.push(("ether.src", src(e.len_source).bit() as u128));
        acc.push(("ether.incomplete", e.incomplete as u128));
    }
    if let Some(i) = p.ip_payload() {
        acc.push(("ip.num", i.ip_number.0 as u128));
        acc.push(("ip.off", cx.off(i.payload, "LaxSlicedPacket::ip_payload") as u128));
        acc.push(("ip.len", i.payload.len() as u128));
        acc.push(("ip.src", src(i.len_source).bit() as u128));
        acc.push(("ip.frag", i.fragmented as u128));
        acc.push(("ip.incomplete", i.incomplete as u128));
    }
    acc.push(("vlan_ids", p.vlan_ids().iter().fold(1u128, |a, v| (a << 16) | v.value() as u128)));
    {
        let mut ok = true;
        if let Some(n) = &p.net {
            ok &= match (n.ip_payload_ref(), p.ip_payload()) {
                (Some(a), Some(b)) => a.payload.as_ptr() == b.payload.as_ptr() && a.payload.len() == b.payload.len() && a.ip_number == b.ip_number && a.fragmented == b.fragmented,
                (None, None) => true,
                _ => false,
            };
        }
        let tags: Vec<(u16, u16)> = p.link_exts.iter().filter_map(|e| if let LaxLinkExtSlice::Vlan(v) = e { Some((v.vlan_identifier().value(), v.ether_type().0)) } else { None }).collect();
        ok &= match (p.vlan(), tags.len()) {
            (None, 0) => true,
            (Some(VlanSlice::SingleVlan(s)), 1) => (s.vlan_identifier().value(), s.ether_type().0) == tags[0],
            (Some(VlanSlice::DoubleVlan(d)), n) if n >= 2 => (d.outer.vlan_identifier().value(), d.outer.ether_type().0) == tags[0] && (d.inner.vlan_identifier().value(), d.inner.ether_type().0) == tags[1],
            _ => false,
        };
        acc.push(("views_consistent", ok as u128));
    }
    Whole {
        out: NOut {
            layers,
            err: None,
            stop,
        },
        pay,
        acc,
        budget_exceeded: budget,
    }
}

fn net_headers_layers(n: &NetHeaders, layers: &mut Vec<NLayer>) {
    match n {
        NetHeaders::Ipv4(h, e) => ls_ipv4_hdr(h, e, layers),
        NetHeaders::Ipv6(h, e) => ls_ipv6_hdr(h, e, layers),
        NetHeaders::Arp(a) => layers.push(l_arp_pkt(a)),
    }
}

pub fn payload_slice(cx: &mut Cx, p: &PayloadSlice) -> NPay {
    let mut r = NPay::none();
    match p {
        PayloadSlice::Empty => {
            r.kind = "empty";
        }
        PayloadSlice::Ether(e) => {
            r.kind = "ether";
            r.off = cx.off(e.payload, "PayloadSlice::Ether");
            r.len = e.payload.len();
            r.num = Some(e.ether_type.0);
            r.src = Some(src(e.len_source));
        }
        PayloadSlice::MacsecMod(s) => {
            r.kind = "macsec_mod";
            r.off = cx.off(s, "PayloadSlice::MacsecMod");
            r.len = s.len();
        }
        PayloadSlice::Ip(i) => {
            r.kind = "ip";
            r.off = cx.off(i.payload, "PayloadSlice::Ip");
            r.len = i.payload.len();
            r.num = Some(i.ip_number.0 as u16);
            r.src = Some(src(i.len_source));
            r.fragmented = Some(i.fragmented);
        }
        PayloadSlice::Udp(s) => {
            r.kind = "udp";
            r.off = cx.off(s, "PayloadSlice::Udp");
            r.len = s.len();
        }
        PayloadSlice::Tcp(s) => {
            r.kind = "tcp";
            r.off = cx.off(s, "PayloadSlice::Tcp");
            r.len = s.len();
        }
        PayloadSlice::Icmpv4(s) => {
            r.kind = "icmpv4";
            r.off = cx.off(s, "PayloadSlice::Icmpv4");
            r.len = s.len();
        }
        PayloadSlice::Icmpv6(s) => {
            r.kind = "icmpv6";
            r.off = cx.off(s, "PayloadSlice::Icmpv6");
            r.len = s.len();
        }
    }
    cx.touch(p.slice(), "PayloadSlice::slice");
    r
}

pub fn lax_payload_slice(cx: &mut Cx, p: &LaxPayloadSlice) -> NPay {
    let mut r = NPay::none();
    match p {
        LaxPayloadSlice::Empty => {
            r.kind = "empty";
        }
        LaxPayloadSlice::Ether(e) => {
            r.kind = "ether";
            r.off = cx.off(e.payload, "LaxPayloadSlice::Ether");
            r.len = e.payload.len();
            r.num = Some(e.ether_type.0);
            r.src = Some(src(e.len_source));
            r.incomplete = Some(e.incomplete);
        }
        LaxPayloadSlice::MacsecModified { payload, incomplete } => {
            r.kind = "macsec_mod";
            r.off = cx.off(payload, "LaxPayloadSlice::MacsecModified");
            r.len = payload.len();
            r.incomplete = Some(*incomplete);
        }
        LaxPayloadSlice::Ip(i) => {
            r.kind = "ip";
            r.off = cx.off(i.payload, "LaxPayloadSlice::Ip");
            r.len = i.payload.len();
            r.num = Some(i.ip_number.0 as u16);
            r.src = Some(src(i.len_source));
            r.fragmented = Some(i.fragmented);
            r.incomplete = Some(i.incomplete);
        }
        LaxPayloadSlice::Udp { payload, incomplete } => {
            r.kind = "udp";
            r.off = cx.off(payload, "LaxPayloadSlice::Udp");
            r.len = payload.len();
            r.incomplete = Some(*incomplete);
        }
        LaxPayloadSlice::Tcp { payload, incomplete } => {
            r.kind = "tcp";
            r.off = cx.off(payload, "LaxPayloadSlice::Tcp");
            r.len = payload.len();
            r.incomplete = Some(*incomplete);
        }
        LaxPayloadSlice::Icmpv4 { payload, incomplete } => {
            r.kind = "icmpv4";
            r.off = cx.off(payload, "LaxPayloadSlice::Icmpv4");
            r.len = payload.len();
            r.incomplete = Some(*incomplete);
        }
        LaxPayloadSlice::Icmpv6 { payload, incomplete } => {
            r.kind = "icmpv6";
            r.off = cx.off(payload, "LaxPayloadSlice::Icmpv6");
            r.len = payload.len();
            r.incomplete = Some(*incomplete);
        }
        LaxPayloadSlice::LinuxSll(s) => {
            r.kind = "sll";
            r.off = cx.off(s.payload, "LaxPayloadSlice::LinuxSll");
            r.len = s.payload.len();
            r.num = Some(sll_pkind(&s.protocol_type).1);
        }
    }
    cx.touch(p.slice(), "LaxPayloadSlice::slice");
    r
}

pub fn headers_cx(cx: &mut Cx, p: &PacketHeaders) -> Whole {
    let mut layers = Vec::with_capacity(8);
    if let Some(l) = &p.link {
        match l {
            LinkHeader::Ethernet2(e) => layers.push(l_eth_hdr(e)),
            LinkHeader::LinuxSll(s) => layers.push(l_sll_hdr(s)),
        }
    }
    for e in &p.link_exts {
        match e {
            LinkExtHeader::Vlan(v) => layers.push(l_vlan_hdr(v)),
            LinkExtHeader::Macsec(m) => layers.push(l_macsec_hdr(m)),
        }
    }
    if let Some(n) = &p.net {
        net_headers_layers(n, &mut layers);
    }
    if let Some(t) = &p.transport {
        layers.push(l_transport_hdr(t));
    }
    let pay = payload_slice(cx, &p.payload);
    Whole {
        out: NOut::ok(layers),
        pay,
        acc: Vec::new(),
        budget_exceeded: false,
    }
}

pub fn lax_headers_cx(cx: &mut Cx, p: &LaxPacketHeaders) -> Whole {
    let mut layers = Vec::with_capacity(8);
    if let Some(l) = &p.link {
        match l {
            LinkHeader::Ethernet2(e) => layers.push(l_eth_hdr(e)),
            LinkHeader::LinuxSll(s) => layers.push(l_sll_hdr(s)),
        }
    }
    for e in &p.link_exts {
        match e {
            LinkExtHeader::Vlan(v) => layers.push(l_vlan_hdr(v)),
            LinkExtHeader::Macsec(m) => layers.push(l_macsec_hdr(m)),
        }
    }
    if let Some(n) = &p.net {
        net_headers_layers(n, &mut layers);
    }
    if let Some(t) = &p.transport {
        layers.push(l_transport_hdr(t));
    }
    let pay = lax_payload_slice(cx, &p.payload);
    let stop = p
        .stop_err
        .as_ref()
        .map(|(e, l)| (n_packet_slice_error(e), lay(*l)));
    Whole {
        out: NOut {
            layers,
            err: None,
            stop,
        },
        pay,
        acc: Vec::new(),
        budget_exceeded: false,
    }
}

/// strips the location facts ('~' fields and offsets) from a layer list so that it can be
/// compared with the image of owned header structs
pub fn to_header_image(layers: &[NLayer]) -> Vec<NLayer> {
    layers
        .iter()
        .filter(|l| l.kind != Kind::EtherStart)
        .map(|l| {
            let mut n = l.clone();
            n.off = NO_OFF;
            n.f.retain(|(k, _)| {
                !k.starts_with('~')
                    && *k != "pay_num"
                    && *k != "fragmented"
                    && *k != "pay_src"
                    && *k != "accessor_mismatch"
            });
            n
        })
        .collect()
}
