//! Table of the header types that can be decoded from a slice *and* from an `io::Read`, with
//! uniform adapters. Used by C06 (read == from_slice), C01/C02 (closure under instruments),
//! C08 (byte direction round trip) and C16 (reader fault injection).

use super::*;
use crate::gen;
use crate::prng::Prng;
use etherparse::io::LimitedReader;
use std::io::{Read, Seek};

pub trait ReadSeek: Read + Seek {}
impl<T: Read + Seek> ReadSeek for T {}

/// successful decode in neutral form
#[derive(Clone, Debug, PartialEq, Eq)]
pub struct Dec {
    /// Debug rendering of the decoded value (values are equal iff renderings are)
    pub value: String,
    /// bytes the header occupies in the input
    pub consumed: usize,
    /// the value re-encoded with the type's own serialiser
    pub reencoded: Vec<u8>,
    /// what `header_len()` announces
    pub header_len: usize,
}

pub type SliceFn = fn(&[u8]) -> Result<Dec, NErr>;
pub type ReadFn = fn(&mut dyn ReadSeek, &[u8]) -> Result<Dec, NErr>;

pub struct HeaderType {
    pub name: &'static str,
    pub gen: fn(&mut Prng) -> Vec<u8>,
    pub from_slice: SliceFn,
    /// second argument: the complete input (some readers need a parameter from it, e.g. the
    /// start ip number of an extension chain is passed in the first byte)
    pub read: ReadFn,
    /// bytes in front of the header proper that carry parameters for the decoder (0 or 1)
    pub param_bytes: usize,
    /// bit mask of reserved / normalised bits: returns the header bytes with those bits cleared
    pub mask: fn(&[u8]) -> Vec<u8>,
}

fn io_err(e: &std::io::Error) -> NErr {
    NErr::Io(format!("{:?}", e.kind()))
}

fn dbg<T: core::fmt::Debug>(v: &T) -> String {
    format!("{:?}", v)
}

fn ident(b: &[u8]) -> Vec<u8> {
    b.to_vec()
}

fn trailing(rng: &mut Prng, mut b: Vec<u8>) -> Vec<u8> {
    match rng.below(4) {
        0 => {}
        1 => {
            let n = rng.range(1, 8) as usize;
            b.extend_from_slice(&rng.bytes(n));
        }
        2 => {
            // truncation inside the header region
            if !b.is_empty() {
                let n = rng.usize_below(b.len().min(80));
                b.truncate(n);
            }
        }
        _ => {
            let n = rng.range(1, 40) as usize;
            b.extend_from_slice(&rng.bytes(n));
        }
    }
    b
}

// ---- generators -------------------------------------------------------------------------------

fn g_eth(rng: &mut Prng) -> Vec<u8> {
    let n = 14 + rng.range(0, 10) as usize;
    let b = rng.bytes(n);
    trailing(rng, b)
}
fn g_sll(rng: &mut Prng) -> Vec<u8> {
    let (_, inner) = gen::gen_net(rng, gen::Lie::None);
    let b = gen::wrap_sll(rng, 0x0800, inner, gen::Lie::Any).bytes;
    trailing(rng, b)
}
fn g_vlan(rng: &mut Prng) -> Vec<u8> {
    let n = 4 + rng.range(0, 6) as usize;
    let b = rng.bytes(n);
    trailing(rng, b)
}
fn g_macsec(rng: &mut Prng) -> Vec<u8> {
    let n = rng.range(0, 30) as usize;
    let inner = gen::Built {
        bytes: rng.bytes(n),
        layers: vec![],
        clean: true,
        desc: String::new(),
    };
    let b = gen::wrap_macsec(rng, 0x0800, inner, gen::Lie::Any).1.bytes;
    trailing(rng, b)
}
fn g_arp(rng: &mut Prng) -> Vec<u8> {
    let b = gen::gen_arp(rng, gen::Lie::Any).bytes;
    trailing(rng, b)
}
fn g_ipv4(rng: &mut Prng) -> Vec<u8> {
    let mut b = gen::gen_ipv4(rng, gen::Lie::Any).bytes;
    // any version / IHL octet (the `*_without_version` doors take it as a parameter)
    if rng.chance(1, 12) && !b.is_empty() {
        b[0] = rng.u8();
    }
    trailing(rng, b)
}
fn g_ipv6(rng: &mut Prng) -> Vec<u8> {
    let mut b = gen::gen_ipv6(rng, gen::Lie::Any).bytes;
    if rng.chance(1, 12) && !b.is_empty() {
        b[0] = rng.u8();
    }
    trailing(rng, b)
}
fn g_auth(rng: &mut Prng) -> Vec<u8> {
    let (b, _) = gen::ah_bytes(rng, 17, gen::Lie::Any);
    trailing(rng, b)
}
fn g_raw_ext(rng: &mut Prng) -> Vec<u8> {
    let units = match rng.below(6) {
        0 => 0,
        1 => 1,
        2 => 255,
        _ => rng.range(0, 6) as usize,
    };
    let mut b = vec![rng.u8(), units as u8];
    let body = if rng.chance(1, 5) { rng.range(0, 40) as usize } else { 6 + 8 * units };
    b.extend_from_slice(&rng.bytes(body));
    trailing(rng, b)
}
fn g_frag(rng: &mut Prng) -> Vec<u8> {
    let n = 8 + rng.range(0, 4) as usize;
    let b = rng.bytes(n);
    trailing(rng, b)
}
/// first byte = start ip number, rest = the chain
fn g_ipv4_exts(rng: &mut Prng) -> Vec<u8> {
    let first = if rng.chance(3, 4) { 51 } else { rng.u8() };
    let nx = if rng.chance(1, 4) { 51 } else { 6 };
    let (ah, _) = gen::ah_bytes(rng, nx, gen::Lie::Any);
    let mut b = vec![first];
    b.extend_from_slice(&ah);
    trailing(rng, b)
}
fn g_ipv6_exts(rng: &mut Prng) -> Vec<u8> {
    let full = gen::gen_ipv6(rng, gen::Lie::Any).bytes;
    let mut b = vec![full[6]];
    b.extend_from_slice(&full[40..]);
    trailing(rng, b)
}
fn g_ip_headers(rng: &mut Prng) -> Vec<u8> {
    // consistent outer length fields (the reader cannot know the slice length), hostile inside
    let b = if rng.bool() {
        gen::gen_ipv4(rng, gen::Lie::None).bytes
    } else {
        gen::gen_ipv6(rng, gen::Lie::None).bytes
    };
    let mut b = b;
    if rng.chance(1, 8) && !b.is_empty() {
        let i = rng.usize_below(b.len().min(60));
        b[i] = rng.u8_corner();
    }
    // C06: "a slice that holds the announced packet" — cut to the announced size
    if !b.is_empty() {
        match b[0] >> 4 {
            4 if b.len() >= 4 => {
                let t = ((b[2] as usize) << 8) | b[3] as usize;
                if t <= b.len() {
                    b.truncate(t);
                }
            }
            6 if b.len() >= 6 => {
                let p = ((b[4] as usize) << 8) | b[5] as usize;
                if 40 + p <= b.len() {
                    b.truncate(40 + p);
                }
            }
            _ => {}
        }
    }
    b
}
fn g_udp(rng: &mut Prng) -> Vec<u8> {
    let b = gen::gen_udp(rng, gen::Lie::Any).bytes;
    trailing(rng, b)
}
fn g_tcp(rng: &mut Prng) -> Vec<u8> {
    let b = gen::gen_tcp(rng, gen::Lie::Any).bytes;
    trailing(rng, b)
}
fn g_icmp4(rng: &mut Prng) -> Vec<u8> {
    let b = gen::gen_icmp4(rng, gen::Lie::Any).bytes;
    trailing(rng, b)
}
fn g_icmp6(rng: &mut Prng) -> Vec<u8> {
    let b = gen::gen_icmp6(rng, gen::Lie::Any).bytes;
    trailing(rng, b)
}

// ---- decoders ---------------------------------------------------------------------------------

macro_rules! rest_dec {
    ($slice:expr, $h:expr, $rest:expr) => {{
        let h = $h;
        Dec {
            value: dbg(&h),
            consumed: $slice.len() - $rest.len(),
            reencoded: h.to_bytes().to_vec(),
            header_len: h.header_len(),
        }
    }};
}

fn s_eth(b: &[u8]) -> Result<Dec, NErr> {
    let (h, rest) = Ethernet2Header::from_slice(b).map_err(|e| nlen(&e))?;
    Ok(rest_dec!(b, h, rest))
}
fn r_eth(r: &mut dyn ReadSeek, _: &[u8]) -> Result<Dec, NErr> {
    let mut r = r;
    let h = Ethernet2Header::read(&mut r).map_err(|e| io_err(&e))?;
    Ok(Dec {
        value: dbg(&h),
        consumed: 0,
        reencoded: h.to_bytes().to_vec(),
        header_len: h.header_len(),
    })
}
fn s_sll(b: &[u8]) -> Result<Dec, NErr> {
    let (h, rest) = LinuxSllHeader::from_slice(b).map_err(|e| n_sll_slice_error(&e))?;
    Ok(rest_dec!(b, h, rest))
}
fn r_sll(r: &mut dyn ReadSeek, _: &[u8]) -> Result<Dec, NErr> {
    let mut r = r;
    let h = LinuxSllHeader::read(&mut r).map_err(|e| match &e {
        err::ReadError::Io(e) => io_err(e),
        err::ReadError::Len(l) => nlen(l),
        err::ReadError::LinuxSll(c) => c_sll(c),
        o => NErr::Content(format!("unexpected:{:?}", o)),
    })?;
    Ok(Dec {
        value: dbg(&h),
        consumed: 0,
        reencoded: h.to_bytes().to_vec(),
        header_len: h.header_len(),
    })
}
fn s_vlan(b: &[u8]) -> Result<Dec, NErr> {
    let (h, rest) = SingleVlanHeader::from_slice(b).map_err(|e| nlen(&e))?;
    Ok(rest_dec!(b, h, rest))
}
fn r_vlan(r: &mut dyn ReadSeek, _: &[u8]) -> Result<Dec, NErr> {
    let mut r = r;
    let h = SingleVlanHeader::read(&mut r).map_err(|e| io_err(&e))?;
    Ok(Dec {
        value: dbg(&h),
        consumed: 0,
        reencoded: h.to_bytes().to_vec(),
        header_len: h.header_len(),
    })
}
fn s_macsec(b: &[u8]) -> Result<Dec, NErr> {
    let h = MacsecHeader::from_slice(b).map_err(|e| n_macsec_slice_error(&e))?;
    Ok(Dec {
        value: dbg(&h),
        consumed: h.header_len(),
        reencoded: h.to_bytes().to_vec(),
        header_len: h.header_len(),
    })
}
fn r_macsec(r: &mut dyn ReadSeek, _: &[u8]) -> Result<Dec, NErr> {
    let mut r = r;
    let h = MacsecHeader::read(&mut r).map_err(|e| match &e {
        err::macsec::HeaderReadError::Io(e) => io_err(e),
        err::macsec::HeaderReadError::Content(c) => c_macsec(c),
    })?;
    Ok(Dec {
        value: dbg(&h),
        consumed: 0,
        reencoded: h.to_bytes().to_vec(),
        header_len: h.header_len(),
    })
}
fn s_arp(b: &[u8]) -> Result<Dec, NErr> {
    let h = ArpPacket::from_slice(b).map_err(|e| nlen(&e))?;
    Ok(Dec {
        value: dbg(&h),
        consumed: h.packet_len(),
        reencoded: h.to_bytes().to_vec(),
        header_len: h.packet_len(),
    })
}
fn r_arp(r: &mut dyn ReadSeek, _: &[u8]) -> Result<Dec, NErr> {
    let mut r = r;
    let h = ArpPacket::read(&mut r).map_err(|e| io_err(&e))?;
    Ok(Dec {
        value: dbg(&h),
        consumed: 0,
        reencoded: h.to_bytes().to_vec(),
        header_len: h.packet_len(),
    })
}
fn s_ipv4(b: &[u8]) -> Result<Dec, NErr> {
    let (h, rest) = Ipv4Header::from_slice(b).map_err(|e| n_ipv4_header_slice_error(&e))?;
    Ok(rest_dec!(b, h, rest))
}
fn ipv4_read_err(e: &err::ipv4::HeaderReadError) -> NErr {
    match e {
        err::ipv4::HeaderReadError::Io(e) => io_err(e),
        err::ipv4::HeaderReadError::Content(c) => c_ipv4(c),
    }
}
fn r_ipv4(r: &mut dyn ReadSeek, _: &[u8]) -> Result<Dec, NErr> {
    let mut r = r;
    let h = Ipv4Header::read(&mut r).map_err(|e| ipv4_read_err(&e))?;
    Ok(Dec {
        value: dbg(&h),
        consumed: 0,
        reencoded: h.to_bytes().to_vec(),
        header_len: h.header_len(),
    })
}
/// Ipv4Header::read_without_version: the caller has consumed the first byte already
fn r_ipv4_wo_version(r: &mut dyn ReadSeek, all: &[u8]) -> Result<Dec, NErr> {
    let mut r = r;
    let mut first = [0u8; 1];
    r.read_exact(&mut first).map_err(|e| io_err(&e))?;
    let _ = all;
    // the version nibble is not validated by this entry point: it is called with whatever the
    // first byte is (it must cope: C01/C02), the verdict mirrors from_slice's for the comparison
    let res = Ipv4Header::read_without_version(&mut r, first[0]);
    // (an I/O fault of the source surfaces as such whatever the version says)
    if first[0] >> 4 != 4 && !matches!(res, Err(err::ipv4::HeaderReadError::Io(_))) {
        return Err(NErr::Content(format!("ip.BadVersion({})", first[0] >> 4)));
    }
    let h = res.map_err(|e| ipv4_read_err(&e))?;
    Ok(Dec {
        value: dbg(&h),
        consumed: 0,
        reencoded: h.to_bytes().to_vec(),
        header_len: h.header_len(),
    })
}
fn s_ipv6(b: &[u8]) -> Result<Dec, NErr> {
    let (h, rest) = Ipv6Header::from_slice(b).map_err(|e| n_ipv6_header_slice_error(&e))?;
    Ok(rest_dec!(b, h, rest))
}
fn r_ipv6(r: &mut dyn ReadSeek, _: &[u8]) -> Result<Dec, NErr> {
    let mut r = r;
    let h = Ipv6Header::read(&mut r).map_err(|e| match &e {
        err::ipv6::HeaderReadError::Io(e) => io_err(e),
        err::ipv6::HeaderReadError::Content(c) => c_ipv6(c),
    })?;
    Ok(Dec {
        value: dbg(&h),
        consumed: 0,
        reencoded: h.to_bytes().to_vec(),
        header_len: h.header_len(),
    })
}
fn r_ipv6_wo_version(r: &mut dyn ReadSeek, _: &[u8]) -> Result<Dec, NErr> {
    let mut r = r;
    let mut first = [0u8; 1];
    r.read_exact(&mut first).map_err(|e| io_err(&e))?;
    let res = Ipv6Header::read_without_version(&mut r, first[0] & 0x0f);
    if first[0] >> 4 != 6 && res.is_ok() {
        return Err(NErr::Content(format!("ip.BadVersion({})", first[0] >> 4)));
    }
    let h = res.map_err(|e| io_err(&e))?;
    Ok(Dec {
        value: dbg(&h),
        consumed: 0,
        reencoded: h.to_bytes().to_vec(),
        header_len: h.header_len(),
    })
}
fn auth_slice_err(e: &err::ip_auth::HeaderSliceError) -> NErr {
    match e {
        err::ip_auth::HeaderSliceError::Len(l) => nlen(l),
        err::ip_auth::HeaderSliceError::Content(c) => c_auth_plain(c),
    }
}
fn s_auth(b: &[u8]) -> Result<Dec, NErr> {
    let (h, rest) = IpAuthHeader::from_slice(b).map_err(|e| auth_slice_err(&e))?;
    Ok(rest_dec!(b, h, rest))
}
fn r_auth(r: &mut dyn ReadSeek, _: &[u8]) -> Result<Dec, NErr> {
    let mut r = r;
    let h = IpAuthHeader::read(&mut r).map_err(|e| match &e {
        err::ip_auth::HeaderReadError::Io(e) => io_err(e),
        err::ip_auth::HeaderReadError::Content(c) => c_auth_plain(c),
    })?;
    Ok(Dec {
        value: dbg(&h),
        consumed: 0,
        reencoded: h.to_bytes().to_vec(),
        header_len: h.header_len(),
    })
}
fn r_auth_limited(r: &mut dyn ReadSeek, all: &[u8]) -> Result<Dec, NErr> {
    let mut lr = LimitedReader::new(r, all.len(), LenSource::Slice, 0, err::Layer::IpAuthHeader);
    let h = IpAuthHeader::read_limited(&mut lr).map_err(|e| match &e {
        err::ip_auth::HeaderLimitedReadError::Io(e) => io_err(e),
        err::ip_auth::HeaderLimitedReadError::Len(l) => nlen(l),
        err::ip_auth::HeaderLimitedReadError::Content(c) => c_auth_plain(c),
    })?;
    Ok(Dec {
        value: dbg(&h),
        consumed: lr.read_len(),
        reencoded: h.to_bytes().to_vec(),
        header_len: h.header_len(),
    })
}
fn s_raw_ext(b: &[u8]) -> Result<Dec, NErr> {
    let (h, rest) = Ipv6RawExtHeader::from_slice(b).map_err(|e| nlen(&e))?;
    Ok(rest_dec!(b, h, rest))
}
fn r_raw_ext(r: &mut dyn ReadSeek, _: &[u8]) -> Result<Dec, NErr> {
    let mut r = r;
    let h = Ipv6RawExtHeader::read(&mut r).map_err(|e| io_err(&e))?;
    Ok(Dec {
        value: dbg(&h),
        consumed: 0,
        reencoded: h.to_bytes().to_vec(),
        header_len: h.header_len(),
    })
}
fn limited_err(e: &err::io::LimitedReadError) -> NErr {
    match e {
        err::io::LimitedReadError::Io(e) => io_err(e),
        err::io::LimitedReadError::Len(l) => nlen(l),
    }
}
fn r_raw_ext_limited(r: &mut dyn ReadSeek, all: &[u8]) -> Result<Dec, NErr> {
    let mut lr = LimitedReader::new(r, all.len(), LenSource::Slice, 0, err::Layer::Ipv6ExtHeader);
    let h = Ipv6RawExtHeader::read_limited(&mut lr).map_err(|e| limited_err(&e))?;
    Ok(Dec {
        value: dbg(&h),
        consumed: lr.read_len(),
        reencoded: h.to_bytes().to_vec(),
        header_len: h.header_len(),
    })
}
fn s_frag(b: &[u8]) -> Result<Dec, NErr> {
    let (h, rest) = Ipv6FragmentHeader::from_slice(b).map_err(|e| nlen(&e))?;
    Ok(rest_dec!(b, h, rest))
}
fn r_frag(r: &mut dyn ReadSeek, _: &[u8]) -> Result<Dec, NErr> {
    let mut r = r;
    let h = Ipv6FragmentHeader::read(&mut r).map_err(|e| io_err(&e))?;
    Ok(Dec {
        value: dbg(&h),
        consumed: 0,
        reencoded: h.to_bytes().to_vec(),
        header_len: h.header_len(),
    })
}
fn r_frag_limited(r: &mut dyn ReadSeek, all: &[u8]) -> Result<Dec, NErr> {
    let mut lr = LimitedReader::new(r, all.len(), LenSource::Slice, 0, err::Layer::Ipv6FragHeader);
    let h = Ipv6FragmentHeader::read_limited(&mut lr).map_err(|e| limited_err(&e))?;
    Ok(Dec {
        value: dbg(&h),
        consumed: lr.read_len(),
        reencoded: h.to_bytes().to_vec(),
        header_len: h.header_len(),
    })
}

fn exts4_bytes(e: &Ipv4Extensions) -> Vec<u8> {
    match &e.auth {
        Some(a) => a.to_bytes().to_vec(),
        None => Vec::new(),
    }
}
fn s_ipv4_exts(b: &[u8]) -> Result<Dec, NErr> {
    if b.is_empty() {
        return Err(NErr::Io("UnexpectedEof".into()));
    }
    let (e, next, rest) = Ipv4Extensions::from_slice(IpNumber(b[0]), &b[1..]).map_err(|e| auth_slice_err(&e))?;
    Ok(Dec {
        value: format!("{:?}|{:?}", e, next),
        consumed: b.len() - rest.len(),
        reencoded: exts4_bytes(&e),
        header_len: e.header_len(),
    })
}
fn r_ipv4_exts(r: &mut dyn ReadSeek, _all: &[u8]) -> Result<Dec, NErr> {
    let mut r = r;
    let mut first = [0u8; 1];
    r.read_exact(&mut first).map_err(|e| io_err(&e))?;
    let (e, next) = Ipv4Extensions::read(&mut r, IpNumber(first[0])).map_err(|e| match &e {
        err::ip_auth::HeaderReadError::Io(e) => io_err(e),
        err::ip_auth::HeaderReadError::Content(c) => c_auth_plain(c),
    })?;
    Ok(Dec {
        value: format!("{:?}|{:?}", e, next),
        consumed: 0,
        reencoded: exts4_bytes(&e),
        header_len: e.header_len(),
    })
}
fn r_ipv4_exts_limited(r: &mut dyn ReadSeek, all: &[u8]) -> Result<Dec, NErr> {
    let mut r = r;
    let mut first = [0u8; 1];
    r.read_exact(&mut first).map_err(|e| io_err(&e))?;
    let mut lr = LimitedReader::new(r, all.len() - 1, LenSource::Slice, 0, err::Layer::IpAuthHeader);
    let (e, next) = Ipv4Extensions::read_limited(&mut lr, IpNumber(first[0])).map_err(|e| match &e {
        err::ip_auth::HeaderLimitedReadError::Io(e) => io_err(e),
        err::ip_auth::HeaderLimitedReadError::Len(l) => nlen(l),
        err::ip_auth::HeaderLimitedReadError::Content(c) => c_auth_plain(c),
    })?;
    Ok(Dec {
        value: format!("{:?}|{:?}", e, next),
        consumed: 1 + lr.read_len(),
        reencoded: exts4_bytes(&e),
        header_len: e.header_len(),
    })
}
fn s_ipv6_exts(b: &[u8]) -> Result<Dec, NErr> {
    if b.is_empty() {
        return Err(NErr::Io("UnexpectedEof".into()));
    }
    let (e, next, rest) = Ipv6Extensions::from_slice(IpNumber(b[0]), &b[1..]).map_err(|e| n_ipv6_exts_slice_error(&e))?;
    Ok(Dec {
        value: format!("{:?}|{:?}", e, next),
        consumed: b.len() - rest.len(),
        reencoded: Vec::new(),
        header_len: e.header_len(),
    })
}
fn r_ipv6_exts(r: &mut dyn ReadSeek, _all: &[u8]) -> Result<Dec, NErr> {
    let mut r = r;
    let mut first = [0u8; 1];
    r.read_exact(&mut first).map_err(|e| io_err(&e))?;
    let (e, next) = Ipv6Extensions::read(&mut r, IpNumber(first[0])).map_err(|e| match &e {
        err::ipv6_exts::HeaderReadError::Io(e) => io_err(e),
        err::ipv6_exts::HeaderReadError::Content(c) => c_ipv6_exts(c),
    })?;
    Ok(Dec {
        value: format!("{:?}|{:?}", e, next),
        consumed: 0,
        reencoded: Vec::new(),
        header_len: e.header_len(),
    })
}
fn r_ipv6_exts_limited(r: &mut dyn ReadSeek, all: &[u8]) -> Result<Dec, NErr> {
    let mut r = r;
    let mut first = [0u8; 1];
    r.read_exact(&mut first).map_err(|e| io_err(&e))?;
    let mut lr = LimitedReader::new(r, all.len() - 1, LenSource::Slice, 0, err::Layer::Ipv6ExtHeader);
    let (e, next) = Ipv6Extensions::read_limited(&mut lr, IpNumber(first[0])).map_err(|e| match &e {
        err::ipv6_exts::HeaderLimitedReadError::Io(e) => io_err(e),
        err::ipv6_exts::HeaderLimitedReadError::Len(l) => nlen(l),
        err::ipv6_exts::HeaderLimitedReadError::Content(c) => c_ipv6_exts(c),
    })?;
    Ok(Dec {
        value: format!("{:?}|{:?}", e, next),
        // (read_len is per layer for a chain of headers: not comparable)
        consumed: 0,
        reencoded: Vec::new(),
        header_len: e.header_len(),
    })
}
fn s_ip_headers(b: &[u8]) -> Result<Dec, NErr> {
    let (h, p) = IpHeaders::from_slice(b).map_err(|e| n_ip_headers_slice_error(&e))?;
    Ok(Dec {
        value: format!("{:?}|{:?}", h, p.ip_number),
        consumed: p.payload.as_ptr() as usize - b.as_ptr() as usize,
        reencoded: Vec::new(),
        header_len: h.header_len(),
    })
}
fn r_ip_headers(r: &mut dyn ReadSeek, _: &[u8]) -> Result<Dec, NErr> {
    let mut r = r;
    let (h, n) = IpHeaders::read(&mut r).map_err(|e| match &e {
        err::ip::HeaderReadError::Io(e) => io_err(e),
        err::ip::HeaderReadError::Len(l) => nlen(l),
        err::ip::HeaderReadError::Content(c) => n_ip_headers_error(c),
    })?;
    Ok(Dec {
        value: format!("{:?}|{:?}", h, n),
        consumed: 0,
        reencoded: Vec::new(),
        header_len: h.header_len(),
    })
}
fn s_udp(b: &[u8]) -> Result<Dec, NErr> {
    let (h, rest) = UdpHeader::from_slice(b).map_err(|e| nlen(&e))?;
    Ok(rest_dec!(b, h, rest))
}
fn r_udp(r: &mut dyn ReadSeek, _: &[u8]) -> Result<Dec, NErr> {
    let mut r = r;
    let h = UdpHeader::read(&mut r).map_err(|e| io_err(&e))?;
    Ok(Dec {
        value: dbg(&h),
        consumed: 0,
        reencoded: h.to_bytes().to_vec(),
        header_len: h.header_len(),
    })
}
fn s_tcp(b: &[u8]) -> Result<Dec, NErr> {
    let (h, rest) = TcpHeader::from_slice(b).map_err(|e| n_tcp_slice_error(&e))?;
    Ok(rest_dec!(b, h, rest))
}
fn r_tcp(r: &mut dyn ReadSeek, _: &[u8]) -> Result<Dec, NErr> {
    let mut r = r;
    let h = TcpHeader::read(&mut r).map_err(|e| match &e {
        err::tcp::HeaderReadError::Io(e) => io_err(e),
        err::tcp::HeaderReadError::Content(c) => c_tcp(c),
    })?;
    Ok(Dec {
        value: dbg(&h),
        consumed: 0,
        reencoded: h.to_bytes().to_vec(),
        header_len: h.header_len(),
    })
}
fn s_icmp4(b: &[u8]) -> Result<Dec, NErr> {
    let (h, rest) = Icmpv4Header::from_slice(b).map_err(|e| nlen(&e))?;
    Ok(rest_dec!(b, h, rest))
}
fn r_icmp4(r: &mut dyn ReadSeek, _: &[u8]) -> Result<Dec, NErr> {
    let mut r = r;
    let h = Icmpv4Header::read(&mut r).map_err(|e| io_err(&e))?;
    Ok(Dec {
        value: dbg(&h),
        consumed: 0,
        reencoded: h.to_bytes().to_vec(),
        header_len: h.header_len(),
    })
}
fn s_icmp6(b: &[u8]) -> Result<Dec, NErr> {
    let (h, rest) = Icmpv6Header::from_slice(b).map_err(|e| nlen(&e))?;
    Ok(rest_dec!(b, h, rest))
}
fn r_icmp6(r: &mut dyn ReadSeek, _: &[u8]) -> Result<Dec, NErr> {
    let mut r = r;
    let h = Icmpv6Header::read(&mut r).map_err(|e| io_err(&e))?;
    Ok(Dec {
        value: dbg(&h),
        consumed: 0,
        reencoded: h.to_bytes().to_vec(),
        header_len: h.header_len(),
    })
}

// ---- reserved / normalised bit masks (C08 byte direction) -------------------------------------

fn m_macsec(b: &[u8]) -> Vec<u8> {
    let mut v = b.to_vec();
    if v.len() > 1 {
        v[1] &= 0x3f; // two reserved bits in front of the short length
    }
    v
}
fn m_ipv4(b: &[u8]) -> Vec<u8> {
    let mut v = b.to_vec();
    if v.len() > 6 {
        v[6] &= 0x7f; // reserved flag bit
    }
    v
}
fn m_auth(b: &[u8]) -> Vec<u8> {
    let mut v = b.to_vec();
    if v.len() > 3 {
        v[2] = 0;
        v[3] = 0;
    }
    v
}
fn m_frag(b: &[u8]) -> Vec<u8> {
    let mut v = b.to_vec();
    if v.len() > 3 {
        v[1] = 0;
        v[3] &= 0xf9;
    }
    v
}
fn m_tcp(b: &[u8]) -> Vec<u8> {
    let mut v = b.to_vec();
    if v.len() > 12 {
        v[12] &= 0xf1; // three reserved bits
    }
    v
}

pub const HEADERS: &[HeaderType] = &[
    HeaderType { name: "Ethernet2Header", gen: g_eth, from_slice: s_eth, read: r_eth, param_bytes: 0, mask: ident },
    HeaderType { name: "LinuxSllHeader", gen: g_sll, from_slice: s_sll, read: r_sll, param_bytes: 0, mask: ident },
    HeaderType { name: "SingleVlanHeader", gen: g_vlan, from_slice: s_vlan, read: r_vlan, param_bytes: 0, mask: ident },
    HeaderType { name: "MacsecHeader", gen: g_macsec, from_slice: s_macsec, read: r_macsec, param_bytes: 0, mask: m_macsec },
    HeaderType { name: "ArpPacket", gen: g_arp, from_slice: s_arp, read: r_arp, param_bytes: 0, mask: ident },
    HeaderType { name: "Ipv4Header", gen: g_ipv4, from_slice: s_ipv4, read: r_ipv4, param_bytes: 0, mask: m_ipv4 },
    HeaderType { name: "Ipv4Header(read_without_version)", gen: g_ipv4, from_slice: s_ipv4, read: r_ipv4_wo_version, param_bytes: 0, mask: m_ipv4 },
    HeaderType { name: "Ipv6Header", gen: g_ipv6, from_slice: s_ipv6, read: r_ipv6, param_bytes: 0, mask: ident },
    HeaderType { name: "Ipv6Header(read_without_version)", gen: g_ipv6, from_slice: s_ipv6, read: r_ipv6_wo_version, param_bytes: 0, mask: ident },
    HeaderType { name: "IpAuthHeader", gen: g_auth, from_slice: s_auth, read: r_auth, param_bytes: 0, mask: m_auth },
    HeaderType { name: "IpAuthHeader(read_limited)", gen: g_auth, from_slice: s_auth, read: r_auth_limited, param_bytes: 0, mask: m_auth },
    HeaderType { name: "Ipv6RawExtHeader", gen: g_raw_ext, from_slice: s_raw_ext, read: r_raw_ext, param_bytes: 0, mask: ident },
    HeaderType { name: "Ipv6RawExtHeader(read_limited)", gen: g_raw_ext, from_slice: s_raw_ext, read: r_raw_ext_limited, param_bytes: 0, mask: ident },
    HeaderType { name: "Ipv6FragmentHeader", gen: g_frag, from_slice: s_frag, read: r_frag, param_bytes: 0, mask: m_frag },
    HeaderType { name: "Ipv6FragmentHeader(read_limited)", gen: g_frag, from_slice: s_frag, read: r_frag_limited, param_bytes: 0, mask: m_frag },
    HeaderType { name: "Ipv4Extensions", gen: g_ipv4_exts, from_slice: s_ipv4_exts, read: r_ipv4_exts, param_bytes: 1, mask: ident },
    HeaderType { name: "Ipv4Extensions(read_limited)", gen: g_ipv4_exts, from_slice: s_ipv4_exts, read: r_ipv4_exts_limited, param_bytes: 1, mask: ident },
    HeaderType { name: "Ipv6Extensions", gen: g_ipv6_exts, from_slice: s_ipv6_exts, read: r_ipv6_exts, param_bytes: 1, mask: ident },
    HeaderType { name: "Ipv6Extensions(read_limited)", gen: g_ipv6_exts, from_slice: s_ipv6_exts, read: r_ipv6_exts_limited, param_bytes: 1, mask: ident },
    HeaderType { name: "IpHeaders", gen: g_ip_headers, from_slice: s_ip_headers, read: r_ip_headers, param_bytes: 0, mask: ident },
    HeaderType { name: "UdpHeader", gen: g_udp, from_slice: s_udp, read: r_udp, param_bytes: 0, mask: ident },
    HeaderType { name: "TcpHeader", gen: g_tcp, from_slice: s_tcp, read: r_tcp, param_bytes: 0, mask: m_tcp },
    HeaderType { name: "Icmpv4Header", gen: g_icmp4, from_slice: s_icmp4, read: r_icmp4, param_bytes: 0, mask: ident },
    HeaderType { name: "Icmpv6Header", gen: g_icmp6, from_slice: s_icmp6, read: r_icmp6, param_bytes: 0, mask: ident },
];

// ------------------------------------------------------------------------------------------------
// writers (C16): decode a value from generated bytes, then write it into an instrumented writer
// ------------------------------------------------------------------------------------------------

/// outcome of a write: Ok, Io(kind, message) or another (content) error
#[derive(Clone, Debug, PartialEq, Eq)]
pub enum WOut {
    Ok,
    Io(String),
    Other(String),
}

fn wio(e: std::io::Error) -> WOut {
    WOut::Io(format!("{:?}:{}", e.kind(), e))
}

pub type WriteFn = fn(&[u8], &mut dyn std::io::Write) -> Option<WOut>;
/// returns (result, required_len reported on a space error, rest length on success)
/// Err: (required_len, len, a statement of the same error elsewhere that disagrees with those fields)
pub type SliceWriteFn = fn(&[u8], &mut [u8]) -> Option<Result<usize, (usize, usize, Option<String>)>>;

pub struct WriterType {
    pub name: &'static str,
    pub gen: fn(&mut Prng) -> Vec<u8>,
    pub write: WriteFn,
    pub write_to_slice: Option<SliceWriteFn>,
    /// number of separate parts the writer emits (header + extensions …), for the evidence
    pub multi_part: bool,
}

macro_rules! plain_writer {
    ($fname:ident, $ty:ty, $from:expr) => {
        fn $fname(b: &[u8], w: &mut dyn std::io::Write) -> Option<WOut> {
            let h: $ty = $from(b)?;
            let mut w = w;
            Some(match h.write(&mut w) {
                Ok(()) => WOut::Ok,
                Err(e) => wio(e),
            })
        }
    };
}

plain_writer!(w_eth, Ethernet2Header, |b| Ethernet2Header::from_slice(b).ok().map(|x| x.0));
plain_writer!(w_sll, LinuxSllHeader, |b| LinuxSllHeader::from_slice(b).ok().map(|x| x.0));
plain_writer!(w_vlan, SingleVlanHeader, |b| SingleVlanHeader::from_slice(b).ok().map(|x| x.0));
plain_writer!(w_macsec, MacsecHeader, |b| MacsecHeader::from_slice(b).ok());
plain_writer!(w_arp, ArpPacket, |b| ArpPacket::from_slice(b).ok());
plain_writer!(w_ipv4, Ipv4Header, |b| Ipv4Header::from_slice(b).ok().map(|x| x.0));
plain_writer!(w_ipv6, Ipv6Header, |b| Ipv6Header::from_slice(b).ok().map(|x| x.0));
plain_writer!(w_auth, IpAuthHeader, |b| IpAuthHeader::from_slice(b).ok().map(|x| x.0));
plain_writer!(w_raw_ext, Ipv6RawExtHeader, |b| Ipv6RawExtHeader::from_slice(b).ok().map(|x| x.0));
plain_writer!(w_frag, Ipv6FragmentHeader, |b| Ipv6FragmentHeader::from_slice(b).ok().map(|x| x.0));
plain_writer!(w_udp, UdpHeader, |b| UdpHeader::from_slice(b).ok().map(|x| x.0));
plain_writer!(w_tcp, TcpHeader, |b| TcpHeader::from_slice(b).ok().map(|x| x.0));
plain_writer!(w_icmp4, Icmpv4Header, |b| Icmpv4Header::from_slice(b).ok().map(|x| x.0));
plain_writer!(w_icmp6, Icmpv6Header, |b| Icmpv6Header::from_slice(b).ok().map(|x| x.0));

fn w_ipv4_raw(b: &[u8], w: &mut dyn std::io::Write) -> Option<WOut> {
    let h = Ipv4Header::from_slice(b).ok()?.0;
    let mut w = w;
    Some(match h.write_raw(&mut w) {
        Ok(()) => WOut::Ok,
        Err(e) => wio(e),
    })
}
fn w_link_header(b: &[u8], w: &mut dyn std::io::Write) -> Option<WOut> {
    let h = if b.first().map(|x| x & 1 == 0).unwrap_or(true) {
        LinkHeader::Ethernet2(Ethernet2Header::from_slice(b).ok()?.0)
    } else {
        // reuse the bytes as an SLL header if they happen to be valid, else Ethernet
        match LinuxSllHeader::from_slice(b) {
            Ok(x) => LinkHeader::LinuxSll(x.0),
            Err(_) => LinkHeader::Ethernet2(Ethernet2Header::from_slice(b).ok()?.0),
        }
    };
    let mut w = w;
    Some(match h.write(&mut w) {
        Ok(()) => WOut::Ok,
        Err(e) => wio(e),
    })
}
/// owned ICMPv6 (neighbour discovery) payload structs: first byte selects the variant, the rest are the fields
fn g_icmp6_payload(rng: &mut Prng) -> Vec<u8> {
    let mut b = vec![rng.u8()];
    b.extend_from_slice(&rng.bytes(32));
    b
}
fn w_icmp6_payload(b: &[u8], w: &mut dyn std::io::Write) -> Option<WOut> {
    use core::net::Ipv6Addr;
    use etherparse::icmpv6::*;
    if b.len() < 33 {
        return None;
    }
    let a1 = Ipv6Addr::from(<[u8; 16]>::try_from(&b[1..17]).unwrap());
    let a2 = Ipv6Addr::from(<[u8; 16]>::try_from(&b[17..33]).unwrap());
    let p = match b[0] % 5 {
        0 => Icmpv6Payload::RouterSolicitation(RouterSolicitationPayload),
        1 => Icmpv6Payload::RouterAdvertisement(RouterAdvertisementPayload {
            reachable_time: u32::from_be_bytes([b[1], b[2], b[3], b[4]]),
            retrans_timer: u32::from_be_bytes([b[5], b[6], b[7], b[8]]),
        }),
        2 => Icmpv6Payload::NeighborSolicitation(NeighborSolicitationPayload { target_address: a1 }),
        3 => Icmpv6Payload::NeighborAdvertisement(NeighborAdvertisementPayload { target_address: a1 }),
        _ => Icmpv6Payload::Redirect(RedirectPayload { target_address: a1, destination_address: a2 }),
    };
    let mut w = w;
    Some(match p.write(&mut w) {
        Ok(()) => WOut::Ok,
        Err(e) => wio(e),
    })
}
fn w_transport_header(b: &[u8], w: &mut dyn std::io::Write) -> Option<WOut> {
    let h = match b.first().map(|x| x % 4).unwrap_or(0) {
        0 => TransportHeader::Udp(UdpHeader::from_slice(b).ok()?.0),
        1 => TransportHeader::Tcp(TcpHeader::from_slice(b).ok()?.0),
        2 => TransportHeader::Icmpv4(Icmpv4Header::from_slice(b).ok()?.0),
        _ => TransportHeader::Icmpv6(Icmpv6Header::from_slice(b).ok()?.0),
    };
    let mut w = w;
    Some(match h.write(&mut w) {
        Ok(()) => WOut::Ok,
        Err(e) => wio(e),
    })
}
fn w_ipv4_exts(b: &[u8], w: &mut dyn std::io::Write) -> Option<WOut> {
    if b.is_empty() {
        return None;
    }
    let (e, _, _) = Ipv4Extensions::from_slice(IpNumber(b[0]), &b[1..]).ok()?;
    let mut w = w;
    Some(match e.write(&mut w, IpNumber(b[0])) {
        Ok(()) => WOut::Ok,
        Err(err::ipv4_exts::HeaderWriteError::Io(e)) => wio(e),
        Err(err::ipv4_exts::HeaderWriteError::Content(c)) => WOut::Other(format!("{:?}", c)),
    })
}
fn w_ipv6_exts(b: &[u8], w: &mut dyn std::io::Write) -> Option<WOut> {
    if b.is_empty() {
        return None;
    }
    let (e, _, _) = Ipv6Extensions::from_slice(IpNumber(b[0]), &b[1..]).ok()?;
    let mut w = w;
    Some(match e.write(&mut w, IpNumber(b[0])) {
        Ok(()) => WOut::Ok,
        Err(err::ipv6_exts::HeaderWriteError::Io(e)) => wio(e),
        Err(err::ipv6_exts::HeaderWriteError::Content(c)) => WOut::Other(format!("{:?}", c)),
    })
}
fn w_ip_headers(b: &[u8], w: &mut dyn std::io::Write) -> Option<WOut> {
    let (h, _) = IpHeaders::from_slice(b).ok()?;
    let mut w = w;
    Some(match h.write(&mut w) {
        Ok(()) => WOut::Ok,
        Err(err::ip::HeadersWriteError::Io(e)) => wio(e),
        Err(o) => WOut::Other(format!("{:?}", o)),
    })
}

/// the other places a space error states its numbers: the conversion into the builder's error
/// type and the message
fn space_error_restated(e: &err::SliceWriteSpaceError) -> Option<String> {
    let conv = err::packet::BuildSliceWriteError::from(e.clone());
    if conv != err::packet::BuildSliceWriteError::Space(e.required_len) {
        return Some(format!("BuildSliceWriteError::from(..) = {:?}", conv));
    }
    let text = format!("{}", e);
    let numbers: Vec<usize> = text.split(|c: char| !c.is_ascii_digit()).filter_map(|t| t.parse().ok()).collect();
    if !numbers.contains(&e.required_len) || !numbers.contains(&e.len) {
        return Some(format!("message {:?}", text));
    }
    let text = format!("{}", conv);
    let numbers: Vec<usize> = text.split(|c: char| !c.is_ascii_digit()).filter_map(|t| t.parse().ok()).collect();
    if !numbers.contains(&e.required_len) {
        return Some(format!("message of the converted error {:?}", text));
    }
    None
}

fn sw_eth(b: &[u8], out: &mut [u8]) -> Option<Result<usize, (usize, usize, Option<String>)>> {
    let h = Ethernet2Header::from_slice(b).ok()?.0;
    Some(match h.write_to_slice(out) {
        Ok(rest) => Ok(rest.len()),
        Err(e) => Err((e.required_len, e.len, space_error_restated(&e))),
    })
}
fn sw_sll(b: &[u8], out: &mut [u8]) -> Option<Result<usize, (usize, usize, Option<String>)>> {
    let h = LinuxSllHeader::from_slice(b).ok()?.0;
    Some(match h.write_to_slice(out) {
        Ok(rest) => Ok(rest.len()),
        Err(e) => Err((e.required_len, e.len, space_error_restated(&e))),
    })
}

fn g_link_header(rng: &mut Prng) -> Vec<u8> {
    if rng.bool() {
        let mut b = g_eth(rng);
        if !b.is_empty() {
            b[0] &= 0xfe;
        }
        b
    } else {
        let mut b = g_sll(rng);
        if !b.is_empty() {
            b[0] |= 1;
        }
        b
    }
}
fn g_transport_header(rng: &mut Prng) -> Vec<u8> {
    match rng.below(4) {
        0 => g_udp(rng),
        1 => g_tcp(rng),
        2 => g_icmp4(rng),
        _ => g_icmp6(rng),
    }
}

pub const WRITERS: &[WriterType] = &[
    WriterType { name: "Ethernet2Header", gen: g_eth, write: w_eth, write_to_slice: Some(sw_eth), multi_part: false },
    WriterType { name: "LinuxSllHeader", gen: g_sll, write: w_sll, write_to_slice: Some(sw_sll), multi_part: false },
    WriterType { name: "SingleVlanHeader", gen: g_vlan, write: w_vlan, write_to_slice: None, multi_part: false },
    WriterType { name: "MacsecHeader", gen: g_macsec, write: w_macsec, write_to_slice: None, multi_part: false },
    WriterType { name: "ArpPacket", gen: g_arp, write: w_arp, write_to_slice: None, multi_part: false },
    WriterType { name: "Ipv4Header", gen: g_ipv4, write: w_ipv4, write_to_slice: None, multi_part: true },
    WriterType { name: "Ipv4Header(write_raw)", gen: g_ipv4, write: w_ipv4_raw, write_to_slice: None, multi_part: true },
    WriterType { name: "Ipv6Header", gen: g_ipv6, write: w_ipv6, write_to_slice: None, multi_part: false },
    WriterType { name: "IpAuthHeader", gen: g_auth, write: w_auth, write_to_slice: None, multi_part: true },
    WriterType { name: "Ipv6RawExtHeader", gen: g_raw_ext, write: w_raw_ext, write_to_slice: None, multi_part: false },
    WriterType { name: "Ipv6FragmentHeader", gen: g_frag, write: w_frag, write_to_slice: None, multi_part: false },
    WriterType { name: "Ipv4Extensions", gen: g_ipv4_exts, write: w_ipv4_exts, write_to_slice: None, multi_part: true },
    WriterType { name: "Ipv6Extensions", gen: g_ipv6_exts, write: w_ipv6_exts, write_to_slice: None, multi_part: true },
    WriterType { name: "IpHeaders", gen: g_ip_headers, write: w_ip_headers, write_to_slice: None, multi_part: true },
    WriterType { name: "UdpHeader", gen: g_udp, write: w_udp, write_to_slice: None, multi_part: false },
    WriterType { name: "TcpHeader", gen: g_tcp, write: w_tcp, write_to_slice: None, multi_part: true },
    WriterType { name: "Icmpv4Header", gen: g_icmp4, write: w_icmp4, write_to_slice: None, multi_part: false },
    WriterType { name: "Icmpv6Header", gen: g_icmp6, write: w_icmp6, write_to_slice: None, multi_part: false },
    WriterType { name: "LinkHeader", gen: g_link_header, write: w_link_header, write_to_slice: None, multi_part: false },
    WriterType { name: "TransportHeader", gen: g_transport_header, write: w_transport_header, write_to_slice: None, multi_part: false },
    WriterType { name: "Icmpv6Payload", gen: g_icmp6_payload, write: w_icmp6_payload, write_to_slice: None, multi_part: false },
];
