//! The IP boundary implementations (12 hand-copied siblings + Ipv6Slice::from_slice_lax) in
//! neutral form.

use super::whole::NPay;
use super::*;
use crate::refmodel::pkt::{ExtMode, Mode, Start};

#[derive(Clone, Copy, Debug, PartialEq, Eq, PartialOrd, Ord)]
pub enum IpEntry {
    IpSlice,
    Ipv4Slice,
    Ipv6Slice,
    Ipv6SliceLax,
    LaxIpSlice,
    LaxIpv4Slice,
    LaxIpv6Slice,
    HdrsFromSlice,
    HdrsFromSliceLax,
    HdrsFromIpv4Slice,
    HdrsFromIpv4SliceLax,
    HdrsFromIpv6Slice,
    HdrsFromIpv6SliceLax,
}

pub const IP_ENTRIES: [IpEntry; 13] = [
    IpEntry::IpSlice,
    IpEntry::Ipv4Slice,
    IpEntry::Ipv6Slice,
    IpEntry::Ipv6SliceLax,
    IpEntry::LaxIpSlice,
    IpEntry::LaxIpv4Slice,
    IpEntry::LaxIpv6Slice,
    IpEntry::HdrsFromSlice,
    IpEntry::HdrsFromSliceLax,
    IpEntry::HdrsFromIpv4Slice,
    IpEntry::HdrsFromIpv4SliceLax,
    IpEntry::HdrsFromIpv6Slice,
    IpEntry::HdrsFromIpv6SliceLax,
];

impl IpEntry {
    pub fn name(self) -> &'static str {
        match self {
            IpEntry::IpSlice => "IpSlice::from_slice",
            IpEntry::Ipv4Slice => "Ipv4Slice::from_slice",
            IpEntry::Ipv6Slice => "Ipv6Slice::from_slice",
            IpEntry::Ipv6SliceLax => "Ipv6Slice::from_slice_lax",
            IpEntry::LaxIpSlice => "LaxIpSlice::from_slice",
            IpEntry::LaxIpv4Slice => "LaxIpv4Slice::from_slice",
            IpEntry::LaxIpv6Slice => "LaxIpv6Slice::from_slice",
            IpEntry::HdrsFromSlice => "IpHeaders::from_slice",
            IpEntry::HdrsFromSliceLax => "IpHeaders::from_slice_lax",
            IpEntry::HdrsFromIpv4Slice => "IpHeaders::from_ipv4_slice",
            IpEntry::HdrsFromIpv4SliceLax => "IpHeaders::from_ipv4_slice_lax",
            IpEntry::HdrsFromIpv6Slice => "IpHeaders::from_ipv6_slice",
            IpEntry::HdrsFromIpv6SliceLax => "IpHeaders::from_ipv6_slice_lax",
        }
    }
    pub fn id(self) -> u64 {
        200 + self as u64
    }
    pub fn start(self) -> Start {
        match self {
            IpEntry::IpSlice | IpEntry::LaxIpSlice | IpEntry::HdrsFromSlice | IpEntry::HdrsFromSliceLax => Start::Ip,
            IpEntry::Ipv4Slice | IpEntry::LaxIpv4Slice | IpEntry::HdrsFromIpv4Slice | IpEntry::HdrsFromIpv4SliceLax => {
                Start::Ipv4
            }
            _ => Start::Ipv6,
        }
    }
    pub fn mode(self) -> Mode {
        match self {
            IpEntry::IpSlice
            | IpEntry::Ipv4Slice
            | IpEntry::Ipv6Slice
            | IpEntry::HdrsFromSlice
            | IpEntry::HdrsFromIpv4Slice
            | IpEntry::HdrsFromIpv6Slice => Mode::Strict,
            _ => Mode::Lax,
        }
    }
    /// Ipv6Slice::from_slice_lax is lax about the payload length only: extension header faults
    /// are still errors
    pub fn lax_len_only(self) -> bool {
        self == IpEntry::Ipv6SliceLax
    }
    pub fn ext_mode(self) -> ExtMode {
        match self {
            IpEntry::HdrsFromSlice
            | IpEntry::HdrsFromSliceLax
            | IpEntry::HdrsFromIpv4Slice
            | IpEntry::HdrsFromIpv4SliceLax
            | IpEntry::HdrsFromIpv6Slice
            | IpEntry::HdrsFromIpv6SliceLax => ExtMode::Struct,
            _ => ExtMode::Slice,
        }
    }
    pub fn is_struct(self) -> bool {
        self.ext_mode() == ExtMode::Struct
    }
}

pub struct IpOut {
    pub out: NOut,
    pub pay: NPay,
    pub budget_exceeded: bool,
}

fn pay_strict(cx: &mut Cx, p: &IpPayloadSlice) -> NPay {
    NPay {
        kind: "ip",
        off: cx.off(p.payload, "ip payload"),
        len: p.payload.len(),
        num: Some(p.ip_number.0 as u16),
        src: Some(src(p.len_source)),
        fragmented: Some(p.fragmented),
        incomplete: None,
    }
}
fn pay_lax(cx: &mut Cx, p: &LaxIpPayloadSlice) -> NPay {
    NPay {
        kind: "ip",
        off: cx.off(p.payload, "ip payload"),
        len: p.payload.len(),
        num: Some(p.ip_number.0 as u16),
        src: Some(src(p.len_source)),
        fragmented: Some(p.fragmented),
        incomplete: Some(p.incomplete),
    }
}

fn err_out(e: NErr) -> IpOut {
    IpOut {
        out: NOut::err(e),
        pay: NPay::none(),
        budget_exceeded: false,
    }
}

fn hdrs_layers(h: &IpHeaders, layers: &mut Vec<NLayer>) {
    match h {
        IpHeaders::Ipv4(h, e) => ls_ipv4_hdr(h, e, layers),
        IpHeaders::Ipv6(h, e) => ls_ipv6_hdr(h, e, layers),
    }
}

fn n_ip_exts_slice_error(e: &err::ip_exts::HeadersSliceError) -> NErr {
    match e {
        err::ip_exts::HeadersSliceError::Len(l) => nlen(l),
        err::ip_exts::HeadersSliceError::Content(c) => match c {
            err::ip_exts::HeaderError::Ipv4Ext(c) => c_auth_v4(c),
            err::ip_exts::HeaderError::Ipv6Ext(c) => c_ipv6_exts(c),
        },
    }
}

/// neutral form of a `LaxIpSlice::from_slice`-shaped result (also used for the views that re-decode a
/// quoted packet, e.g. `icmpv6::*PayloadSlice::as_lax_ip_slice`)
pub fn lax_ip_result(
    res: Result<(LaxIpSlice, Option<(err::ipv6_exts::HeaderSliceError, err::Layer)>), err::ip::LaxHeaderSliceError>,
    cx: &mut Cx,
    deep: bool,
) -> IpOut {
    let mut layers = Vec::with_capacity(6);
    let mut budget = false;
    match res {
        Ok((s, stop)) => {
            match &s {
                LaxIpSlice::Ipv4(x) => ls_lax_ipv4(cx, x, &mut layers),
                LaxIpSlice::Ipv6(x) => budget |= ls_lax_ipv6(cx, x, &mut layers),
            }
            if deep {
                exhaust::lax_ip_slice_common(cx, &s);
                match &s {
                    LaxIpSlice::Ipv4(x) => exhaust::lax_ipv4_slice(cx, x),
                    LaxIpSlice::Ipv6(x) => budget |= !exhaust::lax_ipv6_slice(cx, x),
                }
                if let Some((e, _)) = &stop {
                    exhaust::fmt_err(cx, e);
                }
            }
            {
                let (src, dst): (Vec<u8>, Vec<u8>) = match &s {
                    LaxIpSlice::Ipv4(x) => (x.header().source().to_vec(), x.header().destination().to_vec()),
                    LaxIpSlice::Ipv6(x) => (x.header().source().to_vec(), x.header().destination().to_vec()),
                };
                let addr = |a: core::net::IpAddr| -> Vec<u8> {
                    match a {
                        core::net::IpAddr::V4(v) => v.octets().to_vec(),
                        core::net::IpAddr::V6(v) => v.octets().to_vec(),
                    }
                };
                let ok = s.is_fragmenting_payload() == s.payload().fragmented
                    && s.payload_ip_number() == s.payload().ip_number
                    && addr(s.source_addr()) == src
                    && addr(s.destination_addr()) == dst
                    && s.ipv4().is_some() == matches!(s, LaxIpSlice::Ipv4(_))
                    && s.ipv6().is_some() == matches!(s, LaxIpSlice::Ipv6(_));
                if !ok {
                    if let Some(l) = layers.first_mut() {
                        l.p("accessor_mismatch", 2u8);
                    }
                }
            }
            let pay = pay_lax(cx, s.payload());
            IpOut {
                out: NOut {
                    layers,
                    err: None,
                    stop: stop.map(|(e, l)| (n_ipv6_exts_slice_error(&e), lay(l))),
                },
                pay,
                budget_exceeded: budget,
            }
        }
        Err(e) => {
            if deep {
                exhaust::fmt_err(cx, &e);
            }
            err_out(n_lax_ip_header_error(&e))
        }
    }
}

pub fn decode(entry: IpEntry, input: &[u8], cx: &mut Cx, deep: bool) -> IpOut {
    let mut layers = Vec::with_capacity(6);
    let mut budget = false;
    match entry {
        IpEntry::IpSlice => match IpSlice::from_slice(input) {
            Ok(s) => {
                match &s {
                    IpSlice::Ipv4(x) => ls_ipv4(cx, x, &mut layers),
                    IpSlice::Ipv6(x) => budget |= ls_ipv6(cx, x, &mut layers),
                }
                if deep {
                    exhaust::ip_slice_common(cx, &s);
                    match &s {
                        IpSlice::Ipv4(x) => exhaust::ipv4_slice(cx, x),
                        IpSlice::Ipv6(x) => budget |= !exhaust::ipv6_slice(cx, x),
                    }
                }
                // the accessors of the version-dispatching wrapper answer like the variant they wrap
                {
                    let (src, dst): (Vec<u8>, Vec<u8>) = match &s {
                        IpSlice::Ipv4(x) => (x.header().source().to_vec(), x.header().destination().to_vec()),
                        IpSlice::Ipv6(x) => (x.header().source().to_vec(), x.header().destination().to_vec()),
                    };
                    let addr = |a: core::net::IpAddr| -> Vec<u8> {
                        match a {
                            core::net::IpAddr::V4(v) => v.octets().to_vec(),
                            core::net::IpAddr::V6(v) => v.octets().to_vec(),
                        }
                    };
                    let ok = s.is_fragmenting_payload() == s.payload().fragmented
                        && s.payload_ip_number() == s.payload().ip_number
                        && addr(s.source_addr()) == src
                        && addr(s.destination_addr()) == dst
                        && addr(s.header().source_addr()) == src
                        && addr(s.header().destination_addr()) == dst
                        && s.ipv4().is_some() == matches!(s, IpSlice::Ipv4(_))
                        && s.ipv6().is_some() == matches!(s, IpSlice::Ipv6(_))
                        && s.header().is_ipv4() == matches!(s, IpSlice::Ipv4(_))
                        && s.header().is_ipv6() == matches!(s, IpSlice::Ipv6(_))
                        && s.header().ipv4().is_some() == matches!(s, IpSlice::Ipv4(_))
                        && s.header().ipv6().is_some() == matches!(s, IpSlice::Ipv6(_))
                        && s.header().ipv4_exts().is_some() == matches!(s, IpSlice::Ipv4(_))
                        && s.header().ipv6_exts().is_some() == matches!(s, IpSlice::Ipv6(_))
                        && s.header().version() == if matches!(s, IpSlice::Ipv4(_)) { 4 } else { 6 };
                    if !ok {
                        if let Some(l) = layers.first_mut() {
                            l.p("accessor_mismatch", 2u8);
                        }
                    }
                }
                let pay = pay_strict(cx, s.payload());
                IpOut {
                    out: NOut::ok(layers),
                    pay,
                    budget_exceeded: budget,
                }
            }
            Err(e) => {
                if deep {
                    exhaust::fmt_err(cx, &e);
                }
                err_out(n_ip_slice_error(&e))
            }
        },
        IpEntry::Ipv4Slice => match Ipv4Slice::from_slice(input) {
            Ok(s) => {
                ls_ipv4(cx, &s, &mut layers);
                if deep {
                    exhaust::ipv4_slice(cx, &s);
                }
                let pay = pay_strict(cx, s.payload());
                IpOut {
                    out: NOut::ok(layers),
                    pay,
                    budget_exceeded: false,
                }
            }
            Err(e) => {
                if deep {
                    exhaust::fmt_err(cx, &e);
                }
                err_out(n_ipv4_slice_error(&e))
            }
        },
        IpEntry::Ipv6Slice | IpEntry::Ipv6SliceLax => {
            let r = if entry == IpEntry::Ipv6Slice {
                Ipv6Slice::from_slice(input)
            } else {
                Ipv6Slice::from_slice_lax(input)
            };
            match r {
                Ok(s) => {
                    budget |= ls_ipv6(cx, &s, &mut layers);
                    if deep {
                        budget |= !exhaust::ipv6_slice(cx, &s);
                    }
                    let pay = pay_strict(cx, s.payload());
                    IpOut {
                        out: NOut::ok(layers),
                        pay,
                        budget_exceeded: budget,
                    }
                }
                Err(e) => {
                    if deep {
                        exhaust::fmt_err(cx, &e);
                    }
                    err_out(n_ipv6_slice_error(&e))
                }
            }
        }
        IpEntry::LaxIpSlice => lax_ip_result(LaxIpSlice::from_slice(input), cx, deep),
        IpEntry::LaxIpv4Slice => match LaxIpv4Slice::from_slice(input) {
            Ok((s, stop)) => {
                ls_lax_ipv4(cx, &s, &mut layers);
                if deep {
                    exhaust::lax_ipv4_slice(cx, &s);
                    if let Some(e) = &stop {
                        exhaust::fmt_err(cx, e);
                    }
                }
                let pay = pay_lax(cx, s.payload());
                IpOut {
                    out: NOut {
                        layers,
                        err: None,
                        stop: stop.map(|e| (n_auth_slice_error_v4(&e), Lay::IpAuthHeader)),
                    },
                    pay,
                    budget_exceeded: false,
                }
            }
            Err(e) => {
                if deep {
                    exhaust::fmt_err(cx, &e);
                }
                err_out(n_ipv4_header_slice_error(&e))
            }
        },
        IpEntry::LaxIpv6Slice => match LaxIpv6Slice::from_slice(input) {
            Ok((s, stop)) => {
                budget |= ls_lax_ipv6(cx, &s, &mut layers);
                if deep {
                    budget |= !exhaust::lax_ipv6_slice(cx, &s);
                    if let Some((e, _)) = &stop {
                        exhaust::fmt_err(cx, e);
                    }
                }
                let pay = pay_lax(cx, s.payload());
                IpOut {
                    out: NOut {
                        layers,
                        err: None,
                        stop: stop.map(|(e, l)| (n_ipv6_exts_slice_error(&e), lay(l))),
                    },
                    pay,
                    budget_exceeded: budget,
                }
            }
            Err(e) => {
                if deep {
                    exhaust::fmt_err(cx, &e);
                }
                err_out(n_ipv6_header_slice_error(&e))
            }
        },
        IpEntry::HdrsFromSlice => match IpHeaders::from_slice(input) {
            Ok((h, p)) => {
                hdrs_layers(&h, &mut layers);
                if deep {
                    exhaust::ip_headers(cx, &h);
                }
                let pay = pay_strict(cx, &p);
                IpOut {
                    out: NOut::ok(layers),
                    pay,
                    budget_exceeded: false,
                }
            }
            Err(e) => {
                if deep {
                    exhaust::fmt_err(cx, &e);
                }
                err_out(n_ip_headers_slice_error(&e))
            }
        },
        IpEntry::HdrsFromSliceLax => match IpHeaders::from_slice_lax(input) {
            Ok((h, p, stop)) => {
                hdrs_layers(&h, &mut layers);
                if deep {
                    exhaust::ip_headers(cx, &h);
                    if let Some((e, _)) = &stop {
                        exhaust::fmt_err(cx, e);
                    }
                }
                let pay = pay_lax(cx, &p);
                IpOut {
                    out: NOut {
                        layers,
                        err: None,
                        stop: stop.map(|(e, l)| (n_ip_exts_slice_error(&e), lay(l))),
                    },
                    pay,
                    budget_exceeded: false,
                }
            }
            Err(e) => {
                if deep {
                    exhaust::fmt_err(cx, &e);
                }
                err_out(n_lax_ip_header_error(&e))
            }
        },
        IpEntry::HdrsFromIpv4Slice => match IpHeaders::from_ipv4_slice(input) {
            Ok((h, p)) => {
                hdrs_layers(&h, &mut layers);
                if deep {
                    exhaust::ip_headers(cx, &h);
                }
                let pay = pay_strict(cx, &p);
                IpOut {
                    out: NOut::ok(layers),
                    pay,
                    budget_exceeded: false,
                }
            }
            Err(e) => {
                if deep {
                    exhaust::fmt_err(cx, &e);
                }
                err_out(n_ipv4_slice_error(&e))
            }
        },
        IpEntry::HdrsFromIpv4SliceLax => match IpHeaders::from_ipv4_slice_lax(input) {
            Ok((h, p, stop)) => {
                hdrs_layers(&h, &mut layers);
                if deep {
                    exhaust::ip_headers(cx, &h);
                    if let Some(e) = &stop {
                        exhaust::fmt_err(cx, e);
                    }
                }
                let pay = pay_lax(cx, &p);
                IpOut {
                    out: NOut {
                        layers,
                        err: None,
                        stop: stop.map(|e| (n_auth_slice_error_v4(&e), Lay::IpAuthHeader)),
                    },
                    pay,
                    budget_exceeded: false,
                }
            }
            Err(e) => {
                if deep {
                    exhaust::fmt_err(cx, &e);
                }
                err_out(n_lax_ip_header_error(&e))
            }
        },
        IpEntry::HdrsFromIpv6Slice => match IpHeaders::from_ipv6_slice(input) {
            Ok((h, p)) => {
                hdrs_layers(&h, &mut layers);
                if deep {
                    exhaust::ip_headers(cx, &h);
                }
                let pay = pay_strict(cx, &p);
                IpOut {
                    out: NOut::ok(layers),
                    pay,
                    budget_exceeded: false,
                }
            }
            Err(e) => {
                if deep {
                    exhaust::fmt_err(cx, &e);
                }
                err_out(n_ipv6_slice_error(&e))
            }
        },
        IpEntry::HdrsFromIpv6SliceLax => match IpHeaders::from_ipv6_slice_lax(input) {
            Ok((h, p, stop)) => {
                hdrs_layers(&h, &mut layers);
                if deep {
                    exhaust::ip_headers(cx, &h);
                    if let Some((e, _)) = &stop {
                        exhaust::fmt_err(cx, e);
                    }
                }
                let pay = pay_lax(cx, &p);
                IpOut {
                    out: NOut {
                        layers,
                        err: None,
                        stop: stop.map(|(e, l)| (n_ipv6_exts_slice_error(&e), lay(l))),
                    },
                    pay,
                    budget_exceeded: false,
                }
            }
            Err(e) => {
                if deep {
                    exhaust::fmt_err(cx, &e);
                }
                err_out(n_ipv6_header_slice_error(&e))
            }
        },
    }
}
