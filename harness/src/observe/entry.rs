//! Whole-packet entry points of the four decoder families, called on an input and converted to
//! the neutral form.

use super::whole::*;
use super::*;
use crate::refmodel::pkt::Start;

#[derive(Clone, Copy, Debug, PartialEq, Eq, PartialOrd, Ord)]
pub enum Family {
    Sliced,
    LaxSliced,
    Headers,
    LaxHeaders,
}

pub const FAMILIES: [Family; 4] = [
    Family::Sliced,
    Family::LaxSliced,
    Family::Headers,
    Family::LaxHeaders,
];

impl Family {
    pub fn is_lax(self) -> bool {
        matches!(self, Family::LaxSliced | Family::LaxHeaders)
    }
    pub fn is_struct(self) -> bool {
        matches!(self, Family::Headers | Family::LaxHeaders)
    }
    pub fn supports(self, s: Start) -> bool {
        match (self, s) {
            (_, Start::Ipv4 | Start::Ipv6) => false,
            (Family::Sliced, _) => true,
            (Family::LaxHeaders, _) => true,
            (Family::LaxSliced | Family::Headers, Start::Sll) => false,
            _ => true,
        }
    }
    pub fn name(self, s: Start) -> &'static str {
        match (self, s) {
            (Family::Sliced, Start::Eth) => "SlicedPacket::from_ethernet",
            (Family::Sliced, Start::Sll) => "SlicedPacket::from_linux_sll",
            (Family::Sliced, Start::EtherType(_)) => "SlicedPacket::from_ether_type",
            (Family::Sliced, _) => "SlicedPacket::from_ip",
            (Family::LaxSliced, Start::Eth) => "LaxSlicedPacket::from_ethernet",
            (Family::LaxSliced, Start::EtherType(_)) => "LaxSlicedPacket::from_ether_type",
            (Family::LaxSliced, _) => "LaxSlicedPacket::from_ip",
            (Family::Headers, Start::Eth) => "PacketHeaders::from_ethernet_slice",
            (Family::Headers, Start::EtherType(_)) => "PacketHeaders::from_ether_type",
            (Family::Headers, _) => "PacketHeaders::from_ip_slice",
            (Family::LaxHeaders, Start::Eth) => "LaxPacketHeaders::from_ethernet",
            (Family::LaxHeaders, Start::Sll) => "LaxPacketHeaders::from_linux_sll",
            (Family::LaxHeaders, Start::EtherType(_)) => "LaxPacketHeaders::from_ether_type",
            (Family::LaxHeaders, _) => "LaxPacketHeaders::from_ip",
        }
    }
}

fn err_whole(e: NErr) -> Whole {
    Whole {
        out: NOut::err(e),
        pay: NPay::none(),
        acc: Vec::new(),
        budget_exceeded: false,
    }
}

/// decode `input` with the given family/start and observe the result. `deep` additionally runs
/// the full accessor closure (observe::exhaust) on the result.
pub fn decode(family: Family, start: Start, input: &[u8], cx: &mut Cx, deep: bool) -> Whole {
    match family {
        Family::Sliced => {
            let r = match start {
                Start::Eth => SlicedPacket::from_ethernet(input),
                Start::Sll => SlicedPacket::from_linux_sll(input),
                Start::EtherType(t) => SlicedPacket::from_ether_type(EtherType(t), input),
                _ => SlicedPacket::from_ip(input),
            };
            match r {
                Ok(p) => {
                    let w = sliced_cx(cx, &p);
                    if deep {
                        exhaust::sliced_packet(cx, &p);
                    }
                    w
                }
                Err(e) => {
                    if deep {
                        exhaust::fmt_err(cx, &e);
                    }
                    err_whole(n_packet_slice_error(&e))
                }
            }
        }
        Family::LaxSliced => match start {
            Start::Eth => match LaxSlicedPacket::from_ethernet(input) {
                Ok(p) => {
                    let w = lax_sliced_cx(cx, &p);
                    if deep {
                        exhaust::lax_sliced_packet(cx, &p);
                    }
                    w
                }
                Err(e) => {
                    if deep {
                        exhaust::fmt_err(cx, &e);
                    }
                    err_whole(nlen(&e))
                }
            },
            Start::EtherType(t) => {
                let p = LaxSlicedPacket::from_ether_type(EtherType(t), input);
                let w = lax_sliced_cx(cx, &p);
                if deep {
                    exhaust::lax_sliced_packet(cx, &p);
                }
                w
            }
            _ => match LaxSlicedPacket::from_ip(input) {
                Ok(p) => {
                    let w = lax_sliced_cx(cx, &p);
                    if deep {
                        exhaust::lax_sliced_packet(cx, &p);
                    }
                    w
                }
                Err(e) => {
                    if deep {
                        exhaust::fmt_err(cx, &e);
                    }
                    err_whole(n_lax_ip_header_error(&e))
                }
            },
        },
        Family::Headers => {
            let r = match start {
                Start::Eth => PacketHeaders::from_ethernet_slice(input),
                Start::EtherType(t) => PacketHeaders::from_ether_type(EtherType(t), input),
                _ => PacketHeaders::from_ip_slice(input),
            };
            match r {
                Ok(p) => {
                    let w = headers_cx(cx, &p);
                    if deep {
                        exhaust::packet_headers(cx, &p);
                    }
                    w
                }
                Err(e) => {
                    if deep {
                        exhaust::fmt_err(cx, &e);
                    }
                    err_whole(n_packet_slice_error(&e))
                }
            }
        }
        Family::LaxHeaders => match start {
            Start::Eth => match LaxPacketHeaders::from_ethernet(input) {
                Ok(p) => {
                    let w = lax_headers_cx(cx, &p);
                    if deep {
                        exhaust::lax_packet_headers(cx, &p);
                    }
                    w
                }
                Err(e) => {
                    if deep {
                        exhaust::fmt_err(cx, &e);
                    }
                    err_whole(nlen(&e))
                }
            },
            Start::Sll => match LaxPacketHeaders::from_linux_sll(input) {
                Ok(p) => {
                    let w = lax_headers_cx(cx, &p);
                    if deep {
                        exhaust::lax_packet_headers(cx, &p);
                    }
                    w
                }
                Err(e) => {
                    if deep {
                        exhaust::fmt_err(cx, &e);
                    }
                    err_whole(n_sll_slice_error(&e))
                }
            },
            Start::EtherType(t) => {
                let p = LaxPacketHeaders::from_ether_type(EtherType(t), input);
                let w = lax_headers_cx(cx, &p);
                if deep {
                    exhaust::lax_packet_headers(cx, &p);
                }
                w
            }
            _ => match LaxPacketHeaders::from_ip(input) {
                Ok(p) => {
                    let w = lax_headers_cx(cx, &p);
                    if deep {
                        exhaust::lax_packet_headers(cx, &p);
                    }
                    w
                }
                Err(e) => {
                    if deep {
                        exhaust::fmt_err(cx, &e);
                    }
                    err_whole(n_lax_ip_header_error(&e))
                }
            },
        },
    }
}
