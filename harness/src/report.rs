//! Per-worker report: counters, distinct behaviour signatures, samples, violations.
//! Written as JSON lines; merged by the python driver.

use std::collections::{BTreeMap, BTreeSet};
use std::fmt::Write as _;

pub fn jstr(s: &str) -> String {
    let mut o = String::with_capacity(s.len() + 2);
    o.push('"');
    for c in s.chars() {
        match c {
            '"' => o.push_str("\\\""),
            '\\' => o.push_str("\\\\"),
            '\n' => o.push_str("\\n"),
            '\r' => o.push_str("\\r"),
            '\t' => o.push_str("\\t"),
            c if (c as u32) < 0x20 => {
                let _ = write!(o, "\\u{:04x}", c as u32);
            }
            c => o.push(c),
        }
    }
    o.push('"');
    o
}

pub fn hex(b: &[u8]) -> String {
    let mut s = String::with_capacity(b.len() * 2);
    for x in b {
        let _ = write!(s, "{:02x}", x);
    }
    s
}

pub fn unhex(s: &str) -> Vec<u8> {
    let s = s.trim();
    (0..s.len() / 2)
        .map(|i| u8::from_str_radix(&s[2 * i..2 * i + 2], 16).unwrap_or(0))
        .collect()
}

#[derive(Clone, Debug)]
pub struct Violation {
    pub prop: String,
    /// stable signature of the violated rule (used for de-duplication and the known-findings file)
    pub sig: String,
    pub detail: String,
    pub engine: String,
    pub case: u64,
    pub input: Vec<u8>,
}

pub struct Report {
    pub prop: String,
    pub flavour: String,
    pub evals: u64,
    pub counters: BTreeMap<String, u64>,
    /// hashes of distinct non-trivial behaviour signatures
    pub sigs: BTreeSet<u64>,
    pub samples: Vec<String>,
    pub max_samples: usize,
    pub violations: Vec<Violation>,
    pub viol_count: BTreeMap<String, u64>,
    pub selfcheck_failures: Vec<String>,
    pub notes: BTreeSet<String>,
    // current case (for violation attribution)
    pub cur_engine: String,
    pub cur_case: u64,
}

impl Report {
    pub fn new(prop: &str, flavour: &str) -> Report {
        Report {
            prop: prop.to_string(),
            flavour: flavour.to_string(),
            evals: 0,
            counters: BTreeMap::new(),
            sigs: BTreeSet::new(),
            samples: Vec::new(),
            max_samples: 4,
            violations: Vec::new(),
            viol_count: BTreeMap::new(),
            selfcheck_failures: Vec::new(),
            notes: BTreeSet::new(),
            cur_engine: String::new(),
            cur_case: 0,
        }
    }

    #[inline]
    pub fn count(&mut self, key: &str) {
        self.add(key, 1);
    }

    #[inline]
    pub fn add(&mut self, key: &str, n: u64) {
        if let Some(v) = self.counters.get_mut(key) {
            *v += n;
        } else {
            self.counters.insert(key.to_string(), n);
        }
    }

    #[inline]
    pub fn sig(&mut self, s: &str) {
        self.sigs.insert(crate::prng::hash_str(s));
    }

    #[inline]
    pub fn sig_hash(&mut self, h: u64) {
        self.sigs.insert(h);
    }

    /// `json` must be a valid JSON value
    pub fn sample(&mut self, json: String) {
        if self.samples.len() < self.max_samples {
            self.samples.push(json);
        }
    }

    pub fn want_sample(&self) -> bool {
        self.samples.len() < self.max_samples
    }

    pub fn note(&mut self, s: &str) {
        if self.notes.len() < 50 {
            self.notes.insert(s.to_string());
        }
    }

    pub fn violation(&mut self, sig: &str, detail: String, input: &[u8]) {
        let prop = self.prop.clone();
        self.violation_for(&prop, sig, detail, input);
    }

    pub fn violation_for(&mut self, prop: &str, sig: &str, detail: String, input: &[u8]) {
        let key = format!("{}|{}", prop, sig);
        let n = self.viol_count.entry(key).or_insert(0);
        *n += 1;
        // keep the first three witnesses per signature
        if *n <= 3 {
            self.violations.push(Violation {
                prop: prop.to_string(),
                sig: sig.to_string(),
                detail,
                engine: self.cur_engine.clone(),
                case: self.cur_case,
                input: input.to_vec(),
            });
        }
    }

    pub fn selfcheck_fail(&mut self, what: String) {
        if self.selfcheck_failures.len() < 20 {
            self.selfcheck_failures.push(what);
        }
    }

    pub fn to_jsonl(&self) -> String {
        let mut out = String::new();
        for v in &self.violations {
            let _ = writeln!(
                out,
                "{{\"t\":\"viol\",\"prop\":{},\"sig\":{},\"detail\":{},\"engine\":{},\"case\":{},\"flavour\":{},\"input\":{}}}",
                jstr(&v.prop),
                jstr(&v.sig),
                jstr(&v.detail),
                jstr(&v.engine),
                v.case,
                jstr(&self.flavour),
                jstr(&hex(&v.input))
            );
        }
        let mut s = String::new();
        let _ = write!(
            s,
            "{{\"t\":\"sum\",\"prop\":{},\"flavour\":{},\"evals\":{},\"counters\":{{",
            jstr(&self.prop),
            jstr(&self.flavour),
            self.evals
        );
        let mut first = true;
        for (k, v) in &self.counters {
            if !first {
                s.push(',');
            }
            first = false;
            let _ = write!(s, "{}:{}", jstr(k), v);
        }
        s.push_str("},\"viol_count\":{");
        first = true;
        for (k, v) in &self.viol_count {
            if !first {
                s.push(',');
            }
            first = false;
            let _ = write!(s, "{}:{}", jstr(k), v);
        }
        s.push_str("},\"sigs\":[");
        first = true;
        for h in &self.sigs {
            if !first {
                s.push(',');
            }
            first = false;
            let _ = write!(s, "\"{:x}\"", h);
        }
        s.push_str("],\"samples\":[");
        first = true;
        for x in &self.samples {
            if !first {
                s.push(',');
            }
            first = false;
            s.push_str(x);
        }
        s.push_str("],\"selfcheck_failures\":[");
        first = true;
        for x in &self.selfcheck_failures {
            if !first {
                s.push(',');
            }
            first = false;
            s.push_str(&jstr(x));
        }
        s.push_str("],\"notes\":[");
        first = true;
        for x in &self.notes {
            if !first {
                s.push(',');
            }
            first = false;
            s.push_str(&jstr(x));
        }
        s.push_str("]}");
        out.push_str(&s);
        out.push('\n');
        out
    }
}
