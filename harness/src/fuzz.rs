//! Entry point for coverage guided input discovery (cargo-fuzz target `diff_all`, see
//! /verif/corpus/README.md). One input = one packet: the first byte selects the start point, the
//! rest are the packet bytes. All whole-packet and IP-level judges of C03/C04/C05/C07 run on it;
//! a violation panics (that is what makes libFuzzer keep the input).

use crate::gen::Case;
use crate::monitors::common::*;
use crate::monitors::{c03, c05, c07};
use crate::observe::entry::{Family, FAMILIES};
use crate::refmodel::pkt::{ExtMode, Mode, Start};
use crate::report::Report;

pub fn start_from_byte(b: u8) -> Start {
    match b % 12 {
        0 | 1 => Start::Eth,
        2 => Start::Sll,
        3 | 4 => Start::Ip,
        5 => Start::EtherType(0x0800),
        6 => Start::EtherType(0x86dd),
        7 => Start::EtherType(0x0806),
        8 => Start::EtherType(0x8100),
        9 => Start::EtherType(0x88e5),
        10 => Start::EtherType(0x88a8),
        _ => Start::EtherType(0x9100),
    }
}

/// judges one input; returns the violations found (signature, detail)
pub fn judge(data: &[u8]) -> Vec<(String, String)> {
    if data.is_empty() {
        return Vec::new();
    }
    let start = start_from_byte(data[0]);
    let bytes = &data[1..];
    let mut rep = Report::new("FUZZ", "fuzz");
    let case = Case {
        bytes: bytes.to_vec(),
        start,
        recipe: None,
        desc: String::new(),
    };
    for f in FAMILIES {
        if !f.supports(start) {
            continue;
        }
        let mode = if f.is_lax() { Mode::Lax } else { Mode::Strict };
        let ext = if f.is_struct() { ExtMode::Struct } else { ExtMode::Slice };
        let name = f.name(start);
        if let Ok(d) = run_family(f, start, bytes, true) {
            let r = rdecode(bytes, start, mode, ext);
            let out = &d.whole.out;
            if f == Family::Sliced {
                c03::judge_strict(&mut rep, "", name, bytes, &r, out);
            }
            if f.is_lax() {
                let always_ok = matches!(start, Start::EtherType(_));
                c05::judge_lax(&mut rep, name, bytes, &r, out, &d.whole.pay, f.is_struct(), always_ok);
            }
            if let Some(e) = &out.err {
                c07::judge_error(&mut rep, name, bytes, &r, e, None);
            }
            if let Some((e, l)) = &out.stop {
                c07::judge_error(&mut rep, name, bytes, &r, e, Some(*l));
            }
            if !d.bad_containment.is_empty() {
                rep.violation(&format!("containment|{}", name), d.bad_containment.join("; "), bytes);
            }
        } else {
            rep.violation(&format!("panic|{}", name), "panic".into(), bytes);
        }
    }
    let _ = case;
    rep.violations.into_iter().map(|v| (v.sig, v.detail)).collect()
}
