//! Deterministic PRNG: splitmix64 seeding + xoshiro256**.
//! Every case derives its own generator from (VERIF_SEED, engine, case index).

#[derive(Clone)]
pub struct Prng {
    s: [u64; 4],
}

pub fn splitmix(x: &mut u64) -> u64 {
    *x = x.wrapping_add(0x9E37_79B9_7F4A_7C15);
    let mut z = *x;
    z = (z ^ (z >> 30)).wrapping_mul(0xBF58_476D_1CE4_E5B9);
    z = (z ^ (z >> 27)).wrapping_mul(0x94D0_49BB_1331_11EB);
    z ^ (z >> 31)
}

pub fn hash_str(s: &str) -> u64 {
    // FNV-1a 64
    let mut h: u64 = 0xcbf2_9ce4_8422_2325;
    for b in s.as_bytes() {
        h ^= *b as u64;
        h = h.wrapping_mul(0x0000_0100_0000_01B3);
    }
    h
}

pub fn hash_bytes(s: &[u8]) -> u64 {
    let mut h: u64 = 0xcbf2_9ce4_8422_2325;
    for b in s {
        h ^= *b as u64;
        h = h.wrapping_mul(0x0000_0100_0000_01B3);
    }
    h
}

impl Prng {
    pub fn new(seed: u64) -> Prng {
        let mut x = seed;
        let s = [
            splitmix(&mut x),
            splitmix(&mut x),
            splitmix(&mut x),
            splitmix(&mut x),
        ];
        Prng { s }
    }

    pub fn for_case(seed: u64, engine: &str, idx: u64) -> Prng {
        let mut x = seed ^ hash_str(engine).rotate_left(17);
        let a = splitmix(&mut x);
        let mut y = a ^ idx.wrapping_mul(0xD6E8_FEB8_6659_FD93);
        Prng::new(splitmix(&mut y))
    }

    #[inline]
    pub fn next(&mut self) -> u64 {
        let r = self.s[1].wrapping_mul(5).rotate_left(7).wrapping_mul(9);
        let t = self.s[1] << 17;
        self.s[2] ^= self.s[0];
        self.s[3] ^= self.s[1];
        self.s[1] ^= self.s[2];
        self.s[0] ^= self.s[3];
        self.s[2] ^= t;
        self.s[3] = self.s[3].rotate_left(45);
        r
    }

    /// uniform in 0..n (n > 0)
    #[inline]
    pub fn below(&mut self, n: u64) -> u64 {
        debug_assert!(n > 0);
        ((self.next() as u128 * n as u128) >> 64) as u64
    }

    #[inline]
    pub fn range(&mut self, lo: u64, hi_incl: u64) -> u64 {
        lo + self.below(hi_incl - lo + 1)
    }

    #[inline]
    pub fn usize_below(&mut self, n: usize) -> usize {
        self.below(n as u64) as usize
    }

    #[inline]
    pub fn bool(&mut self) -> bool {
        self.next() & 1 == 1
    }

    /// true with probability num/den
    #[inline]
    pub fn chance(&mut self, num: u64, den: u64) -> bool {
        self.below(den) < num
    }

    #[inline]
    pub fn u8(&mut self) -> u8 {
        self.next() as u8
    }
    #[inline]
    pub fn u16(&mut self) -> u16 {
        self.next() as u16
    }
    #[inline]
    pub fn u32(&mut self) -> u32 {
        self.next() as u32
    }

    pub fn pick<'a, T>(&mut self, xs: &'a [T]) -> &'a T {
        &xs[self.usize_below(xs.len())]
    }

    pub fn fill(&mut self, buf: &mut [u8]) {
        for c in buf.chunks_mut(8) {
            let v = self.next().to_le_bytes();
            c.copy_from_slice(&v[..c.len()]);
        }
    }

    pub fn bytes(&mut self, n: usize) -> Vec<u8> {
        let mut v = vec![0u8; n];
        self.fill(&mut v);
        v
    }

    /// a "corner-biased" u8: extremes and random
    pub fn u8_corner(&mut self) -> u8 {
        match self.below(8) {
            0 => 0,
            1 => 0xff,
            2 => 1,
            3 => 0x80,
            4 => 0x7f,
            _ => self.u8(),
        }
    }
    pub fn u16_corner(&mut self) -> u16 {
        match self.below(8) {
            0 => 0,
            1 => 0xffff,
            2 => 1,
            3 => 0x8000,
            4 => 0x00ff,
            _ => self.u16(),
        }
    }
    pub fn u32_corner(&mut self) -> u32 {
        match self.below(8) {
            0 => 0,
            1 => 0xffff_ffff,
            2 => 1,
            3 => 0x8000_0000,
            4 => 0x0000_ffff,
            _ => self.u32(),
        }
    }
}
