//! Guard-page placement of input buffers (DESIGN §3.2).
//!
//! Layout of the mapping: [PROT_NONE page][data pages …][PROT_NONE page].
//! * `place_end`   : the last input byte is directly in front of the trailing guard page,
//!                   any over-read by one byte faults (SIGSEGV).
//! * `place_start` : the first input byte is directly behind the leading guard page,
//!                   any under-read faults.
//! * `place_mid`   : somewhere in the middle at an odd offset, surrounded by filler bytes
//!                   (position/neighbourhood independence of the observable result).
//!
//! mmap/mprotect are declared directly (std links libc already; no extra crate needed).

use std::os::raw::{c_int, c_long, c_void};

pub const PROT_NONE: c_int = 0;
pub const PROT_READ: c_int = 1;
pub const PROT_WRITE: c_int = 2;
pub const MAP_SHARED: c_int = 1;
pub const MAP_PRIVATE: c_int = 2;
pub const MAP_ANONYMOUS: c_int = 0x20;
pub const MAP_NORESERVE: c_int = 0x4000;

extern "C" {
    pub fn mmap(
        addr: *mut c_void,
        len: usize,
        prot: c_int,
        flags: c_int,
        fd: c_int,
        off: c_long,
    ) -> *mut c_void;
    pub fn mprotect(addr: *mut c_void, len: usize, prot: c_int) -> c_int;
    pub fn munmap(addr: *mut c_void, len: usize) -> c_int;
}

pub const PAGE: usize = 4096;

pub struct Arena {
    #[cfg(not(miri))]
    base: *mut u8,
    data_len: usize,
    #[cfg(miri)]
    heap: Vec<u8>,
}

impl Arena {
    /// `max_len`: largest input that will be placed
    #[cfg(not(miri))]
    pub fn new(max_len: usize) -> Arena {
        let data_pages = (max_len + 64 + PAGE - 1) / PAGE + 1;
        let data_len = data_pages * PAGE;
        let total = data_len + 2 * PAGE;
        unsafe {
            let p = mmap(
                std::ptr::null_mut(),
                total,
                PROT_READ | PROT_WRITE,
                MAP_PRIVATE | MAP_ANONYMOUS,
                -1,
                0,
            );
            assert!(p as isize != -1, "mmap failed");
            let base = p as *mut u8;
            assert_eq!(mprotect(base as *mut c_void, PAGE, PROT_NONE), 0);
            assert_eq!(
                mprotect(base.add(PAGE + data_len) as *mut c_void, PAGE, PROT_NONE),
                0
            );
            Arena { base, data_len }
        }
    }

    #[cfg(miri)]
    pub fn new(max_len: usize) -> Arena {
        Arena {
            data_len: max_len + 64,
            heap: Vec::new(),
        }
    }

    pub fn capacity(&self) -> usize {
        self.data_len - 64
    }

    #[cfg(not(miri))]
    fn data(&mut self) -> &mut [u8] {
        unsafe { std::slice::from_raw_parts_mut(self.base.add(PAGE), self.data_len) }
    }

    /// input ends exactly at the trailing guard page; bytes in front of it are `filler`
    #[cfg(not(miri))]
    pub fn place_end(&mut self, bytes: &[u8], filler: u8) -> &[u8] {
        let n = bytes.len();
        assert!(n <= self.capacity());
        let dl = self.data_len;
        let d = self.data();
        let lo = dl - n;
        let fl = lo.saturating_sub(64);
        for b in &mut d[fl..lo] {
            *b = filler;
        }
        d[lo..].copy_from_slice(bytes);
        unsafe { std::slice::from_raw_parts(self.base.add(PAGE + lo), n) }
    }

    /// input starts exactly behind the leading guard page; bytes behind it are `filler`
    #[cfg(not(miri))]
    pub fn place_start(&mut self, bytes: &[u8], filler: u8) -> &[u8] {
        let n = bytes.len();
        assert!(n <= self.capacity());
        let d = self.data();
        d[..n].copy_from_slice(bytes);
        for b in &mut d[n..n + 64] {
            *b = filler;
        }
        unsafe { std::slice::from_raw_parts(self.base.add(PAGE), n) }
    }

    /// input at `off` (1..=63) behind the start of the data area, surrounded by filler
    #[cfg(not(miri))]
    pub fn place_mid(&mut self, bytes: &[u8], off: usize, filler: u8) -> &[u8] {
        let n = bytes.len();
        assert!(n <= self.capacity() && off < 64);
        let d = self.data();
        for b in &mut d[..off] {
            *b = filler;
        }
        d[off..off + n].copy_from_slice(bytes);
        let hi = (off + n + 64).min(d.len());
        for b in &mut d[off + n..hi] {
            *b = filler;
        }
        unsafe { std::slice::from_raw_parts(self.base.add(PAGE + off), n) }
    }

    // --- Miri: exact-size heap allocations (Miri itself is the bounds monitor) -------------------
    #[cfg(miri)]
    pub fn place_end(&mut self, bytes: &[u8], _filler: u8) -> &[u8] {
        self.heap = bytes.to_vec();
        self.heap.shrink_to_fit();
        &self.heap[..]
    }
    #[cfg(miri)]
    pub fn place_start(&mut self, bytes: &[u8], _filler: u8) -> &[u8] {
        self.place_end(bytes, 0)
    }
    #[cfg(miri)]
    pub fn place_mid(&mut self, bytes: &[u8], off: usize, filler: u8) -> &[u8] {
        let mut v = vec![filler; off];
        v.extend_from_slice(bytes);
        v.extend(std::iter::repeat(filler).take(16));
        self.heap = v;
        &self.heap[off..off + bytes.len()]
    }

    /// writable region of `n` bytes that ends exactly at the trailing guard page and is preceded
    /// by `canary` bytes (for the C16 write-side checks). Returns (slice, pointer to 32 canary
    /// bytes in front of it).
    #[cfg(not(miri))]
    pub fn out_end(&mut self, n: usize, canary: u8) -> (&mut [u8], *const u8) {
        assert!(n <= self.capacity());
        let dl = self.data_len;
        let base = self.base;
        let d = self.data();
        let lo = dl - n;
        for b in &mut d[lo - 32..lo] {
            *b = canary;
        }
        for b in &mut d[lo..] {
            *b = 0xEE;
        }
        unsafe {
            (
                std::slice::from_raw_parts_mut(base.add(PAGE + lo), n),
                base.add(PAGE + lo - 32) as *const u8,
            )
        }
    }
}

#[cfg(not(miri))]
impl Drop for Arena {
    fn drop(&mut self) {
        unsafe {
            munmap(self.base as *mut c_void, self.data_len + 2 * PAGE);
        }
    }
}

/// Exact-size heap placement (for ASan / valgrind flavours where red zones are the monitor).
pub fn heap_exact(bytes: &[u8]) -> Box<[u8]> {
    bytes.to_vec().into_boxed_slice()
}


/// Input placement front end: guard pages (default) or exact-size heap allocations (Miri, ASan
/// and valgrind flavours, where the instrument's own red zones are the monitor).
pub struct Placer {
    guard: Option<Arena>,
    heap: Vec<u8>,
}

#[derive(Clone, Copy, Debug, PartialEq, Eq)]
pub enum Placement {
    End,
    Start,
    MidA,
    MidB,
}

pub const PLACEMENTS: [Placement; 4] = [Placement::End, Placement::Start, Placement::MidA, Placement::MidB];

impl Placer {
    pub fn new(max_len: usize, heap_mode: bool) -> Placer {
        let heap_mode = heap_mode || cfg!(miri);
        Placer {
            guard: if heap_mode { None } else { Some(Arena::new(max_len)) },
            heap: Vec::new(),
        }
    }

    pub fn is_heap(&self) -> bool {
        self.guard.is_none()
    }

    pub fn place(&mut self, bytes: &[u8], p: Placement) -> &[u8] {
        match &mut self.guard {
            Some(a) => match p {
                Placement::End => a.place_end(bytes, 0xA5),
                Placement::Start => a.place_start(bytes, 0x5A),
                Placement::MidA => a.place_mid(bytes, 13, 0x00),
                Placement::MidB => a.place_mid(bytes, 37, 0xFF),
            },
            None => {
                // exact-size allocation; the "mid" placements embed the input between fillers
                // inside one allocation (neighbourhood independence), the others are exact
                match p {
                    Placement::End | Placement::Start => {
                        let mut v = Vec::with_capacity(bytes.len());
                        v.extend_from_slice(bytes);
                        self.heap = v;
                        &self.heap[..]
                    }
                    Placement::MidA | Placement::MidB => {
                        let (off, fill) = if p == Placement::MidA { (13, 0x00) } else { (37, 0xFF) };
                        let mut v = vec![fill; off];
                        v.extend_from_slice(bytes);
                        v.extend(std::iter::repeat(fill).take(19));
                        self.heap = v;
                        &self.heap[off..off + bytes.len()]
                    }
                }
            }
        }
    }
}
