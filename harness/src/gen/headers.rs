//! Grammar based generators for option areas and control message bodies.

use crate::prng::Prng;

/// a TCP option area of exactly `n` bytes (n multiple of 4, <= 40): mostly well-formed options,
/// sometimes malformed (bad length bytes, unknown kinds, truncated options)
pub fn tcp_option_area(rng: &mut Prng, n: usize) -> Vec<u8> {
    let mut b: Vec<u8> = Vec::with_capacity(n);
    while b.len() < n {
        let left = n - b.len();
        match rng.below(12) {
            0 => b.push(0), // END
            1 | 2 => b.push(1), // NOP
            3 if left >= 4 => {
                b.extend_from_slice(&[2, 4]);
                b.extend_from_slice(&rng.u16_corner().to_be_bytes());
            }
            4 if left >= 3 => {
                b.extend_from_slice(&[3, 3, rng.u8_corner()]);
            }
            5 if left >= 2 => b.extend_from_slice(&[4, 2]),
            6 if left >= 10 => {
                let blocks = rng.range(1, 4) as usize;
                let len = 2 + 8 * blocks;
                if left >= len {
                    b.extend_from_slice(&[5, len as u8]);
                    b.extend_from_slice(&rng.bytes(8 * blocks));
                } else {
                    b.push(1);
                }
            }
            7 if left >= 10 => {
                b.extend_from_slice(&[8, 10]);
                b.extend_from_slice(&rng.bytes(8));
            }
            8 => {
                // malformed: known kind with a wrong length byte
                let kind = *rng.pick(&[2u8, 3, 4, 5, 8]);
                b.push(kind);
                if left >= 2 {
                    b.push(rng.u8_corner());
                }
            }
            9 => {
                // unknown kind
                b.push(rng.range(9, 255) as u8);
                if left >= 2 {
                    b.push(rng.u8());
                }
            }
            _ => b.push(rng.u8()),
        }
    }
    b.truncate(n);
    b
}

/// NDP option list (type, length in 8 byte units, body)
pub fn ndp_options(rng: &mut Prng, max_opts: usize) -> Vec<u8> {
    let mut b = Vec::new();
    let n = rng.below(max_opts as u64 + 1);
    for _ in 0..n {
        let ty = if rng.chance(3, 4) { rng.range(1, 5) as u8 } else { rng.u8() };
        let units: usize = match ty {
            1 | 2 => 1,
            3 => 4,
            5 => 1,
            4 => rng.range(1, 6) as usize,
            _ => rng.range(1, 4) as usize,
        };
        let units = if rng.chance(1, 8) { rng.below(6) as usize } else { units };
        b.push(ty);
        b.push(units as u8);
        let body = (units * 8).saturating_sub(2);
        b.extend_from_slice(&rng.bytes(body));
        if units == 0 {
            // a zero length option: whatever follows
            b.extend_from_slice(&rng.bytes(6));
        }
    }
    if rng.chance(1, 6) {
        // dangling partial option
        let n = rng.range(1, 7) as usize;
        b.extend_from_slice(&rng.bytes(n));
    }
    b
}

/// body (behind the 8 byte ICMPv6 header start) of a neighbour discovery message
pub fn ndp_body(rng: &mut Prng, ty: u8) -> Vec<u8> {
    let fixed = match ty {
        133 => 0,  // router solicitation: 4 reserved bytes are bytes5to8
        134 => 8,  // router advertisement: reachable time + retrans timer
        135 => 16, // neighbour solicitation: target
        136 => 16, // neighbour advertisement: target
        _ => 32,   // redirect: target + destination
    };
    let fixed = if rng.chance(1, 8) { rng.below(fixed as u64 + 1) as usize } else { fixed };
    let mut b = rng.bytes(fixed);
    b.extend_from_slice(&ndp_options(rng, 4));
    b
}

pub fn igmp_message(rng: &mut Prng, n: usize) -> Vec<u8> {
    let ty = *rng.pick(&[0x11u8, 0x12, 0x16, 0x17, 0x22, 0x11, 0x11, 0x00, 0xff]);
    let mut b = vec![ty];
    let len = match rng.below(4) {
        0 => 7,
        1 => 11 + 4 * rng.below(5) as usize,
        _ => n.max(1) - 1,
    };
    b.extend_from_slice(&rng.bytes(len));
    b
}
