//! Coverage-guided corpus (see /verif/corpus/README.md): replayed with random mutations by the
//! `corpus` engines of the packet level monitors.

use super::Case;
use crate::fuzz::start_from_byte;
use crate::prng::Prng;
use std::sync::OnceLock;

static CORPUS: OnceLock<Vec<Vec<u8>>> = OnceLock::new();

fn load() -> Vec<Vec<u8>> {
    let path = std::env::var("VERIF_CORPUS").unwrap_or_else(|_| {
        let here = std::path::Path::new(env!("CARGO_MANIFEST_DIR"));
        here.parent().unwrap().join("corpus/diff_all.bin").to_string_lossy().to_string()
    });
    let raw = std::fs::read(&path).unwrap_or_default();
    let mut v = Vec::new();
    let mut i = 0;
    while i + 2 <= raw.len() {
        let n = raw[i] as usize | (raw[i + 1] as usize) << 8;
        i += 2;
        if i + n > raw.len() {
            break;
        }
        v.push(raw[i..i + n].to_vec());
        i += n;
    }
    v
}

pub fn len() -> usize {
    CORPUS.get_or_init(load).len()
}

/// corpus entry `idx % len` with 0–3 random mutations (idx < len: the entry unmodified)
pub fn case(idx: u64, rng: &mut Prng) -> Option<Case> {
    let c = CORPUS.get_or_init(load);
    if c.is_empty() {
        return None;
    }
    let mut data = c[(idx % c.len() as u64) as usize].clone();
    let mutations = if idx < c.len() as u64 { 0 } else { rng.range(1, 3) };
    for _ in 0..mutations {
        if data.len() <= 1 {
            break;
        }
        let i = 1 + rng.usize_below(data.len() - 1);
        match rng.below(7) {
            0 => data[i] ^= 1 << rng.below(8),
            1 => data[i] = rng.u8_corner(),
            2 => data[i] = data[i].wrapping_add(1),
            3 => data[i] = data[i].wrapping_sub(1),
            4 => data.truncate(i),
            5 => {
                let n = rng.range(1, 8) as usize;
                let extra = rng.bytes(n);
                data.extend_from_slice(&extra);
            }
            _ => {
                // splice with another entry
                let o = &c[rng.usize_below(c.len())];
                if o.len() > 1 {
                    let j = 1 + rng.usize_below(o.len() - 1);
                    data.truncate(i);
                    data.extend_from_slice(&o[j..]);
                }
            }
        }
    }
    Some(Case {
        start: start_from_byte(data[0]),
        bytes: data[1..].to_vec(),
        recipe: None,
        desc: format!("corpus#{}+{}mut", idx % c.len() as u64, mutations),
    })
}
