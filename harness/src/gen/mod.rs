//! G — structured hostile packet generator (DESIGN §2.2).
//!
//! Packets are assembled inside-out (transport, network, link extensions, link) so that length
//! fields can be made consistent — or deliberately inconsistent ("lies": below / at / above the
//! true value, zero, larger than the buffer). A *recipe* (layer kinds and offsets the generator
//! intended) is kept for un-corrupted packets; it is used to check the reference model itself.

use crate::neutral::Kind;
use crate::prng::Prng;
use crate::refmodel::pkt::{ety, Start};

pub mod corpus;
pub mod headers;

#[derive(Clone, Debug)]
pub struct Case {
    pub bytes: Vec<u8>,
    pub start: Start,
    /// layer kinds and offsets as intended by the generator (only for clean packets)
    pub recipe: Option<Vec<(Kind, usize)>>,
    /// short description of what was generated (for samples / replay files)
    pub desc: String,
}

#[derive(Clone, Copy, Debug, PartialEq, Eq)]
pub enum Lie {
    None,
    Any,
}

pub struct Built {
    pub bytes: Vec<u8>,
    /// (kind, offset relative to the start of `bytes`)
    pub layers: Vec<(Kind, usize)>,
    pub clean: bool,
    pub desc: String,
}

impl Built {
    fn wrap(self, mut header: Vec<u8>, kind: Kind, extra_layers: Vec<(Kind, usize)>, clean: bool, d: &str) -> Built {
        let hl = header.len();
        let mut layers = vec![(kind, 0)];
        layers.extend(extra_layers);
        for (k, o) in self.layers {
            layers.push((k, o + hl));
        }
        header.extend_from_slice(&self.bytes);
        Built {
            bytes: header,
            layers,
            clean: self.clean && clean,
            desc: format!("{}>{}", d, self.desc),
        }
    }
}

/// a length field value derived from the true value
pub fn lie_len(rng: &mut Prng, truth: usize, max: usize, lie: Lie) -> (usize, bool) {
    if lie == Lie::None || rng.chance(3, 4) {
        return (truth.min(max), truth <= max);
    }
    let v = match rng.below(10) {
        0 => 0,
        1 => truth.saturating_sub(1),
        2 => truth.saturating_sub(2),
        3 => truth + 1,
        4 => truth + 2,
        5 => truth + rng.range(3, 200) as usize,
        6 => truth.saturating_sub(rng.range(3, 40) as usize),
        7 => max,
        8 => rng.below(max as u64 + 1) as usize,
        _ => truth / 2,
    }
    .min(max);
    (v, v == truth)
}

static SMALL: std::sync::atomic::AtomicBool = std::sync::atomic::AtomicBool::new(false);

/// small payloads only (Miri / valgrind flavours: rendering large payloads dominates their cost)
pub fn set_small(v: bool) {
    SMALL.store(v, std::sync::atomic::Ordering::Relaxed);
}

static BIG: std::sync::atomic::AtomicBool = std::sync::atomic::AtomicBool::new(false);

/// payloads around the 16 bit limits of the length fields (engines `big`): 65535 -/+ a few header
/// sizes, just above 2^16, and far above it
pub fn set_big(v: bool) {
    BIG.store(v, std::sync::atomic::Ordering::Relaxed);
}

fn payload_len(rng: &mut Prng) -> usize {
    if BIG.load(std::sync::atomic::Ordering::Relaxed) && rng.chance(2, 3) {
        return match rng.below(10) {
            // whole multiples of 2^16 once the 8 / 20 octet transport header is added (the low
            // 16 bits of the true size are 0, like a length field that says "see the enclosing data")
            8 => 65536 * (1 + rng.below(2) as usize) - 8,
            9 => 65536 * (1 + rng.below(2) as usize) - 20,
            0 => 65535 - rng.range(0, 100) as usize,
            1 => 65535 + rng.range(1, 100) as usize,
            2 => 65535 - 8 - rng.range(0, 3) as usize,
            3 => 65535 - 20 - rng.range(0, 45) as usize,
            4 => 65535 - 40 - rng.range(0, 30) as usize,
            5 => rng.range(60_000, 70_000) as usize,
            6 => 65536,
            _ => 131_072 + rng.range(0, 9) as usize,
        };
    }
    if SMALL.load(std::sync::atomic::Ordering::Relaxed) {
        return match rng.below(8) {
            0 => 0,
            1 => 1,
            2..=5 => rng.range(0, 12) as usize,
            _ => rng.range(0, 28) as usize,
        };
    }
    match rng.below(16) {
        0 => 0,
        1 => 1,
        2..=8 => rng.range(0, 16) as usize,
        9..=13 => rng.range(0, 64) as usize,
        14 => rng.range(64, 300) as usize,
        _ => rng.range(0, 1400) as usize,
    }
}

// ------------------------------------------------------------------------------------------------
// transport
// ------------------------------------------------------------------------------------------------

pub const ICMP4_TYPES: [u8; 16] = [0, 3, 4, 5, 8, 9, 10, 11, 12, 13, 14, 15, 16, 17, 18, 42];
pub const ICMP6_TYPES: [u8; 18] = [
    1, 2, 3, 4, 100, 101, 127, 128, 129, 130, 131, 132, 133, 134, 135, 136, 137, 143,
];

pub fn gen_udp(rng: &mut Prng, lie: Lie) -> Built {
    let pl = payload_len(rng);
    let (mut len, mut ok) = lie_len(rng, 8 + pl, 0xffff, lie);
    // a datagram too large for the field announces 0 ("see the enclosing data", RFC 2675)
    if 8 + pl > 0xffff && rng.chance(1, 2) {
        len = 0;
        ok = false;
    }
    let mut b = Vec::with_capacity(8 + pl);
    b.extend_from_slice(&rng.u16_corner().to_be_bytes());
    b.extend_from_slice(&rng.u16_corner().to_be_bytes());
    b.extend_from_slice(&(len as u16).to_be_bytes());
    b.extend_from_slice(&rng.u16_corner().to_be_bytes());
    b.extend_from_slice(&rng.bytes(pl));
    Built {
        bytes: b,
        layers: vec![(Kind::Udp, 0)],
        clean: ok,
        desc: format!("udp(len={},true={})", len, 8 + pl),
    }
}

pub fn gen_tcp(rng: &mut Prng, lie: Lie) -> Built {
    let pl = payload_len(rng);
    let optw = if rng.chance(1, 2) { 0 } else { rng.range(0, 10) as usize };
    let mut doff = 5 + optw;
    let mut clean = true;
    if lie == Lie::Any && rng.chance(1, 8) {
        doff = rng.below(16) as usize;
        clean = doff == 5 + optw;
    }
    let mut b = Vec::with_capacity(20 + optw * 4 + pl);
    b.extend_from_slice(&rng.u16_corner().to_be_bytes());
    b.extend_from_slice(&rng.u16_corner().to_be_bytes());
    b.extend_from_slice(&rng.u32_corner().to_be_bytes());
    b.extend_from_slice(&rng.u32_corner().to_be_bytes());
    // data offset, reserved bits (sometimes set), ns
    let resv = if rng.chance(1, 4) { rng.u8() & 0x0e } else { 0 };
    b.push(((doff as u8) << 4) | resv | (rng.u8() & 1));
    b.push(rng.u8_corner());
    b.extend_from_slice(&rng.u16_corner().to_be_bytes());
    b.extend_from_slice(&rng.u16_corner().to_be_bytes());
    b.extend_from_slice(&rng.u16_corner().to_be_bytes());
    b.extend_from_slice(&headers::tcp_option_area(rng, optw * 4));
    b.extend_from_slice(&rng.bytes(pl));
    Built {
        bytes: b,
        layers: vec![(Kind::Tcp, 0)],
        clean,
        desc: format!("tcp(doff={},opts={})", doff, optw * 4),
    }
}

pub fn gen_icmp4(rng: &mut Prng, lie: Lie) -> Built {
    let ty = if rng.chance(3, 4) { *rng.pick(&ICMP4_TYPES) } else { rng.u8() };
    let code = if rng.chance(2, 3) { rng.below(6) as u8 } else { rng.u8() };
    let mut pl = payload_len(rng);
    let mut clean = true;
    if (ty == 13 || ty == 14) && code == 0 {
        // timestamp messages: exactly 20 bytes (12 behind the 8 byte start), sometimes off
        pl = 12;
        if lie == Lie::Any && rng.chance(1, 3) {
            pl = (12i64 + rng.range(0, 8) as i64 - 4).max(0) as usize;
            clean = pl == 12;
        }
    }
    let mut b = vec![ty, code];
    b.extend_from_slice(&rng.u16().to_be_bytes());
    b.extend_from_slice(&rng.u32_corner().to_be_bytes());
    b.extend_from_slice(&rng.bytes(pl));
    Built {
        bytes: b,
        layers: vec![(Kind::Icmp4, 0)],
        clean,
        desc: format!("icmp4({},{})", ty, code),
    }
}

pub fn gen_icmp6(rng: &mut Prng, _lie: Lie) -> Built {
    let ty = if rng.chance(3, 4) { *rng.pick(&ICMP6_TYPES) } else { rng.u8() };
    let code = if rng.chance(2, 3) { rng.below(8) as u8 } else { rng.u8() };
    let mut b = vec![ty, code];
    b.extend_from_slice(&rng.u16().to_be_bytes());
    b.extend_from_slice(&rng.u32_corner().to_be_bytes());
    if (133..=137).contains(&ty) && rng.chance(3, 4) {
        b.extend_from_slice(&headers::ndp_body(rng, ty));
    } else {
        let pl = payload_len(rng);
        b.extend_from_slice(&rng.bytes(pl));
    }
    Built {
        bytes: b,
        layers: vec![(Kind::Icmp6, 0)],
        clean: true,
        desc: format!("icmp6({},{})", ty, code),
    }
}

/// returns (ip protocol number, bytes)
pub fn gen_transport(rng: &mut Prng, lie: Lie) -> (u8, Built) {
    match rng.below(16) {
        0..=4 => (17, gen_udp(rng, lie)),
        5..=8 => (6, gen_tcp(rng, lie)),
        9..=10 => (1, gen_icmp4(rng, lie)),
        11..=12 => (58, gen_icmp6(rng, lie)),
        13 => {
            let n = payload_len(rng);
            (
                2,
                Built {
                    bytes: headers::igmp_message(rng, n),
                    layers: vec![],
                    clean: true,
                    desc: "igmp".into(),
                },
            )
        }
        _ => {
            // protocol numbers the crate does not decode (incl. the extension header numbers it
            // does not walk: ESP 50, no-next 59, mobility 135, HIP 139, shim6 140, 253, 254)
            let nums = [50u8, 59, 135, 139, 140, 253, 254, 4, 41, 47, 89, 132, 255, 3, 255];
            let num = if rng.chance(2, 3) { *rng.pick(&nums) } else { rng.u8() };
            let num = match num {
                // keep the decoded numbers out of this branch
                1 | 6 | 17 | 58 | 0 | 43 | 44 | 51 | 60 => 253,
                n => n,
            };
            let n = payload_len(rng);
            (
                num,
                Built {
                    bytes: rng.bytes(n),
                    layers: vec![],
                    clean: true,
                    desc: format!("raw({})", num),
                },
            )
        }
    }
}

// ------------------------------------------------------------------------------------------------
// network
// ------------------------------------------------------------------------------------------------

pub fn ah_bytes(rng: &mut Prng, next: u8, lie: Lie) -> (Vec<u8>, bool) {
    let icv_words = match rng.below(8) {
        0 => 0,
        1 => 1,
        2..=5 => rng.range(0, 6) as usize,
        6 => rng.range(0, 40) as usize,
        _ => 3,
    };
    let mut plen = icv_words + 1;
    let mut clean = true;
    if lie == Lie::Any && rng.chance(1, 6) {
        plen = *rng.pick(&[0usize, 1, 2, 255, icv_words, icv_words + 2, icv_words + 9]);
        clean = plen == icv_words + 1;
    }
    let mut b = vec![next, plen as u8];
    b.extend_from_slice(&rng.u16().to_be_bytes()); // reserved
    b.extend_from_slice(&rng.u32_corner().to_be_bytes());
    b.extend_from_slice(&rng.u32_corner().to_be_bytes());
    b.extend_from_slice(&rng.bytes(icv_words * 4));
    (b, clean)
}

pub fn gen_ipv4(rng: &mut Prng, lie: Lie) -> Built {
    let (mut num, mut inner) = gen_transport(rng, lie);
    // optional authentication header (also: AH announced twice -> only one is an extension)
    let mut ext_layers: Vec<(Kind, usize)> = Vec::new();
    let mut ah: Vec<u8> = Vec::new();
    let mut clean = true;
    if rng.chance(1, 5) {
        let (b, ok) = ah_bytes(rng, num, lie);
        if !ok {
            clean = false;
        }
        ah = b;
        num = 51;
    }
    let optw = if rng.chance(2, 3) { 0 } else { rng.range(0, 10) as usize };
    let mut ihl = 5 + optw;
    if lie == Lie::Any && rng.chance(1, 10) {
        ihl = rng.below(16) as usize;
        if ihl != 5 + optw {
            clean = false;
        }
    }
    let hl = 20 + optw * 4;
    let truth = hl + ah.len() + inner.bytes.len();
    let (total, ok) = lie_len(rng, truth, 0xffff, lie);
    if !ok {
        clean = false;
    }
    let version = if lie == Lie::Any && rng.chance(1, 40) { rng.below(16) as u8 } else { 4 };
    if version != 4 {
        clean = false;
    }
    let mut h = Vec::with_capacity(hl);
    h.push((version << 4) | (ihl as u8 & 0x0f));
    h.push(rng.u8_corner());
    h.extend_from_slice(&(total as u16).to_be_bytes());
    h.extend_from_slice(&rng.u16_corner().to_be_bytes());
    // flags + fragment offset: mostly not fragmented
    let (flags, fo): (u8, u16) = match rng.below(10) {
        0 => (0x20, 0),                                   // MF
        1 => (0x00, rng.range(1, 0x1fff) as u16),         // offset
        2 => (0x20 | (rng.u8() & 0xc0), rng.u16() & 0x1fff),
        3 => (0x80, 0),                                   // reserved bit only
        4 => (0x40, 0),                                   // DF
        _ => (0, 0),
    };
    let fragmented = flags & 0x20 != 0 || fo != 0;
    h.push(flags | ((fo >> 8) as u8 & 0x1f));
    h.push(fo as u8);
    h.push(rng.u8_corner());
    h.push(num);
    h.extend_from_slice(&rng.u16().to_be_bytes());
    h.extend_from_slice(&rng.bytes(8));
    h.extend_from_slice(&rng.bytes(optw * 4));
    if !ah.is_empty() {
        ext_layers.push((Kind::ExtAh, hl));
    }
    h.extend_from_slice(&ah);
    if fragmented {
        inner.layers.clear();
    }
    let d = format!("ipv4(ihl={},tl={},true={},p={}{})", ihl, total, truth, num, if fragmented { ",frag" } else { "" });
    inner.wrap(h, Kind::Ipv4, ext_layers, clean, &d)
}

pub fn gen_ipv6(rng: &mut Prng, lie: Lie) -> Built {
    let (num, mut inner) = gen_transport(rng, lie);
    // extension chain, built back to front
    let n_ext = match rng.below(10) {
        0..=4 => 0,
        5..=6 => 1,
        7 => 2,
        8 => rng.range(2, 4) as usize,
        _ => rng.range(3, 8) as usize,
    };
    let mut clean = true;
    // choose the kinds front to back
    let mut kinds: Vec<u8> = Vec::new();
    for i in 0..n_ext {
        let k = if i == 0 && rng.chance(1, 3) {
            0
        } else {
            match rng.below(12) {
                0 => 0, // misplaced hop-by-hop (unless first)
                1..=3 => 60,
                4..=6 => 43,
                7..=8 => 44,
                9..=10 => 51,
                _ => 60,
            }
        };
        kinds.push(k);
    }
    let mut chain: Vec<Vec<u8>> = Vec::new();
    let mut fragmented = false;
    let mut hbh_misplaced = false;
    for (i, k) in kinds.iter().enumerate() {
        let next = if i + 1 < kinds.len() { kinds[i + 1] } else { num };
        if *k == 0 && i > 0 {
            hbh_misplaced = true;
        }
        match *k {
            0 | 43 | 60 => {
                let units = match rng.below(8) {
                    0..=4 => 0usize,
                    5 => 1,
                    6 => rng.range(0, 3) as usize,
                    _ => rng.range(0, 12) as usize,
                };
                let mut lenb = units;
                if lie == Lie::Any && rng.chance(1, 10) {
                    lenb = *rng.pick(&[0usize, 1, 2, 3, 255, units + 1]);
                    if lenb != units {
                        clean = false;
                    }
                }
                let mut b = vec![next, lenb as u8];
                b.extend_from_slice(&rng.bytes(6 + units * 8));
                chain.push(b);
            }
            44 => {
                let (fo, mf): (u16, bool) = match rng.below(6) {
                    0 => (0, true),
                    1 => (rng.range(1, 0x1fff) as u16, false),
                    2 => (rng.u16() & 0x1fff, rng.bool()),
                    _ => (0, false),
                };
                if fo != 0 || mf {
                    fragmented = true;
                }
                let resv = if rng.chance(1, 4) { rng.u8() & 0x06 } else { 0 };
                let w = (fo << 3) | resv as u16 | mf as u16;
                let mut b = vec![next, if rng.chance(1, 4) { rng.u8() } else { 0 }];
                b.extend_from_slice(&w.to_be_bytes());
                b.extend_from_slice(&rng.u32_corner().to_be_bytes());
                chain.push(b);
            }
            _ => {
                let (b, ok) = ah_bytes(rng, next, lie);
                if !ok {
                    clean = false;
                }
                chain.push(b);
            }
        }
    }
    let first = kinds.first().copied().unwrap_or(num);
    let ext_total: usize = chain.iter().map(|c| c.len()).sum();
    let truth = ext_total + inner.bytes.len();
    let (mut plen, ok) = lie_len(rng, truth, 0xffff, lie);
    if !ok {
        clean = false;
    }
    if truth > 0xffff && rng.chance(1, 2) {
        plen = 0;
    }
    let version = if lie == Lie::Any && rng.chance(1, 40) { rng.below(16) as u8 } else { 6 };
    if version != 6 {
        clean = false;
    }
    let mut h = Vec::with_capacity(40 + ext_total);
    let tc = rng.u8_corner();
    let flow = rng.u32_corner() & 0x000f_ffff;
    h.push((version << 4) | (tc >> 4));
    h.push((tc << 4) | ((flow >> 16) as u8 & 0x0f));
    h.push((flow >> 8) as u8);
    h.push(flow as u8);
    h.extend_from_slice(&(plen as u16).to_be_bytes());
    h.push(first);
    h.push(rng.u8_corner());
    h.extend_from_slice(&rng.bytes(32));
    let mut ext_layers = Vec::new();
    let mut o = 40;
    for (k, c) in kinds.iter().zip(chain.iter()) {
        ext_layers.push((
            match k {
                0 => Kind::ExtHbh,
                43 => Kind::ExtRoute,
                60 => Kind::ExtDest,
                44 => Kind::ExtFrag,
                _ => Kind::ExtAh,
            },
            o,
        ));
        o += c.len();
        h.extend_from_slice(c);
    }
    if hbh_misplaced {
        clean = false;
    }
    // payload_length == 0 with data behind the header means "to the end of the slice": still a
    // clean packet as far as layer boundaries are concerned only if truth == 0
    if fragmented {
        inner.layers.clear();
    }
    let d = format!(
        "ipv6(plen={},true={},chain={:?},p={}{})",
        plen,
        truth,
        kinds,
        num,
        if fragmented { ",frag" } else { "" }
    );
    inner.wrap(h, Kind::Ipv6, ext_layers, clean, &d)
}

pub fn gen_arp(rng: &mut Prng, _lie: Lie) -> Built {
    let (hl, pl): (usize, usize) = match rng.below(8) {
        0 => (0, 0),
        1..=4 => (6, 4),
        5 => (255, 255),
        6 => (rng.below(256) as usize, rng.below(256) as usize),
        _ => (rng.below(20) as usize, rng.below(20) as usize),
    };
    let mut b = Vec::new();
    b.extend_from_slice(&(if rng.chance(2, 3) { 1 } else { rng.u16() }).to_be_bytes());
    b.extend_from_slice(&(if rng.chance(2, 3) { 0x0800 } else { rng.u16() }).to_be_bytes());
    b.push(hl as u8);
    b.push(pl as u8);
    b.extend_from_slice(&(if rng.chance(2, 3) { rng.range(1, 2) as u16 } else { rng.u16() }).to_be_bytes());
    b.extend_from_slice(&rng.bytes(2 * hl + 2 * pl));
    // trailing bytes behind an ARP packet are ignored by the format
    if rng.chance(1, 3) {
        let n = rng.range(1, 20) as usize;
        b.extend_from_slice(&rng.bytes(n));
    }
    Built {
        bytes: b,
        layers: vec![(Kind::Arp, 0)],
        clean: true,
        desc: format!("arp({},{})", hl, pl),
    }
}

/// returns (ether type, packet)
pub fn gen_net(rng: &mut Prng, lie: Lie) -> (u16, Built) {
    match rng.below(16) {
        0..=5 => (ety::IPV4, gen_ipv4(rng, lie)),
        6..=11 => (ety::IPV6, gen_ipv6(rng, lie)),
        12..=13 => (ety::ARP, gen_arp(rng, lie)),
        14 if lie == Lie::Any => {
            // ether type / IP version mismatch
            if rng.bool() {
                let mut b = gen_ipv6(rng, lie);
                b.clean = false;
                (ety::IPV4, b)
            } else {
                let mut b = gen_ipv4(rng, lie);
                b.clean = false;
                (ety::IPV6, b)
            }
        }
        _ => {
            let t = loop {
                let t = if rng.chance(1, 2) {
                    *rng.pick(&[0x0000u16, 0x05ff, 0x0600, 0x0842, 0x88cc, 0x8847, 0x8863, 0x8864, 0xffff, 0x0001, 0x00f5])
                } else {
                    rng.u16()
                };
                if ![ety::IPV4, ety::IPV6, ety::ARP, ety::VLAN, ety::QINQ, ety::VLAN_DOUBLE, ety::MACSEC].contains(&t) {
                    break t;
                }
            };
            let n = payload_len(rng);
            (
                t,
                Built {
                    bytes: rng.bytes(n),
                    layers: vec![],
                    clean: true,
                    desc: format!("ether(0x{:04x})", t),
                },
            )
        }
    }
}

// ------------------------------------------------------------------------------------------------
// link extensions and link
// ------------------------------------------------------------------------------------------------

/// wraps `inner` (which is announced by ether type `t`) into a VLAN header; returns the TPID
pub fn wrap_vlan(rng: &mut Prng, t: u16, inner: Built) -> (u16, Built) {
    let tpid = *rng.pick(&[ety::VLAN, ety::VLAN, ety::QINQ, ety::VLAN_DOUBLE]);
    let tci = match rng.below(6) {
        0 => 0,
        1 => 0xffff,
        2 => 0x0fff,
        3 => 0xe000,
        _ => rng.u16(),
    };
    let mut h = Vec::with_capacity(4);
    h.extend_from_slice(&tci.to_be_bytes());
    h.extend_from_slice(&t.to_be_bytes());
    (tpid, inner.wrap(h, Kind::Vlan, vec![], true, &format!("vlan({:04x})", tpid)))
}

pub fn wrap_macsec(rng: &mut Prng, t: u16, inner: Built, lie: Lie) -> (u16, Built) {
    let mut clean = true;
    let sc = rng.chance(1, 2);
    let (e, c) = match rng.below(10) {
        0 => (true, true),
        1 => (false, true),
        2 => (true, false),
        _ => (false, false),
    };
    let unmod = !e && !c;
    let version = lie == Lie::Any && rng.chance(1, 30);
    if version {
        clean = false;
    }
    let mut tci = 0u8;
    if version {
        tci |= 0x80;
    }
    if rng.chance(1, 3) {
        tci |= 0x40;
    }
    if sc {
        tci |= 0x20;
    }
    if rng.chance(1, 4) {
        tci |= 0x10;
    }
    if e {
        tci |= 0x08;
    }
    if c {
        tci |= 0x04;
    }
    tci |= rng.u8() & 3;
    // payload as counted by the short length
    let counted = inner.bytes.len() + if unmod { 2 } else { 0 };
    let mut sl: usize = if counted < 64 && rng.chance(2, 3) { counted } else { 0 };
    if lie == Lie::Any && rng.chance(1, 5) {
        sl = match rng.below(8) {
            0 => 0,
            1 => 1,
            2 => 2,
            3 => 63,
            4 => counted.saturating_sub(1).min(63),
            5 => (counted + 1).min(63),
            6 => (counted + 2).min(63),
            _ => rng.below(64) as usize,
        };
        if sl != 0 && sl != counted {
            clean = false;
        }
    }
    let resv = if rng.chance(1, 5) { rng.u8() & 0xc0 } else { 0 };
    let mut h = vec![tci, resv | sl as u8];
    h.extend_from_slice(&rng.u32_corner().to_be_bytes());
    if sc {
        h.extend_from_slice(&rng.bytes(8));
    }
    let mut inner = inner;
    if unmod {
        h.extend_from_slice(&t.to_be_bytes());
    } else {
        // decoding ends at a modified / encrypted payload
        inner.layers.clear();
    }
    let d = format!("macsec(sl={},counted={},{})", sl, counted, if unmod { "unmod" } else { "mod" });
    (ety::MACSEC, inner.wrap(h, Kind::Macsec, vec![], clean, &d))
}

pub fn wrap_eth(rng: &mut Prng, t: u16, inner: Built) -> Built {
    let mut h = rng.bytes(12);
    h.extend_from_slice(&t.to_be_bytes());
    inner.wrap(h, Kind::Eth, vec![], true, "eth")
}

pub fn wrap_sll(rng: &mut Prng, t: u16, inner: Built, lie: Lie) -> Built {
    let mut clean = true;
    let mut ptype = rng.below(8) as u16;
    let mut hrd = 1u16;
    if lie == Lie::Any && rng.chance(1, 8) {
        ptype = rng.u16_corner();
        if ptype > 7 {
            clean = false;
        }
    }
    let mut inner = inner;
    if rng.chance(1, 6) {
        hrd = if rng.chance(2, 3) {
            *rng.pick(&[770u16, 778, 803, 824])
        } else {
            rng.u16()
        };
        if hrd != 1 {
            // the protocol field is not an ether type then: decoding stops behind the header
            inner.layers.clear();
            if ![770u16, 778, 803, 824].contains(&hrd) {
                clean = false;
            }
        }
    }
    let mut h = Vec::with_capacity(16);
    h.extend_from_slice(&ptype.to_be_bytes());
    h.extend_from_slice(&hrd.to_be_bytes());
    h.extend_from_slice(&(if rng.chance(2, 3) { 6 } else { rng.u16_corner() }).to_be_bytes());
    h.extend_from_slice(&rng.bytes(8));
    h.extend_from_slice(&t.to_be_bytes());
    inner.wrap(h, Kind::Sll, vec![], clean, &format!("sll({},{})", ptype, hrd))
}

/// which start points a case may use
#[derive(Clone, Copy, Debug, PartialEq, Eq)]
pub enum StartSel {
    Any,
    Eth,
    Sll,
    EtherType,
    Ip,
}

pub struct GenOpts {
    pub lie: Lie,
    pub start: StartSel,
    /// probability (n/16) of trailing garbage behind the packet
    pub trailing: u64,
    /// probability (n/16) of a random truncation
    pub truncate: u64,
    /// probability (n/16) of random byte flips
    pub flips: u64,
}

impl GenOpts {
    pub fn hostile() -> GenOpts {
        GenOpts {
            lie: Lie::Any,
            start: StartSel::Any,
            trailing: 5,
            truncate: 4,
            flips: 2,
        }
    }
    pub fn clean() -> GenOpts {
        GenOpts {
            lie: Lie::None,
            start: StartSel::Any,
            trailing: 0,
            truncate: 0,
            flips: 0,
        }
    }
}

/// a structured packet (before post-processing) for the selected start point
pub fn gen_structured(rng: &mut Prng, opts: &GenOpts) -> (Start, Built) {
    let sel = match opts.start {
        StartSel::Any => match rng.below(10) {
            0..=3 => StartSel::Eth,
            4..=5 => StartSel::Sll,
            6..=7 => StartSel::EtherType,
            _ => StartSel::Ip,
        },
        s => s,
    };
    if sel == StartSel::Ip {
        let b = if rng.bool() { gen_ipv4(rng, opts.lie) } else { gen_ipv6(rng, opts.lie) };
        return (Start::Ip, b);
    }
    let (mut t, mut b) = gen_net(rng, opts.lie);
    let n_ext = match rng.below(12) {
        0..=5 => 0,
        6..=8 => 1,
        9 => 2,
        10 => 3,
        _ => 4,
    };
    let mut macsec_seen = false;
    for _ in 0..n_ext {
        if rng.chance(1, 3) {
            let (nt, nb) = wrap_macsec(rng, t, b, opts.lie);
            t = nt;
            b = nb;
            macsec_seen = true;
        } else {
            let (nt, nb) = wrap_vlan(rng, t, b);
            t = nt;
            b = nb;
        }
    }
    let _ = macsec_seen;
    // at most 3 link extensions are decoded: everything behind the third is payload
    let mut seen = 0;
    let mut cut = None;
    for (i, (k, _)) in b.layers.iter().enumerate() {
        if *k == Kind::Vlan || *k == Kind::Macsec {
            seen += 1;
            if seen == 4 {
                cut = Some(i);
                break;
            }
        }
    }
    if let Some(i) = cut {
        b.layers.truncate(i);
    }
    match sel {
        StartSel::Eth => (Start::Eth, wrap_eth(rng, t, b)),
        StartSel::Sll => (Start::Sll, wrap_sll(rng, t, b, opts.lie)),
        _ => (Start::EtherType(t), b),
    }
}

pub fn gen_case(rng: &mut Prng, opts: &GenOpts) -> Case {
    // pure noise now and then
    if opts.lie == Lie::Any && rng.chance(1, 24) {
        let n = match rng.below(4) {
            0 => rng.range(0, 20) as usize,
            1 => rng.range(0, 64) as usize,
            2 => rng.range(0, 300) as usize,
            _ => rng.range(0, 2000) as usize,
        };
        let mut bytes = rng.bytes(n);
        // bias the first nibble so that the IP decoders get past the version check
        if n > 0 && rng.bool() {
            bytes[0] = (if rng.bool() { 0x40 } else { 0x60 }) | (bytes[0] & 0x0f);
        }
        let start = match rng.below(5) {
            0 => Start::Eth,
            1 => Start::Sll,
            2 => Start::Ip,
            _ => Start::EtherType(*rng.pick(&[ety::IPV4, ety::IPV6, ety::ARP, ety::VLAN, ety::MACSEC, ety::QINQ])),
        };
        return Case {
            bytes,
            start,
            recipe: None,
            desc: "noise".into(),
        };
    }
    let (start, b) = gen_structured(rng, opts);
    let mut bytes = b.bytes;
    let mut clean = b.clean;
    let mut desc = b.desc;
    if rng.below(16) < opts.trailing {
        let n = rng.range(1, 16) as usize;
        bytes.extend_from_slice(&rng.bytes(n));
        desc.push_str(&format!("+trail{}", n));
        // trailing bytes change where slice-limited layers end but not where layers start;
        // they do change layer *presence* for e.g. ICMP timestamp, so be conservative
        clean = false;
    }
    if rng.below(16) < opts.truncate && !bytes.is_empty() {
        let n = rng.below(bytes.len() as u64) as usize;
        bytes.truncate(n);
        desc.push_str(&format!("+trunc{}", n));
        clean = false;
    }
    if rng.below(16) < opts.flips && !bytes.is_empty() {
        let k = rng.range(1, 3);
        for _ in 0..k {
            let i = rng.usize_below(bytes.len());
            if rng.bool() {
                bytes[i] ^= 1 << rng.below(8);
            } else {
                bytes[i] = rng.u8_corner();
            }
        }
        desc.push_str("+flip");
        clean = false;
    }
    Case {
        bytes,
        start,
        recipe: if clean { Some(b.layers) } else { None },
        desc,
    }
}


/// One header byte of a clean packet taken through all 256 values (engines `bytesweep`): every
/// constant a decoder might special-case - a version nibble, a type code, a flag combination, a
/// length octet - is hit for every layer kind at every header position, which random flips only
/// sample. Returns the 256 variants of one position of one generated packet.
pub fn bytesweep(rng: &mut Prng) -> Vec<Case> {
    let mut o = GenOpts::clean();
    o.trailing = 3;
    let base = gen_case(rng, &o);
    let layers: Vec<(Kind, usize)> = base.recipe.clone().unwrap_or_default();
    if base.bytes.is_empty() {
        return Vec::new();
    }
    // a position inside the first 44 octets of one of the layers (or anywhere if the recipe is empty)
    let pos = if layers.is_empty() {
        rng.usize_below(base.bytes.len().min(64))
    } else {
        let (_, off) = layers[rng.usize_below(layers.len())];
        let end = layers.iter().map(|l| l.1).filter(|x| *x > off).min().unwrap_or(base.bytes.len()).min(off + 44).min(base.bytes.len());
        if end <= off {
            return Vec::new();
        }
        off + rng.usize_below(end - off)
    };
    let mut out = Vec::with_capacity(256);
    for v in 0..=255u8 {
        let mut b = base.bytes.clone();
        b[pos] = v;
        out.push(Case {
            bytes: b,
            start: base.start,
            recipe: None,
            desc: format!("{}+byte{}={}", base.desc, pos, v),
        });
    }
    out
}


/// Like `bytesweep`, but one aligned 16 bit word of a header through all 65 536 values: every length
/// field against the true size, flags + fragment offset, TCP data offset + flags, version/IHL + TOS,
/// MACsec TCI + short length ... (engines `wordsweep`). Calls `f` for every variant.
pub fn wordsweep(rng: &mut Prng, mut f: impl FnMut(&Case)) {
    let mut o = GenOpts::clean();
    o.trailing = 3;
    // small packets: the sweep is about header words
    set_small(true);
    let base = gen_case(rng, &o);
    set_small(false);
    let layers: Vec<(Kind, usize)> = base.recipe.clone().unwrap_or_default();
    if base.bytes.len() < 2 || layers.is_empty() {
        return;
    }
    let (_, off) = layers[rng.usize_below(layers.len())];
    let end = layers.iter().map(|l| l.1).filter(|x| *x > off).min().unwrap_or(base.bytes.len()).min(off + 44).min(base.bytes.len());
    if end < off + 2 {
        return;
    }
    let pos = off + 2 * rng.usize_below((end - off) / 2);
    let mut c = Case {
        bytes: base.bytes.clone(),
        start: base.start,
        recipe: None,
        desc: format!("{}+word{}", base.desc, pos),
    };
    for v in 0..=65535u16 {
        c.bytes[pos] = (v >> 8) as u8;
        c.bytes[pos + 1] = v as u8;
        f(&c);
    }
}
