//! C15 — bit-field types hold only in-range values and never bleed into neighbours.
//!
//! Oracle: an independent table of field positions (bit numbering of the RFC / IEEE diagrams,
//! bit 0 = most significant bit of octet 0) with explicit octet masks, written from
//!   IEEE 802.1Q-2018 §9.6 (TCI: PCP 3, DEI 1, VID 12),
//!   RFC 791 §3.1 + RFC 2474 §3 (DSCP 6) + RFC 3168 §5 (ECN 2),
//!   RFC 8200 §3 (version 4, traffic class 8, flow label 20) and §4.5 (fragment header),
//!   IEEE 802.1AE-2018 §9.3–9.7 (SecTAG: V ES SC SCB E C AN(2) | 2 reserved + SL(6) | PN | SCI),
//!   RFC 3376 §4.1 (IGMPv3 query: Resv 4, S 1, QRV 3).
//! Nothing of it is derived from etherparse. The table is checked against itself (mask vs. bit
//! position, partition of the header) and against hand computed literal vectors.
//!
//! Engines
//!   ctor_*      checked constructors over the complete raw domain (u8 / u16) resp. all 2^20 valid
//!               and 2^20 invalid flow labels (all 2^32 in the thorough tier)
//!   dec_*       every value of the octets that hold the bit fields, through every decoding entry
//!   enc_*       every value of one field against all-zeros / all-ones / random neighbours
//!   *_setters   the in-place setters of the IGMPv3 query and of the IPv6 traffic class

use super::common::note_abnormal;
use super::{Monitor, Tier};
use crate::prng::Prng;
use crate::report::{hex, jstr, Report};
use crate::shell;
use etherparse::err::{ValueTooBigError, ValueType};
use etherparse::*;
use std::hint::black_box;
use std::io::Cursor;

// ---------------------------------------------------------------------------------------------
// reference table
// ---------------------------------------------------------------------------------------------

#[derive(Clone, Copy, PartialEq, Debug)]
enum K {
    /// a field of the header struct
    Field,
    /// constant on the wire (version, message type)
    Const(u128),
    /// reserved: transmitted as zero, no struct field
    Resv,
    /// overlaps other fields (DSCP/ECN inside the IPv6 traffic class): decode side only
    Sub,
    /// not part of the fixed layout (IPv4 option fill, MACsec SCI / next ether type)
    Virt,
}

#[derive(Clone, Copy, PartialEq, Debug)]
enum Vary {
    /// every value 0..2^width
    All,
    /// 0, all ones, every single bit set, every single bit cleared
    Walk,
    /// every value lo..=hi
    Range(u128, u128),
    No,
}

struct F {
    name: &'static str,
    /// first bit in the numbering of the RFC diagrams
    bit0: u16,
    width: u16,
    /// first octet touched
    off: usize,
    /// explicit mask over the octets off..off+mask.len()
    mask: &'static [u8],
    /// right shift after masking (big endian)
    shift: u8,
    k: K,
    vary: Vary,
}

struct Layout {
    name: &'static str,
    len: usize,
    f: &'static [F],
}

const M1: &[u8] = &[0xff];
const M2: &[u8] = &[0xff, 0xff];
const M4: &[u8] = &[0xff, 0xff, 0xff, 0xff];
const M16: &[u8] = &[0xff; 16];
const NOMASK: &[u8] = &[];

const fn fld(name: &'static str, bit0: u16, width: u16, off: usize, mask: &'static [u8], shift: u8, k: K, vary: Vary) -> F {
    F {
        name,
        bit0,
        width,
        off,
        mask,
        shift,
        k,
        vary,
    }
}

/// IEEE 802.1Q TCI followed by the ether type of the tagged payload (etherparse's SingleVlanHeader)
static VLAN: Layout = Layout {
    name: "SingleVlanHeader",
    len: 4,
    f: &[
        fld("pcp", 0, 3, 0, &[0xE0], 5, K::Field, Vary::All),
        fld("dei", 3, 1, 0, &[0x10], 4, K::Field, Vary::All),
        fld("vlan_id", 4, 12, 0, &[0x0F, 0xFF], 0, K::Field, Vary::All),
        fld("ether_type", 16, 16, 2, M2, 0, K::Field, Vary::All),
    ],
};

const V4_IHL: usize = 1;
const V4_CHECKSUM: usize = 12;
const V4_OPT_FILL: usize = 15;
/// RFC 791 §3.1, TOS octet per RFC 2474 / RFC 3168
static IPV4: Layout = Layout {
    name: "Ipv4Header",
    len: 20,
    f: &[
        fld("version", 0, 4, 0, &[0xF0], 4, K::Const(4), Vary::No),
        fld("ihl", 4, 4, 0, &[0x0F], 0, K::Field, Vary::Range(5, 15)),
        fld("dscp", 8, 6, 1, &[0xFC], 2, K::Field, Vary::All),
        fld("ecn", 14, 2, 1, &[0x03], 0, K::Field, Vary::All),
        fld("total_len", 16, 16, 2, M2, 0, K::Field, Vary::All),
        fld("identification", 32, 16, 4, M2, 0, K::Field, Vary::All),
        fld("flag_reserved", 48, 1, 6, &[0x80], 7, K::Resv, Vary::No),
        fld("dont_fragment", 49, 1, 6, &[0x40], 6, K::Field, Vary::All),
        fld("more_fragments", 50, 1, 6, &[0x20], 5, K::Field, Vary::All),
        fld("fragment_offset", 51, 13, 6, &[0x1F, 0xFF], 0, K::Field, Vary::All),
        fld("time_to_live", 64, 8, 8, M1, 0, K::Field, Vary::All),
        fld("protocol", 72, 8, 9, M1, 0, K::Field, Vary::All),
        fld("header_checksum", 80, 16, 10, M2, 0, K::Field, Vary::All),
        fld("source", 96, 32, 12, M4, 0, K::Field, Vary::Walk),
        fld("destination", 128, 32, 16, M4, 0, K::Field, Vary::Walk),
        fld("opt_fill", 0, 8, 0, NOMASK, 0, K::Virt, Vary::Walk),
    ],
};

const V6_VERSION: usize = 0;
const V6_TC: usize = 1;
const V6_FL: usize = 2;
/// RFC 8200 §3
static IPV6: Layout = Layout {
    name: "Ipv6Header",
    len: 40,
    f: &[
        fld("version", 0, 4, 0, &[0xF0], 4, K::Const(6), Vary::No),
        fld("traffic_class", 4, 8, 0, &[0x0F, 0xF0], 4, K::Field, Vary::All),
        fld("flow_label", 12, 20, 1, &[0x0F, 0xFF, 0xFF], 0, K::Field, Vary::All),
        fld("payload_length", 32, 16, 4, M2, 0, K::Field, Vary::All),
        fld("next_header", 48, 8, 6, M1, 0, K::Field, Vary::All),
        fld("hop_limit", 56, 8, 7, M1, 0, K::Field, Vary::All),
        fld("source", 64, 128, 8, M16, 0, K::Field, Vary::Walk),
        fld("destination", 192, 128, 24, M16, 0, K::Field, Vary::Walk),
        // RFC 2474 / RFC 3168: the traffic class octet is DSCP(6) ECN(2)
        fld("dscp", 4, 6, 0, &[0x0F, 0xC0], 6, K::Sub, Vary::No),
        fld("ecn", 10, 2, 1, &[0x30], 4, K::Sub, Vary::No),
    ],
};

/// RFC 8200 §4.5
static FRAG: Layout = Layout {
    name: "Ipv6FragmentHeader",
    len: 8,
    f: &[
        fld("next_header", 0, 8, 0, M1, 0, K::Field, Vary::All),
        fld("reserved", 8, 8, 1, M1, 0, K::Resv, Vary::No),
        fld("fragment_offset", 16, 13, 2, &[0xFF, 0xF8], 3, K::Field, Vary::All),
        fld("res", 29, 2, 3, &[0x06], 1, K::Resv, Vary::No),
        fld("more_fragments", 31, 1, 3, &[0x01], 0, K::Field, Vary::All),
        fld("identification", 32, 32, 4, M4, 0, K::Field, Vary::Walk),
    ],
};

const MS_SC: usize = 2;
const MS_E: usize = 4;
const MS_C: usize = 5;
const MS_SL: usize = 8;
const MS_SCI: usize = 10;
const MS_ETY: usize = 11;
/// IEEE 802.1AE SecTAG behind the MACsec ether type (TCI/AN, SL, PN); SCI and the ether type of
/// an unmodified payload follow (variable part)
static MACSEC: Layout = Layout {
    name: "MacsecHeader",
    len: 6,
    f: &[
        fld("version", 0, 1, 0, &[0x80], 7, K::Const(0), Vary::No),
        fld("es", 1, 1, 0, &[0x40], 6, K::Field, Vary::All),
        fld("sc", 2, 1, 0, &[0x20], 5, K::Field, Vary::All),
        fld("scb", 3, 1, 0, &[0x10], 4, K::Field, Vary::All),
        fld("e", 4, 1, 0, &[0x08], 3, K::Field, Vary::All),
        fld("c", 5, 1, 0, &[0x04], 2, K::Field, Vary::All),
        fld("an", 6, 2, 0, &[0x03], 0, K::Field, Vary::All),
        fld("sl_reserved", 8, 2, 1, &[0xC0], 6, K::Resv, Vary::No),
        fld("short_len", 10, 6, 1, &[0x3F], 0, K::Field, Vary::All),
        fld("packet_nr", 16, 32, 2, M4, 0, K::Field, Vary::Walk),
        fld("sci", 0, 64, 0, NOMASK, 0, K::Virt, Vary::Walk),
        fld("next_ether_type", 0, 16, 0, NOMASK, 0, K::Virt, Vary::All),
    ],
};

/// RFC 3376 §4.1
static IGMPQ: Layout = Layout {
    name: "IgmpMembershipQueryWithSources",
    len: 12,
    f: &[
        fld("type", 0, 8, 0, M1, 0, K::Const(0x11), Vary::No),
        fld("max_resp_code", 8, 8, 1, M1, 0, K::Field, Vary::All),
        fld("checksum", 16, 16, 2, M2, 0, K::Field, Vary::All),
        fld("group_address", 32, 32, 4, M4, 0, K::Field, Vary::Walk),
        // "Resv" is exposed by etherparse as the 4 bit "flags" (set_flags): a field, not Resv
        fld("resv", 64, 4, 8, &[0xF0], 4, K::Field, Vary::All),
        fld("s", 68, 1, 8, &[0x08], 3, K::Field, Vary::All),
        fld("qrv", 69, 3, 8, &[0x07], 0, K::Field, Vary::All),
        fld("qqic", 72, 8, 9, M1, 0, K::Field, Vary::All),
        fld("num_of_sources", 80, 16, 10, M2, 0, K::Field, Vary::All),
    ],
};

impl F {
    fn max(&self) -> u128 {
        if self.width >= 128 {
            u128::MAX
        } else {
            (1u128 << self.width) - 1
        }
    }

    fn range(&self) -> (u128, u128) {
        match self.vary {
            Vary::Range(lo, hi) => (lo, hi),
            _ => (0, self.max()),
        }
    }

    /// reference extraction: explicit mask, big endian, shift
    fn get(&self, b: &[u8]) -> u128 {
        let mut v: u128 = 0;
        for (i, m) in self.mask.iter().enumerate() {
            v = (v << 8) | (b[self.off + i] & m) as u128;
        }
        v >> self.shift
    }

    /// reference insertion (only the bits of the mask are touched)
    fn put(&self, b: &mut [u8], v: u128) {
        let n = self.mask.len();
        let x = v << self.shift;
        for i in 0..n {
            let byte = (x >> (8 * (n - 1 - i))) as u8;
            b[self.off + i] = (b[self.off + i] & !self.mask[i]) | (byte & self.mask[i]);
        }
    }

    /// do `a` and `b` differ inside this field's mask
    fn differs(&self, a: &[u8], b: &[u8]) -> bool {
        self.mask
            .iter()
            .enumerate()
            .any(|(i, m)| (a[self.off + i] ^ b[self.off + i]) & m != 0)
    }

    fn dom_size(&self) -> u64 {
        match self.vary {
            Vary::All => 1u64 << self.width,
            Vary::Walk => 2 + 2 * self.width as u64,
            Vary::Range(lo, hi) => (hi - lo + 1) as u64,
            Vary::No => 0,
        }
    }

    fn dom_value(&self, k: u64) -> u128 {
        match self.vary {
            Vary::All => k as u128,
            Vary::Range(lo, _) => lo + k as u128,
            Vary::Walk => {
                let w = self.width as u64;
                if k == 0 {
                    0
                } else if k == 1 {
                    self.max()
                } else if k < 2 + w {
                    1u128 << (k - 2)
                } else {
                    self.max() ^ (1u128 << (k - 2 - w))
                }
            }
            Vary::No => 0,
        }
    }

    /// coarse class of a value (for behaviour signatures)
    fn class(&self, v: u128) -> u8 {
        let (lo, hi) = self.range();
        if v == lo {
            0
        } else if v == hi {
            1
        } else if v.count_ones() == 1 {
            2
        } else {
            3
        }
    }
}

const CLASS_NAMES: [&str; 4] = ["min", "max", "single_bit", "other"];

fn layout_selfcheck(l: &Layout) -> Result<(), String> {
    let mut next_bit: u32 = 0;
    for f in l.f {
        if f.k == K::Virt {
            continue;
        }
        if f.mask.is_empty() || f.off + f.mask.len() > l.len {
            return Err(format!("{}.{}: mask outside the header", l.name, f.name));
        }
        // the explicit mask must be exactly the `width` bits starting at `bit0`
        for i in 0..(f.mask.len() * 8) {
            let abs = (f.off * 8 + i) as u32;
            let set = f.mask[i / 8] & (0x80 >> (i % 8)) != 0;
            let want = abs >= f.bit0 as u32 && abs < (f.bit0 + f.width) as u32;
            if set != want {
                return Err(format!("{}.{}: mask bit {} is {} but the diagram says {}", l.name, f.name, abs, set, want));
            }
        }
        if ((f.off + f.mask.len()) * 8) as u32 != f.bit0 as u32 + f.width as u32 + f.shift as u32 {
            return Err(format!("{}.{}: shift inconsistent", l.name, f.name));
        }
        if f.k == K::Sub {
            continue;
        }
        if f.bit0 as u32 != next_bit {
            return Err(format!("{}.{}: gap or overlap at bit {}", l.name, f.name, next_bit));
        }
        next_bit = f.bit0 as u32 + f.width as u32;
    }
    if next_bit != (l.len * 8) as u32 {
        return Err(format!("{}: fields cover {} of {} bits", l.name, next_bit, l.len * 8));
    }
    Ok(())
}

/// literal vectors, computed by hand from the diagrams
fn literal_selfcheck() -> Result<(), String> {
    fn want(l: &Layout, bytes: &[u8], exp: &[(&str, u128)]) -> Result<(), String> {
        for (n, v) in exp {
            let f = l.f.iter().find(|f| f.name == *n).ok_or_else(|| format!("{}: no field {}", l.name, n))?;
            let got = f.get(bytes);
            if got != *v {
                return Err(format!("{}.{}: literal vector gives {} instead of {}", l.name, n, got, v));
            }
            // insertion is the inverse of extraction
            let mut z = vec![0u8; bytes.len()];
            f.put(&mut z, *v);
            let mut o = vec![0xffu8; bytes.len()];
            f.put(&mut o, *v);
            if f.get(&z) != *v || f.get(&o) != *v {
                return Err(format!("{}.{}: put/get do not round trip", l.name, n));
            }
            for (i, (a, b)) in z.iter().zip(o.iter()).enumerate() {
                let m = if i >= f.off && i < f.off + f.mask.len() { f.mask[i - f.off] } else { 0 };
                if *a & !m != 0 || *b | m != 0xff {
                    return Err(format!("{}.{}: put touches bits outside the mask", l.name, n));
                }
            }
        }
        Ok(())
    }
    // PCP 5, DEI 1, VID 0xABC: 101 1 1010 | 1011 1100
    want(&VLAN, &[0xBA, 0xBC, 0x08, 0x00], &[("pcp", 5), ("dei", 1), ("vlan_id", 0xABC), ("ether_type", 0x0800)])?;
    want(&VLAN, &[0x0F, 0xFF, 0, 0], &[("pcp", 0), ("dei", 0), ("vlan_id", 4095)])?;
    // TOS 0xB9 = 101110 01 (EF, ECT(1)); 0x5F 0xFF = 0 1 0 11111 11111111 (DF, offset 8191)
    want(
        &IPV4,
        &[0x45, 0xB9, 0x00, 0x54, 0x12, 0x34, 0x5F, 0xFF, 0x40, 0x01, 0xAB, 0xCD, 192, 168, 0, 1, 192, 168, 0, 199],
        &[
            ("version", 4),
            ("ihl", 5),
            ("dscp", 46),
            ("ecn", 1),
            ("total_len", 0x54),
            ("identification", 0x1234),
            ("flag_reserved", 0),
            ("dont_fragment", 1),
            ("more_fragments", 0),
            ("fragment_offset", 8191),
            ("time_to_live", 64),
            ("protocol", 1),
            ("header_checksum", 0xABCD),
            ("source", 0xC0A80001),
            ("destination", 0xC0A800C7),
        ],
    )?;
    want(&IPV4, &[0x4F, 0x02, 0, 0, 0, 0, 0xA0, 0x01, 0, 0, 0, 0, 0, 0, 0, 0, 0, 0, 0, 0], &[
        ("ihl", 15),
        ("dscp", 0),
        ("ecn", 2),
        ("flag_reserved", 1),
        ("dont_fragment", 0),
        ("more_fragments", 1),
        ("fragment_offset", 1),
    ])?;
    // 6 | B9 | ABCDE
    let mut v6 = vec![0u8; 40];
    v6[..8].copy_from_slice(&[0x6B, 0x9A, 0xBC, 0xDE, 0x01, 0x02, 0x3A, 0x40]);
    want(&IPV6, &v6, &[
        ("version", 6),
        ("traffic_class", 0xB9),
        ("flow_label", 0xABCDE),
        ("payload_length", 0x0102),
        ("next_header", 58),
        ("hop_limit", 64),
        ("dscp", 46),
        ("ecn", 1),
    ])?;
    // offset 8191, Res 00, M 1
    want(&FRAG, &[0x11, 0x00, 0xFF, 0xF9, 1, 2, 3, 4], &[
        ("next_header", 17),
        ("fragment_offset", 8191),
        ("res", 0),
        ("more_fragments", 1),
        ("identification", 0x01020304),
    ])?;
    want(&FRAG, &[0, 0, 0x00, 0x0E, 0, 0, 0, 0], &[("fragment_offset", 1), ("res", 3), ("more_fragments", 0)])?;
    // 0 0 1 0 1 1 01: SC, E, C, AN 1; SL 63
    want(&MACSEC, &[0x2D, 0x3F, 0, 0, 0, 7], &[
        ("version", 0),
        ("es", 0),
        ("sc", 1),
        ("scb", 0),
        ("e", 1),
        ("c", 1),
        ("an", 1),
        ("sl_reserved", 0),
        ("short_len", 63),
        ("packet_nr", 7),
    ])?;
    want(&MACSEC, &[0xD2, 0xC1, 0, 0, 0, 0], &[("version", 1), ("es", 1), ("sc", 0), ("scb", 1), ("e", 0), ("c", 0), ("an", 2), ("sl_reserved", 3), ("short_len", 1)])?;
    // 1010 1 011
    want(&IGMPQ, &[0x11, 0x64, 0, 0, 224, 0, 0, 1, 0xAB, 0x7D, 0x00, 0x02], &[
        ("type", 0x11),
        ("max_resp_code", 100),
        ("group_address", 0xE0000001),
        ("resv", 0xA),
        ("s", 1),
        ("qrv", 3),
        ("qqic", 125),
        ("num_of_sources", 2),
    ])?;
    // constant indices used below
    let names = [
        (&IPV4, V4_IHL, "ihl"),
        (&IPV4, V4_CHECKSUM, "header_checksum"),
        (&IPV4, V4_OPT_FILL, "opt_fill"),
        (&IPV6, V6_VERSION, "version"),
        (&IPV6, V6_TC, "traffic_class"),
        (&IPV6, V6_FL, "flow_label"),
        (&MACSEC, MS_SC, "sc"),
        (&MACSEC, MS_E, "e"),
        (&MACSEC, MS_C, "c"),
        (&MACSEC, MS_SL, "short_len"),
        (&MACSEC, MS_SCI, "sci"),
        (&MACSEC, MS_ETY, "next_ether_type"),
    ];
    for (l, i, n) in names {
        if l.f[i].name != n {
            return Err(format!("{}: index {} is {} and not {}", l.name, i, l.f[i].name, n));
        }
    }
    Ok(())
}

#[derive(Clone, Copy, PartialEq, Eq, Debug)]
enum H {
    Vlan,
    Ipv4,
    Ipv6,
    Frag,
    Macsec,
    Igmp,
}

const ALL_H: [H; 6] = [H::Vlan, H::Ipv4, H::Ipv6, H::Frag, H::Macsec, H::Igmp];

impl H {
    fn layout(self) -> &'static Layout {
        match self {
            H::Vlan => &VLAN,
            H::Ipv4 => &IPV4,
            H::Ipv6 => &IPV6,
            H::Frag => &FRAG,
            H::Macsec => &MACSEC,
            H::Igmp => &IGMPQ,
        }
    }
    fn name(self) -> &'static str {
        self.layout().name
    }
    /// number of values handled by one case of the encode engine
    fn enc_block(self) -> u64 {
        match self {
            H::Ipv6 => 4096,
            _ => 1024,
        }
    }
}

/// the variable part behind the fixed layout (reference)
fn ref_tail(h: H, v: &[u128]) -> Vec<u8> {
    match h {
        H::Ipv4 => vec![v[V4_OPT_FILL] as u8; ((v[V4_IHL] as usize).saturating_sub(5)) * 4],
        H::Macsec => {
            let mut t = Vec::new();
            if v[MS_SC] != 0 {
                t.extend_from_slice(&(v[MS_SCI] as u64).to_be_bytes());
            }
            if v[MS_E] == 0 && v[MS_C] == 0 {
                t.extend_from_slice(&(v[MS_ETY] as u16).to_be_bytes());
            }
            t
        }
        _ => Vec::new(),
    }
}

/// reference encoder
fn ref_encode(h: H, v: &[u128]) -> Vec<u8> {
    let l = h.layout();
    let mut b = vec![0u8; l.len];
    for (i, f) in l.f.iter().enumerate() {
        match f.k {
            K::Field => f.put(&mut b, v[i]),
            K::Const(c) => f.put(&mut b, c),
            K::Resv | K::Sub | K::Virt => {}
        }
    }
    b.extend(ref_tail(h, v));
    b
}

/// header length announced by the bytes (reference)
fn ref_hdr_len(h: H, b: &[u8]) -> usize {
    match h {
        H::Vlan => 4,
        H::Ipv4 => (b[0] & 0x0f) as usize * 4,
        H::Ipv6 => 40,
        H::Frag => 8,
        H::Macsec => 6 + if b[0] & 0x20 != 0 { 8 } else { 0 } + if b[0] & 0x0C == 0 { 2 } else { 0 },
        H::Igmp => 12,
    }
}

#[derive(Clone, Copy, PartialEq, Eq, Debug)]
enum Nb {
    Zeros,
    Ones,
    Rand,
}
const NBS: [Nb; 3] = [Nb::Zeros, Nb::Ones, Nb::Rand];
impl Nb {
    fn name(self) -> &'static str {
        match self {
            Nb::Zeros => "zeros",
            Nb::Ones => "ones",
            Nb::Rand => "rand",
        }
    }
}

fn rand_in(rng: &mut Prng, lo: u128, hi: u128) -> u128 {
    let r = ((rng.next() as u128) << 64) | rng.next() as u128;
    let span = hi - lo;
    if span == u128::MAX {
        r
    } else {
        lo + r % (span + 1)
    }
}

fn neighbour_vals(l: &Layout, nb: Nb, rng: &mut Prng) -> Vec<u128> {
    l.f.iter()
        .map(|f| match f.k {
            K::Const(c) => c,
            K::Resv | K::Sub => 0,
            K::Field | K::Virt => {
                let (lo, hi) = f.range();
                match nb {
                    Nb::Zeros => lo,
                    Nb::Ones => hi,
                    Nb::Rand => rand_in(rng, lo, hi),
                }
            }
        })
        .collect()
}

// ---------------------------------------------------------------------------------------------
// etherparse adapters: what every decoding entry reports / what every encoding entry writes
// ---------------------------------------------------------------------------------------------

/// values reported by one decoding entry, in layout order (None = not reported by this entry)
struct Obs {
    entry: &'static str,
    vals: Result<Vec<Option<u128>>, String>,
}

fn ob(entry: &'static str, vals: Result<Vec<Option<u128>>, String>) -> Obs {
    Obs { entry, vals }
}

fn s(v: impl Into<u128>) -> Option<u128> {
    Some(v.into())
}

fn vlan_vals(h: &SingleVlanHeader) -> Vec<Option<u128>> {
    vec![s(h.pcp.value()), s(h.drop_eligible_indicator), s(h.vlan_id.value()), s(h.ether_type.0)]
}

fn dec_vlan(b: &[u8]) -> Vec<Obs> {
    let mut o = Vec::with_capacity(7);
    o.push(ob("SingleVlanHeader::from_bytes", Ok(vlan_vals(&SingleVlanHeader::from_bytes([b[0], b[1], b[2], b[3]])))));
    o.push(ob(
        "SingleVlanHeader::from_slice",
        SingleVlanHeader::from_slice(b).map(|(h, _)| vlan_vals(&h)).map_err(|e| format!("{:?}", e)),
    ));
    match SingleVlanHeaderSlice::from_slice(b) {
        Ok(x) => {
            o.push(ob(
                "SingleVlanHeaderSlice",
                Ok(vec![
                    s(x.priority_code_point().value()),
                    s(x.drop_eligible_indicator()),
                    s(x.vlan_identifier().value()),
                    s(x.ether_type().0),
                ]),
            ));
            o.push(ob("SingleVlanHeaderSlice::to_header", Ok(vlan_vals(&x.to_header()))));
        }
        Err(e) => o.push(ob("SingleVlanHeaderSlice", Err(format!("{:?}", e)))),
    }
    match SingleVlanSlice::from_slice(b) {
        Ok(x) => {
            o.push(ob(
                "SingleVlanSlice",
                Ok(vec![
                    s(x.priority_code_point().value()),
                    s(x.drop_eligible_indicator()),
                    s(x.vlan_identifier().value()),
                    s(x.ether_type().0),
                ]),
            ));
            o.push(ob("SingleVlanSlice::to_header", Ok(vlan_vals(&x.to_header()))));
        }
        Err(e) => o.push(ob("SingleVlanSlice", Err(format!("{:?}", e)))),
    }
    o.push(ob(
        "SingleVlanHeader::read",
        SingleVlanHeader::read(&mut Cursor::new(b)).map(|h| vlan_vals(&h)).map_err(|e| format!("{:?}", e)),
    ));
    o
}

fn ipv4_vals(h: &Ipv4Header) -> Vec<Option<u128>> {
    vec![
        None,
        s(h.ihl()),
        s(h.dscp.value()),
        s(h.ecn.value()),
        s(h.total_len),
        s(h.identification),
        None,
        s(h.dont_fragment),
        s(h.more_fragments),
        s(h.fragment_offset.value()),
        s(h.time_to_live),
        s(h.protocol.0),
        s(h.header_checksum),
        s(u32::from_be_bytes(h.source)),
        s(u32::from_be_bytes(h.destination)),
        None,
    ]
}

fn dec_ipv4(b: &[u8]) -> Vec<Obs> {
    let mut o = Vec::with_capacity(4);
    match Ipv4HeaderSlice::from_slice(b) {
        Ok(x) => {
            o.push(ob(
                "Ipv4HeaderSlice",
                Ok(vec![
                    s(x.version()),
                    s(x.ihl()),
                    s(x.dcp().value()),
                    s(x.ecn().value()),
                    s(x.total_len()),
                    s(x.identification()),
                    None,
                    s(x.dont_fragment()),
                    s(x.more_fragments()),
                    s(x.fragments_offset().value()),
                    s(x.ttl()),
                    s(x.protocol().0),
                    s(x.header_checksum()),
                    s(u32::from_be_bytes(x.source())),
                    s(u32::from_be_bytes(x.destination())),
                    None,
                ]),
            ));
            o.push(ob("Ipv4HeaderSlice::to_header", Ok(ipv4_vals(&x.to_header()))));
        }
        Err(e) => o.push(ob("Ipv4HeaderSlice", Err(format!("{:?}", e)))),
    }
    o.push(ob(
        "Ipv4Header::from_slice",
        Ipv4Header::from_slice(b).map(|(h, _)| ipv4_vals(&h)).map_err(|e| format!("{:?}", e)),
    ));
    o.push(ob(
        "Ipv4Header::read",
        Ipv4Header::read(&mut Cursor::new(b)).map(|h| ipv4_vals(&h)).map_err(|e| format!("{:?}", e)),
    ));
    o
}

fn ipv6_vals(h: &Ipv6Header) -> Vec<Option<u128>> {
    vec![
        None,
        s(h.traffic_class),
        s(h.flow_label.value()),
        s(h.payload_length),
        s(h.next_header.0),
        s(h.hop_limit),
        s(u128::from_be_bytes(h.source)),
        s(u128::from_be_bytes(h.destination)),
        s(h.dscp().value()),
        s(h.ecn().value()),
    ]
}

fn ipv6_slice_vals(x: &Ipv6HeaderSlice) -> Vec<Option<u128>> {
    vec![
        s(x.version()),
        s(x.traffic_class()),
        s(x.flow_label().value()),
        s(x.payload_length()),
        s(x.next_header().0),
        s(x.hop_limit()),
        s(u128::from_be_bytes(x.source())),
        s(u128::from_be_bytes(x.destination())),
        s(x.dscp().value()),
        s(x.ecn().value()),
    ]
}

fn dec_ipv6(b: &[u8]) -> Vec<Obs> {
    let mut o = Vec::with_capacity(4);
    match Ipv6HeaderSlice::from_slice(b) {
        Ok(x) => {
            o.push(ob("Ipv6HeaderSlice", Ok(ipv6_slice_vals(&x))));
            o.push(ob("Ipv6HeaderSlice::to_header", Ok(ipv6_vals(&x.to_header()))));
        }
        Err(e) => o.push(ob("Ipv6HeaderSlice", Err(format!("{:?}", e)))),
    }
    o.push(ob(
        "Ipv6Header::from_slice",
        Ipv6Header::from_slice(b).map(|(h, _)| ipv6_vals(&h)).map_err(|e| format!("{:?}", e)),
    ));
    o.push(ob(
        "Ipv6Header::read",
        Ipv6Header::read(&mut Cursor::new(b)).map(|h| ipv6_vals(&h)).map_err(|e| format!("{:?}", e)),
    ));
    o
}

fn frag_vals(h: &Ipv6FragmentHeader) -> Vec<Option<u128>> {
    vec![s(h.next_header.0), None, s(h.fragment_offset.value()), None, s(h.more_fragments), s(h.identification)]
}

fn dec_frag(b: &[u8]) -> Vec<Obs> {
    let mut o = Vec::with_capacity(4);
    match Ipv6FragmentHeaderSlice::from_slice(b) {
        Ok(x) => {
            o.push(ob(
                "Ipv6FragmentHeaderSlice",
                Ok(vec![s(x.next_header().0), None, s(x.fragment_offset().value()), None, s(x.more_fragments()), s(x.identification())]),
            ));
            o.push(ob("Ipv6FragmentHeaderSlice::to_header", Ok(frag_vals(&x.to_header()))));
        }
        Err(e) => o.push(ob("Ipv6FragmentHeaderSlice", Err(format!("{:?}", e)))),
    }
    o.push(ob(
        "Ipv6FragmentHeader::from_slice",
        Ipv6FragmentHeader::from_slice(b).map(|(h, _)| frag_vals(&h)).map_err(|e| format!("{:?}", e)),
    ));
    o.push(ob(
        "Ipv6FragmentHeader::read",
        Ipv6FragmentHeader::read(&mut Cursor::new(b)).map(|h| frag_vals(&h)).map_err(|e| format!("{:?}", e)),
    ));
    o
}

fn macsec_vals(h: &MacsecHeader) -> Vec<Option<u128>> {
    // E and C as documented for MacsecPType
    let (e, c, ety) = match h.ptype {
        MacsecPType::Unmodified(t) => (false, false, Some(t.0)),
        MacsecPType::Modified => (false, true, None),
        MacsecPType::Encrypted => (true, true, None),
        MacsecPType::EncryptedUnmodified => (true, false, None),
    };
    vec![
        None,
        s(h.endstation_id),
        s(h.sci.is_some()),
        s(h.scb),
        s(e),
        s(c),
        s(h.an.value()),
        None,
        s(h.short_len.value()),
        s(h.packet_nr),
        h.sci.map(|x| x as u128),
        ety.map(|x| x as u128),
    ]
}

fn macsec_slice_vals(x: &MacsecHeaderSlice) -> Vec<Option<u128>> {
    vec![
        None,
        s(x.endstation_id()),
        s(x.sci_present()),
        s(x.tci_scb()),
        s(x.encrypted()),
        s(x.userdata_changed()),
        s(x.an().value()),
        None,
        s(x.short_len().value()),
        s(x.packet_nr()),
        x.sci().map(|x| x as u128),
        x.next_ether_type().map(|x| x.0 as u128),
    ]
}

fn dec_macsec(b: &[u8]) -> Vec<Obs> {
    let mut o = Vec::with_capacity(5);
    match MacsecHeaderSlice::from_slice(b) {
        Ok(x) => {
            o.push(ob("MacsecHeaderSlice", Ok(macsec_slice_vals(&x))));
            o.push(ob("MacsecHeaderSlice::to_header", Ok(macsec_vals(&x.to_header()))));
        }
        Err(e) => o.push(ob("MacsecHeaderSlice", Err(format!("{:?}", e)))),
    }
    o.push(ob("MacsecHeader::from_slice", MacsecHeader::from_slice(b).map(|h| macsec_vals(&h)).map_err(|e| format!("{:?}", e))));
    o.push(ob(
        "MacsecHeader::read",
        MacsecHeader::read(&mut Cursor::new(b)).map(|h| macsec_vals(&h)).map_err(|e| format!("{:?}", e)),
    ));
    o.push(ob(
        "MacsecSlice::from_slice.header",
        MacsecSlice::from_slice(b).map(|m| macsec_slice_vals(&m.header)).map_err(|e| format!("{:?}", e)),
    ));
    o
}

fn igmp_vals(h: &IgmpHeader) -> Result<Vec<Option<u128>>, String> {
    match &h.igmp_type {
        IgmpType::MembershipQueryWithSources(q) => Ok(vec![
            None,
            s(q.max_response_code.0),
            s(h.checksum),
            s(u32::from_be_bytes(q.group_address.octets)),
            s(q.flags()),
            s(q.s_flag()),
            s(q.qrv().value()),
            s(q.qqic),
            s(q.num_of_sources),
        ]),
        other => Err(format!("not decoded as a query with sources: {:?}", other)),
    }
}

fn dec_igmp(b: &[u8]) -> Vec<Obs> {
    vec![ob(
        "IgmpHeader::from_slice",
        match IgmpHeader::from_slice(b) {
            Ok((h, _)) => igmp_vals(&h),
            Err(e) => Err(format!("{:?}", e)),
        },
    )]
}

fn ep_decode(h: H, b: &[u8]) -> Vec<Obs> {
    match h {
        H::Vlan => dec_vlan(b),
        H::Ipv4 => dec_ipv4(b),
        H::Ipv6 => dec_ipv6(b),
        H::Frag => dec_frag(b),
        H::Macsec => dec_macsec(b),
        H::Igmp => dec_igmp(b),
    }
}

/// decode with from_slice and write the header again
fn ep_reencode(h: H, b: &[u8]) -> Result<Vec<u8>, String> {
    let e = |x: &dyn std::fmt::Debug| format!("{:?}", x);
    Ok(match h {
        H::Vlan => SingleVlanHeader::from_slice(b).map_err(|x| e(&x))?.0.to_bytes().to_vec(),
        H::Ipv4 => Ipv4Header::from_slice(b).map_err(|x| e(&x))?.0.to_bytes().to_vec(),
        H::Ipv6 => Ipv6Header::from_slice(b).map_err(|x| e(&x))?.0.to_bytes().to_vec(),
        H::Frag => Ipv6FragmentHeader::from_slice(b).map_err(|x| e(&x))?.0.to_bytes().to_vec(),
        H::Macsec => MacsecHeader::from_slice(b).map_err(|x| e(&x))?.to_bytes().to_vec(),
        H::Igmp => IgmpHeader::from_slice(b).map_err(|x| e(&x))?.0.to_bytes().to_vec(),
    })
}

type Enc = Vec<(&'static str, Vec<u8>)>;

fn too_big<T: std::fmt::Debug>(what: &str, e: T) -> String {
    format!("checked constructor rejects a value that fits ({}): {:?}", what, e)
}

fn enc_vlan(v: &[u128]) -> Result<Enc, String> {
    let h = SingleVlanHeader {
        pcp: VlanPcp::try_new(v[0] as u8).map_err(|e| too_big("VlanPcp", e))?,
        drop_eligible_indicator: v[1] != 0,
        vlan_id: VlanId::try_new(v[2] as u16).map_err(|e| too_big("VlanId", e))?,
        ether_type: EtherType(v[3] as u16),
    };
    let mut w = Vec::new();
    h.write(&mut w).map_err(|e| format!("write: {:?}", e))?;
    Ok(vec![("SingleVlanHeader::to_bytes", h.to_bytes().to_vec()), ("SingleVlanHeader::write", w)])
}

fn enc_ipv4(v: &[u128]) -> Result<Enc, String> {
    let opts = ref_tail(H::Ipv4, v);
    let h = Ipv4Header {
        dscp: IpDscp::try_new(v[2] as u8).map_err(|e| too_big("IpDscp", e))?,
        ecn: IpEcn::try_new(v[3] as u8).map_err(|e| too_big("IpEcn", e))?,
        total_len: v[4] as u16,
        identification: v[5] as u16,
        dont_fragment: v[7] != 0,
        more_fragments: v[8] != 0,
        fragment_offset: IpFragOffset::try_new(v[9] as u16).map_err(|e| too_big("IpFragOffset", e))?,
        time_to_live: v[10] as u8,
        protocol: IpNumber(v[11] as u8),
        header_checksum: v[12] as u16,
        source: (v[13] as u32).to_be_bytes(),
        destination: (v[14] as u32).to_be_bytes(),
        options: Ipv4Options::try_from(&opts[..]).map_err(|e| format!("options: {:?}", e))?,
    };
    let mut raw = Vec::new();
    h.write_raw(&mut raw).map_err(|e| format!("write_raw: {:?}", e))?;
    // `write` recomputes the checksum: octets 10..12 are not compared (patched to the field)
    let mut w = Vec::new();
    h.write(&mut w).map_err(|e| format!("write: {:?}", e))?;
    if w.len() >= 12 {
        w[10..12].copy_from_slice(&(v[V4_CHECKSUM] as u16).to_be_bytes());
    }
    Ok(vec![
        ("Ipv4Header::to_bytes", h.to_bytes().to_vec()),
        ("Ipv4Header::write_raw", raw),
        ("Ipv4Header::write(checksum octets ignored)", w),
    ])
}

fn enc_ipv6(v: &[u128]) -> Result<Enc, String> {
    let h = Ipv6Header {
        traffic_class: v[1] as u8,
        flow_label: Ipv6FlowLabel::try_new(v[2] as u32).map_err(|e| too_big("Ipv6FlowLabel", e))?,
        payload_length: v[3] as u16,
        next_header: IpNumber(v[4] as u8),
        hop_limit: v[5] as u8,
        source: v[6].to_be_bytes(),
        destination: v[7].to_be_bytes(),
    };
    let mut w = Vec::new();
    h.write(&mut w).map_err(|e| format!("write: {:?}", e))?;
    Ok(vec![("Ipv6Header::to_bytes", h.to_bytes().to_vec()), ("Ipv6Header::write", w)])
}

fn enc_frag(v: &[u128]) -> Result<Enc, String> {
    let h = Ipv6FragmentHeader::new(
        IpNumber(v[0] as u8),
        IpFragOffset::try_new(v[2] as u16).map_err(|e| too_big("IpFragOffset", e))?,
        v[4] != 0,
        v[5] as u32,
    );
    let mut w = Vec::new();
    h.write(&mut w).map_err(|e| format!("write: {:?}", e))?;
    Ok(vec![("Ipv6FragmentHeader::to_bytes", h.to_bytes().to_vec()), ("Ipv6FragmentHeader::write", w)])
}

fn enc_macsec(v: &[u128]) -> Result<Enc, String> {
    let ptype = match (v[MS_E] != 0, v[MS_C] != 0) {
        (false, false) => MacsecPType::Unmodified(EtherType(v[MS_ETY] as u16)),
        (false, true) => MacsecPType::Modified,
        (true, true) => MacsecPType::Encrypted,
        (true, false) => MacsecPType::EncryptedUnmodified,
    };
    let h = MacsecHeader {
        ptype,
        endstation_id: v[1] != 0,
        scb: v[3] != 0,
        an: MacsecAn::try_new(v[6] as u8).map_err(|e| too_big("MacsecAn", e))?,
        short_len: MacsecShortLen::try_from_u8(v[MS_SL] as u8).map_err(|e| too_big("MacsecShortLen", e))?,
        packet_nr: v[9] as u32,
        sci: if v[MS_SC] != 0 { Some(v[MS_SCI] as u64) } else { None },
    };
    let mut w = Vec::new();
    h.write(&mut w).map_err(|e| format!("write: {:?}", e))?;
    Ok(vec![("MacsecHeader::to_bytes", h.to_bytes().to_vec()), ("MacsecHeader::write", w)])
}

fn enc_igmp(v: &[u128]) -> Result<Enc, String> {
    let qrv = igmp::Qrv::try_new(v[6] as u8).map_err(|e| too_big("Qrv", e))?;
    let blank = igmp::MembershipQueryWithSourcesHeader {
        max_response_code: igmp::MaxResponseCode(v[1] as u8),
        group_address: (v[3] as u32).to_be_bytes().into(),
        raw_byte_8: 0,
        qqic: v[7] as u8,
        num_of_sources: v[8] as u16,
    };
    let mut a = blank.clone();
    a.set_flags(v[4] as u8);
    a.set_s_flag(v[5] != 0);
    a.set_qrv(qrv);
    let mut b = blank;
    // start from all ones and use the opposite order
    b.raw_byte_8 = 0xff;
    b.set_qrv(qrv);
    b.set_s_flag(v[5] != 0);
    b.set_flags(v[4] as u8);
    let ha = IgmpHeader {
        igmp_type: IgmpType::MembershipQueryWithSources(a),
        checksum: v[2] as u16,
    };
    let hb = IgmpHeader {
        igmp_type: IgmpType::MembershipQueryWithSources(b),
        checksum: v[2] as u16,
    };
    Ok(vec![
        ("IgmpHeader::to_bytes(0;set_flags,set_s_flag,set_qrv)", ha.to_bytes().to_vec()),
        ("IgmpHeader::to_bytes(0xff;set_qrv,set_s_flag,set_flags)", hb.to_bytes().to_vec()),
    ])
}

fn ep_encode(h: H, v: &[u128]) -> Result<Enc, String> {
    match h {
        H::Vlan => enc_vlan(v),
        H::Ipv4 => enc_ipv4(v),
        H::Ipv6 => enc_ipv6(v),
        H::Frag => enc_frag(v),
        H::Macsec => enc_macsec(v),
        H::Igmp => enc_igmp(v),
    }
}

// ---------------------------------------------------------------------------------------------
// judging
// ---------------------------------------------------------------------------------------------

/// fields outside the fixed layout (reference, plain indexing)
fn ref_virt(h: H, b: &[u8], idx: usize) -> Option<u128> {
    match (h, idx) {
        (H::Macsec, MS_SCI) if b[0] & 0x20 != 0 => {
            let mut a = [0u8; 8];
            a.copy_from_slice(&b[6..14]);
            Some(u64::from_be_bytes(a) as u128)
        }
        (H::Macsec, MS_ETY) if b[0] & 0x0C == 0 => {
            let o = if b[0] & 0x20 != 0 { 14 } else { 6 };
            Some(u16::from_be_bytes([b[o], b[o + 1]]) as u128)
        }
        _ => None,
    }
}

const MAX_ENTRIES: usize = 8;
const MAX_FIELDS: usize = 16;

/// classes of values seen per (entry, field) within one case: turned into signatures at its end
struct Seen {
    h: H,
    what: &'static str,
    entries: [&'static str; MAX_ENTRIES],
    m: [[u8; MAX_FIELDS]; MAX_ENTRIES],
}

impl Seen {
    fn new(h: H, what: &'static str) -> Seen {
        Seen {
            h,
            what,
            entries: [""; MAX_ENTRIES],
            m: [[0; MAX_FIELDS]; MAX_ENTRIES],
        }
    }
    #[inline]
    fn mark(&mut self, ei: usize, entry: &'static str, fi: usize, class: u8) {
        if ei < MAX_ENTRIES && fi < MAX_FIELDS {
            self.entries[ei] = entry;
            self.m[ei][fi] |= 1 << class;
        }
    }
    /// non-trivial = an entry point produced (or consumed) a given field with a value of a
    /// given class (minimum / maximum / single bit / other)
    fn flush(&self, rep: &mut Report) {
        let l = self.h.layout();
        for ei in 0..MAX_ENTRIES {
            for fi in 0..MAX_FIELDS.min(l.f.len()) {
                for c in 0..4 {
                    if self.m[ei][fi] & (1 << c) != 0 {
                        rep.sig(&format!("{}|{}|{}|{}|{}", self.what, l.name, self.entries[ei], l.f[fi].name, CLASS_NAMES[c]));
                    }
                }
            }
        }
    }
}

/// A panic is not judged here (C01/C02 do that) with one exception: the debug assertion inside
/// the unchecked constructors of the bounded types (`debug_assert!(value <= X::MAX_..)`) firing
/// means that etherparse itself produced an out-of-range value — exactly what C15 forbids. With
/// debug assertions off the same defect shows as `out_of_range` in `judge_decode`.
fn abnormal(rep: &mut Report, what: &str, p: &shell::Panicked, input: &[u8]) {
    note_abnormal(rep, what, p);
    if p.0.contains("assertion failed: value <=") {
        rep.violation(
            &format!("unchecked_out_of_range|{}|{}", what, p.location()),
            format!("{}: an unchecked constructor of a bounded type was handed a value that does not fit: {}", what, p.0),
            input,
        );
    }
}

pub struct C15 {
    selfchecked: bool,
}

impl C15 {
    pub fn new() -> C15 {
        C15 { selfchecked: false }
    }

    fn selfcheck(&mut self, rep: &mut Report) {
        if self.selfchecked {
            return;
        }
        self.selfchecked = true;
        let mut ok = true;
        for h in ALL_H {
            if let Err(e) = layout_selfcheck(h.layout()) {
                rep.selfcheck_fail(format!("reference table: {}", e));
                ok = false;
            }
            if h.layout().f.len() > MAX_FIELDS {
                rep.selfcheck_fail(format!("{}: too many fields", h.name()));
                ok = false;
            }
        }
        if let Err(e) = literal_selfcheck() {
            rep.selfcheck_fail(format!("reference table: {}", e));
            ok = false;
        }
        if ok {
            rep.count("selfcheck.reference_table_ok");
        }
    }

    /// every decoding entry on `b` against the reference extraction.
    /// Returns whether the primary entry accepted the bytes.
    fn judge_decode(&mut self, rep: &mut Report, h: H, b: &[u8], what: &str, seen: &mut Seen) -> Option<bool> {
        let l = h.layout();
        shell::progress_entry(1500 + h as u64);
        let obs = match shell::guarded(|| ep_decode(h, b)) {
            Ok(o) => o,
            Err(p) => {
                abnormal(rep, l.name, &p, b);
                return None;
            }
        };
        let mut accepted = None;
        for (ei, o) in obs.iter().enumerate() {
            rep.evals += 1;
            let vals = match &o.vals {
                Ok(v) => v,
                Err(_) => {
                    if ei == 0 {
                        accepted = Some(false);
                    } else if accepted == Some(true) {
                        // visible, so that a sibling entry that refuses everything is noticed
                        rep.count(&format!("dec.sibling_rejects.{}", o.entry));
                    }
                    continue;
                }
            };
            if ei == 0 {
                accepted = Some(true);
            }
            for (fi, f) in l.f.iter().enumerate() {
                let want = if f.k == K::Virt { ref_virt(h, b, fi) } else { Some(f.get(b)) };
                let got = vals[fi];
                if f.k == K::Virt {
                    if h == H::Macsec && got != want {
                        rep.violation(
                            &format!("{}|value|{}|{}|{}", what, l.name, o.entry, f.name),
                            format!(
                                "{} {}: reports {:?}, the octets behind the SecTAG hold {:?} (IEEE 802.1AE 9.9 / ether type behind the SecTAG)",
                                o.entry, f.name, got, want
                            ),
                            b,
                        );
                    }
                    continue;
                }
                let (got, want) = match (got, want) {
                    (Some(g), Some(w)) => (g, w),
                    _ => continue,
                };
                if got > f.max() {
                    rep.violation(
                        &format!("{}|out_of_range|{}|{}|{}", what, l.name, o.entry, f.name),
                        format!("{} {}: decoded value {} exceeds the {} bit maximum {}", o.entry, f.name, got, f.width, f.max()),
                        b,
                    );
                } else if got != want {
                    rep.violation(
                        &format!("{}|value|{}|{}|{}", what, l.name, o.entry, f.name),
                        format!(
                            "{} {}: decoded {} but octets {}..{} & {} >> {} give {}",
                            o.entry,
                            f.name,
                            got,
                            f.off,
                            f.off + f.mask.len(),
                            hex(f.mask),
                            f.shift,
                            want
                        ),
                        b,
                    );
                } else {
                    seen.mark(ei, o.entry, fi, f.class(got));
                }
            }
        }
        accepted
    }

    /// decode + encode must reproduce the octets (reserved bits cleared)
    fn judge_reencode(&mut self, rep: &mut Report, h: H, b: &[u8]) {
        let l = h.layout();
        rep.evals += 1;
        let out = match shell::guarded(|| ep_reencode(h, b)) {
            Ok(Ok(o)) => o,
            Ok(Err(_)) => return,
            Err(p) => {
                abnormal(rep, l.name, &p, b);
                return;
            }
        };
        let n = ref_hdr_len(h, b);
        let mut want = b[..n].to_vec();
        for f in l.f {
            if f.k == K::Resv {
                f.put(&mut want, 0);
            }
        }
        if out == want {
            rep.count(&format!("reencode.{}.same", l.name));
            return;
        }
        let field = if out.len() != want.len() {
            "length"
        } else {
            l.f.iter()
                .filter(|f| !matches!(f.k, K::Virt | K::Sub))
                .find(|f| f.differs(&out, &want))
                .map(|f| f.name)
                .unwrap_or("tail")
        };
        rep.violation(
            &format!("reencode|{}|{}", l.name, field),
            format!(
                "{}: from_slice + to_bytes gives {} for {} (expected {}: same octets, reserved bits zero); first difference in {}",
                l.name,
                hex(&out),
                hex(&b[..n]),
                hex(&want),
                field
            ),
            b,
        );
    }

    /// one header value set through every encoding entry
    fn judge_encode(&mut self, rep: &mut Report, h: H, fi: usize, v: &[u128], base: &[u128], nb: Nb, seen: &mut Seen, dseen: &mut Seen) {
        let l = h.layout();
        let f = &l.f[fi];
        shell::progress_entry(1600 + h as u64);
        let res = shell::guarded(|| (ep_encode(h, v), ep_encode(h, base)));
        let (outs, bouts) = match res {
            Ok((Ok(a), Ok(b))) => (a, b),
            Ok((Err(e), _)) | Ok((_, Err(e))) => {
                rep.violation(&format!("enc|{}|construct|{}", l.name, f.name), format!("{} with {}={}: {}", l.name, f.name, v[fi], e), &[]);
                return;
            }
            Err(p) => {
                abnormal(rep, l.name, &p, &[]);
                return;
            }
        };
        let want = ref_encode(h, v);
        let describe = |v: &[u128]| -> String {
            l.f.iter()
                .enumerate()
                .filter(|(_, g)| matches!(g.k, K::Field | K::Virt))
                .map(|(i, g)| format!("{}={:#x}", g.name, v[i]))
                .collect::<Vec<_>>()
                .join(" ")
        };
        for (ei, (entry, out)) in outs.iter().enumerate() {
            rep.evals += 1;
            let mut good = true;
            // (1) absolute: the octets are exactly the reference encoding
            if *out != want {
                good = false;
                if out.len() != want.len() {
                    rep.violation(
                        &format!("enc|{}|{}|length", l.name, entry),
                        format!("{} [{}] writes {} octets ({}), expected {} ({})", entry, describe(v), out.len(), hex(out), want.len(), hex(&want)),
                        out,
                    );
                } else {
                    let mut named = false;
                    for g in l.f.iter().filter(|g| !matches!(g.k, K::Virt | K::Sub)) {
                        if g.differs(out, &want) {
                            named = true;
                            // the signature names the field whose bits are wrong, whatever field
                            // was varied (interference is judged by (2) below)
                            let (kind, rule) = if g.k == K::Resv {
                                ("reserved_nonzero", "a reserved bit is not zero")
                            } else if matches!(g.k, K::Const(_)) {
                                ("constant", "a constant field is not written as the standard says")
                            } else {
                                ("placement", "the field is not written into its own bits")
                            };
                            rep.violation(
                                &format!("enc|{}|{}|{}|{}", l.name, entry, kind, g.name),
                                format!(
                                    "{} [{}] ({} neighbours, varying {}): {}: field {} (octets {}.. mask {}) holds {:#x}, expected {:#x}; written {} expected {}",
                                    entry,
                                    describe(v),
                                    nb.name(),
                                    f.name,
                                    rule,
                                    g.name,
                                    g.off,
                                    hex(g.mask),
                                    g.get(out),
                                    g.get(&want),
                                    hex(out),
                                    hex(&want)
                                ),
                                out,
                            );
                        }
                    }
                    if !named {
                        rep.violation(
                            &format!("enc|{}|{}|tail", l.name, entry),
                            format!("{} [{}]: variable part differs: written {} expected {}", entry, describe(v), hex(out), hex(&want)),
                            out,
                        );
                    }
                }
            }
            // (2) relative: against the same header with the field at its minimum only bits
            // inside the field's mask may differ (fixed part; lengths may differ for ihl/sc/e/c)
            if let Some((_, bout)) = bouts.get(ei) {
                if out.len() >= l.len && bout.len() >= l.len {
                    for g in l.f.iter().filter(|g| !matches!(g.k, K::Virt | K::Sub)) {
                        if g.name != f.name && f.k != K::Virt && g.differs(out, bout) {
                            good = false;
                            rep.violation(
                                &format!("enc|{}|{}|bleed|{}->{}", l.name, entry, f.name, g.name),
                                format!(
                                    "{}: changing only {} from {:#x} to {:#x} ({} neighbours) changes field {}: {} vs baseline {}",
                                    entry,
                                    f.name,
                                    base[fi],
                                    v[fi],
                                    nb.name(),
                                    g.name,
                                    hex(out),
                                    hex(bout)
                                ),
                                out,
                            );
                        }
                    }
                    if f.k == K::Virt && out[..l.len] != bout[..l.len] {
                        good = false;
                        rep.violation(
                            &format!("enc|{}|{}|bleed|{}->fixed_part", l.name, entry, f.name),
                            format!("{}: changing only {} changes the fixed part: {} vs baseline {}", entry, f.name, hex(out), hex(bout)),
                            out,
                        );
                    }
                }
            }
            if good {
                seen.mark(ei, entry, fi, f.class(v[fi]));
            }
        }
        // (3) decoding the written octets gives the fields back
        if let Some((_, out)) = outs.first() {
            if *out == want {
                // MACsec refuses SL == 1 for an unmodified payload (documented HeaderError)
                let undecodable = h == H::Macsec && v[MS_E] == 0 && v[MS_C] == 0 && v[MS_SL] == 1;
                if undecodable {
                    rep.count("enc.MacsecHeader.decode_back_skipped_sl1");
                } else {
                    let mut padded = out.clone();
                    // room for a MACsec payload announced by SL, and not 8 octets for IGMP
                    padded.extend_from_slice(&[0u8; 64]);
                    match self.judge_decode(rep, h, &padded, "decode_back", dseen) {
                        Some(true) => rep.count(&format!("enc.{}.decoded_back", l.name)),
                        Some(false) => {
                            rep.count(&format!("enc.{}.decode_back_rejected", l.name));
                            rep.note(&format!("NOTE {}: bytes written by to_bytes are rejected by the decoder", l.name));
                        }
                        None => {}
                    }
                }
            }
        }
        if rep.want_sample() && nb == Nb::Rand {
            rep.sample(format!(
                "{{\"kind\":\"encode\",\"header\":{},\"varied\":{},\"fields\":{},\"written\":{}}}",
                jstr(l.name),
                jstr(f.name),
                jstr(&describe(v)),
                jstr(&hex(&outs[0].1))
            ));
        }
    }
}

// ---------------------------------------------------------------------------------------------
// constructors
// ---------------------------------------------------------------------------------------------

#[derive(Clone, Copy, PartialEq, Eq, Debug)]
enum Ty {
    VlanId,
    VlanPcp,
    IpDscp,
    IpEcn,
    IpFragOffset,
    Ipv6FlowLabel,
    MacsecAn,
    MacsecShortLen,
    Qrv,
}

const U8_TYPES: [Ty; 6] = [Ty::VlanPcp, Ty::IpDscp, Ty::IpEcn, Ty::MacsecAn, Ty::MacsecShortLen, Ty::Qrv];

impl Ty {
    fn name(self) -> &'static str {
        match self {
            Ty::VlanId => "VlanId",
            Ty::VlanPcp => "VlanPcp",
            Ty::IpDscp => "IpDscp",
            Ty::IpEcn => "IpEcn",
            Ty::IpFragOffset => "IpFragOffset",
            Ty::Ipv6FlowLabel => "Ipv6FlowLabel",
            Ty::MacsecAn => "MacsecAn",
            Ty::MacsecShortLen => "MacsecShortLen",
            Ty::Qrv => "igmp::Qrv",
        }
    }
    /// width of the field on the wire (802.1Q, RFC 2474, RFC 3168, RFC 791/8200, 802.1AE, RFC 3376)
    fn bits(self) -> u32 {
        match self {
            Ty::VlanId => 12,
            Ty::VlanPcp => 3,
            Ty::IpDscp => 6,
            Ty::IpEcn => 2,
            Ty::IpFragOffset => 13,
            Ty::Ipv6FlowLabel => 20,
            Ty::MacsecAn => 2,
            Ty::MacsecShortLen => 6,
            Ty::Qrv => 3,
        }
    }
    fn raw_bits(self) -> u32 {
        match self {
            Ty::VlanId | Ty::IpFragOffset => 16,
            Ty::Ipv6FlowLabel => 32,
            _ => 8,
        }
    }
    fn max(self) -> u64 {
        (1u64 << self.bits()) - 1
    }
    fn value_type(self) -> ValueType {
        match self {
            Ty::VlanId => ValueType::VlanId,
            Ty::VlanPcp => ValueType::VlanPcp,
            Ty::IpDscp => ValueType::IpDscp,
            Ty::IpEcn => ValueType::IpEcn,
            Ty::IpFragOffset => ValueType::IpFragmentOffset,
            Ty::Ipv6FlowLabel => ValueType::Ipv6FlowLabel,
            Ty::MacsecAn => ValueType::MacsecAn,
            Ty::MacsecShortLen => ValueType::MacsecShortLen,
            Ty::Qrv => ValueType::IgmpQrv,
        }
    }
}

/// Ok((value(), From<T> for raw, value() of new_unchecked)) / Err((actual, max_allowed, value_type))
type CtorOut = Result<(u64, u64), (u64, u64, ValueType)>;

fn neutral<T, R: Into<u64> + Copy>(r: Result<T, ValueTooBigError<R>>, val: impl Fn(T) -> (u64, u64)) -> CtorOut
where
    R: Sized + Clone + std::fmt::Display + std::fmt::Debug + Eq + PartialEq + std::hash::Hash,
{
    match r {
        Ok(t) => Ok(val(t)),
        Err(e) => Err((e.actual.into(), e.max_allowed.into(), e.value_type)),
    }
}

macro_rules! ctor_pair {
    ($T:ty, $raw:ty, $try_new:path, $v:expr) => {{
        let v: $raw = $v as $raw;
        let f = |t: $T| (t.value() as u64, <$raw>::from(t) as u64);
        (
            neutral($try_new(black_box(v)), f),
            neutral(<$T as TryFrom<$raw>>::try_from(black_box(v)), f),
        )
    }};
}

/// (try_new, TryFrom::try_from) for the raw value `v`
#[inline]
fn ctor_calls(ty: Ty, v: u64) -> (CtorOut, CtorOut) {
    match ty {
        Ty::VlanId => ctor_pair!(VlanId, u16, VlanId::try_new, v),
        Ty::VlanPcp => ctor_pair!(VlanPcp, u8, VlanPcp::try_new, v),
        Ty::IpDscp => ctor_pair!(IpDscp, u8, IpDscp::try_new, v),
        Ty::IpEcn => ctor_pair!(IpEcn, u8, IpEcn::try_new, v),
        Ty::IpFragOffset => ctor_pair!(IpFragOffset, u16, IpFragOffset::try_new, v),
        Ty::Ipv6FlowLabel => ctor_pair!(Ipv6FlowLabel, u32, Ipv6FlowLabel::try_new, v),
        Ty::MacsecAn => ctor_pair!(MacsecAn, u8, MacsecAn::try_new, v),
        Ty::MacsecShortLen => ctor_pair!(MacsecShortLen, u8, MacsecShortLen::try_from_u8, v),
        Ty::Qrv => ctor_pair!(igmp::Qrv, u8, igmp::Qrv::try_new, v),
    }
}

/// value() of the unchecked constructor; only called with values that fit (its contract)
fn unchecked_value(ty: Ty, v: u64) -> u64 {
    unsafe {
        match ty {
            Ty::VlanId => VlanId::new_unchecked(v as u16).value() as u64,
            Ty::VlanPcp => VlanPcp::new_unchecked(v as u8).value() as u64,
            Ty::IpDscp => IpDscp::new_unchecked(v as u8).value() as u64,
            Ty::IpEcn => IpEcn::new_unchecked(v as u8).value() as u64,
            Ty::IpFragOffset => IpFragOffset::new_unchecked(v as u16).value() as u64,
            Ty::Ipv6FlowLabel => Ipv6FlowLabel::new_unchecked(v as u32).value() as u64,
            Ty::MacsecAn => MacsecAn::new_unchecked(v as u8).value() as u64,
            Ty::MacsecShortLen => MacsecShortLen::from_u8_unchecked(v as u8).value() as u64,
            Ty::Qrv => igmp::Qrv::new_unchecked(v as u8).value() as u64,
        }
    }
}

/// (name of the constant, observed, expected) per type; expected values from the standards
fn constants(ty: Ty) -> Vec<(&'static str, u64, u64)> {
    match ty {
        Ty::VlanId => vec![
            ("MAX_U16", VlanId::MAX_U16 as u64, 0x0FFF),
            ("ZERO", VlanId::ZERO.value() as u64, 0),
            ("default", VlanId::default().value() as u64, 0),
        ],
        Ty::VlanPcp => vec![
            ("MAX_U8", VlanPcp::MAX_U8 as u64, 7),
            ("ZERO", VlanPcp::ZERO.value() as u64, 0),
            ("default", VlanPcp::default().value() as u64, 0),
        ],
        Ty::IpDscp => vec![
            ("MAX_U8", IpDscp::MAX_U8 as u64, 63),
            ("MAX", IpDscp::MAX.value() as u64, 63),
            ("ZERO", IpDscp::ZERO.value() as u64, 0),
            ("default", IpDscp::default().value() as u64, 0),
            // RFC 2474 class selectors xxx000
            ("CS0", IpDscp::CS0.value() as u64, 0),
            ("CS1", IpDscp::CS1.value() as u64, 8),
            ("CS2", IpDscp::CS2.value() as u64, 16),
            ("CS3", IpDscp::CS3.value() as u64, 24),
            ("CS4", IpDscp::CS4.value() as u64, 32),
            ("CS5", IpDscp::CS5.value() as u64, 40),
            ("CS6", IpDscp::CS6.value() as u64, 48),
            ("CS7", IpDscp::CS7.value() as u64, 56),
            // RFC 2597 AFxy = 8x + 2y
            ("AF11", IpDscp::AF11.value() as u64, 10),
            ("AF12", IpDscp::AF12.value() as u64, 12),
            ("AF13", IpDscp::AF13.value() as u64, 14),
            ("AF21", IpDscp::AF21.value() as u64, 18),
            ("AF22", IpDscp::AF22.value() as u64, 20),
            ("AF23", IpDscp::AF23.value() as u64, 22),
            ("AF31", IpDscp::AF31.value() as u64, 26),
            ("AF32", IpDscp::AF32.value() as u64, 28),
            ("AF33", IpDscp::AF33.value() as u64, 30),
            ("AF41", IpDscp::AF41.value() as u64, 34),
            ("AF42", IpDscp::AF42.value() as u64, 36),
            ("AF43", IpDscp::AF43.value() as u64, 38),
            // RFC 3246, RFC 5865, RFC 8622
            ("EF", IpDscp::EF.value() as u64, 46),
            ("VOICE_ADMIT", IpDscp::VOICE_ADMIT.value() as u64, 44),
            ("LOWER_EFFORT", IpDscp::LOWER_EFFORT.value() as u64, 1),
        ],
        Ty::IpEcn => vec![
            ("MAX_U8", IpEcn::MAX_U8 as u64, 3),
            ("ZERO", IpEcn::ZERO.value() as u64, 0),
            ("ONE", IpEcn::ONE.value() as u64, 1),
            ("TWO", IpEcn::TWO.value() as u64, 2),
            ("THREE", IpEcn::THREE.value() as u64, 3),
            ("default", IpEcn::default().value() as u64, 0),
            // RFC 3168 §5: 00 Not-ECT, 01 ECT(1), 10 ECT(0), 11 CE
            ("NotEct", IpEcn::NotEct.value() as u64, 0),
            ("Ect1", IpEcn::Ect1.value() as u64, 1),
            ("Ect0", IpEcn::Ect0.value() as u64, 2),
            ("CongestionExperienced", IpEcn::CongestionExperienced.value() as u64, 3),
        ],
        Ty::IpFragOffset => vec![
            ("MAX_U16", IpFragOffset::MAX_U16 as u64, 0x1FFF),
            ("ZERO", IpFragOffset::ZERO.value() as u64, 0),
            ("default", IpFragOffset::default().value() as u64, 0),
        ],
        Ty::Ipv6FlowLabel => vec![
            ("MAX_U32", Ipv6FlowLabel::MAX_U32 as u64, 0xF_FFFF),
            ("ZERO", Ipv6FlowLabel::ZERO.value() as u64, 0),
            ("default", Ipv6FlowLabel::default().value() as u64, 0),
        ],
        Ty::MacsecAn => vec![
            ("MAX_U8", MacsecAn::MAX_U8 as u64, 3),
            ("ZERO", MacsecAn::ZERO.value() as u64, 0),
            ("default", MacsecAn::default().value() as u64, 0),
        ],
        Ty::MacsecShortLen => vec![
            ("MAX_U8", MacsecShortLen::MAX_U8 as u64, 63),
            ("MAX_USIZE", MacsecShortLen::MAX_USIZE as u64, 63),
            ("ZERO", MacsecShortLen::ZERO.value() as u64, 0),
            ("default", MacsecShortLen::default().value() as u64, 0),
        ],
        Ty::Qrv => {
            let mut v = vec![
                ("MAX_U8", igmp::Qrv::MAX_U8 as u64, 7),
                ("MAX", igmp::Qrv::MAX.value() as u64, 7),
                ("ZERO", igmp::Qrv::ZERO.value() as u64, 0),
                ("default", igmp::Qrv::default().value() as u64, 0),
                ("VALUES.len", igmp::Qrv::VALUES.len() as u64, 8),
            ];
            const N: [&str; 8] = ["VALUES[0]", "VALUES[1]", "VALUES[2]", "VALUES[3]", "VALUES[4]", "VALUES[5]", "VALUES[6]", "VALUES[7]"];
            for (i, q) in igmp::Qrv::VALUES.iter().enumerate().take(8) {
                v.push((N[i], q.value() as u64, i as u64));
            }
            v
        }
    }
}

impl C15 {
    fn ctor_class(ty: Ty, v: u64) -> &'static str {
        let max = ty.max();
        let raw_max = (1u64 << ty.raw_bits()) - 1;
        if v == 0 {
            "accepted|zero"
        } else if v == max {
            "accepted|max"
        } else if v < max {
            "accepted|interior"
        } else if v == max + 1 {
            "rejected|max_plus_1"
        } else if v == raw_max {
            "rejected|raw_max"
        } else if v & max == 0 {
            "rejected|low_bits_zero"
        } else {
            "rejected|interior"
        }
    }

    fn judge_ctor_out(&mut self, rep: &mut Report, ty: Ty, entry: &str, v: u64, out: &CtorOut) -> bool {
        let max = ty.max();
        let input = v.to_be_bytes();
        match out {
            Ok((value, from)) => {
                if v > max {
                    rep.violation(
                        &format!("ctor|{}|{}|accepts_too_big", ty.name(), entry),
                        format!("{}::{}({}) is Ok (value {}), but a {} bit field holds at most {}", ty.name(), entry, v, value, ty.bits(), max),
                        &input,
                    );
                    false
                } else if *value != v || *from != v {
                    rep.violation(
                        &format!("ctor|{}|{}|value_changed", ty.name(), entry),
                        format!("{}::{}({}): value() = {}, From = {}", ty.name(), entry, v, value, from),
                        &input,
                    );
                    false
                } else {
                    true
                }
            }
            Err((actual, max_allowed, vt)) => {
                if v <= max {
                    rep.violation(
                        &format!("ctor|{}|{}|rejects_fitting", ty.name(), entry),
                        format!("{}::{}({}) is Err although the value fits into {} bits", ty.name(), entry, v, ty.bits()),
                        &input,
                    );
                    false
                } else if *actual != v || *max_allowed != max || *vt != ty.value_type() {
                    rep.violation(
                        &format!("ctor|{}|{}|error_content", ty.name(), entry),
                        format!(
                            "{}::{}({}): error carries actual={} max_allowed={} value_type={:?}, expected actual={} max_allowed={} value_type={:?}",
                            ty.name(),
                            entry,
                            v,
                            actual,
                            max_allowed,
                            vt,
                            v,
                            max,
                            ty.value_type()
                        ),
                        &input,
                    );
                    false
                } else {
                    true
                }
            }
        }
    }

    /// returns the class of the value if everything was as expected
    fn ctor_value(&mut self, rep: &mut Report, ty: Ty, v: u64) -> Option<&'static str> {
        rep.evals += 2;
        let r = shell::guarded(|| {
            let (a, b) = ctor_calls(ty, v);
            let u = if v <= ty.max() { Some(unchecked_value(ty, v)) } else { None };
            (a, b, u)
        });
        let (a, b, u) = match r {
            Ok(x) => x,
            Err(p) => {
                abnormal(rep, ty.name(), &p, &[]);
                return None;
            }
        };
        let new_name = if ty == Ty::MacsecShortLen { "try_from_u8" } else { "try_new" };
        let ok_a = self.judge_ctor_out(rep, ty, new_name, v, &a);
        let ok_b = self.judge_ctor_out(rep, ty, "try_from", v, &b);
        let mut ok_u = true;
        if let Some(u) = u {
            rep.evals += 1;
            if u != v {
                ok_u = false;
                rep.violation(
                    &format!("ctor|{}|new_unchecked|value_changed", ty.name()),
                    format!("{}: unchecked constructor with the fitting value {} holds {}", ty.name(), v, u),
                    &v.to_be_bytes(),
                );
            }
        }
        if ok_a && ok_b && ok_u {
            Some(Self::ctor_class(ty, v))
        } else {
            None
        }
    }

    /// a block of raw values; constants are checked with the block holding 0
    fn ctor_block(&mut self, rep: &mut Report, ty: Ty, start: u64, len: u64, counter: &str) {
        if start == 0 {
            self.ctor_constants(rep, ty);
        }
        self.ctor_values(rep, ty, (start..start + len).map(|v| v), counter);
        if rep.samples.len() < 1 && start == 0 {
            let (a, _) = ctor_calls(ty, ty.max() + 1);
            rep.sample(format!(
                "{{\"kind\":\"constructor\",\"type\":{},\"input\":{},\"result\":{}}}",
                jstr(ty.name()),
                ty.max() + 1,
                jstr(&format!("{:?}", a))
            ));
        }
    }

    fn ctor_values(&mut self, rep: &mut Report, ty: Ty, values: impl Iterator<Item = u64>, counter: &str) {
        // counters and signatures are collected locally (per value they would dominate the run time)
        let (mut n, mut acc, mut rej) = (0u64, 0u64, 0u64);
        let mut classes: Vec<&'static str> = Vec::new();
        for v in values {
            n += 1;
            if let Some(c) = self.ctor_value(rep, ty, v) {
                if v <= ty.max() {
                    acc += 1;
                } else {
                    rej += 1;
                }
                if !classes.contains(&c) {
                    classes.push(c);
                }
            }
        }
        // non-trivial: both checked constructors agree with the field width for a value of this
        // class (boundary classes are distinguished)
        for c in classes {
            rep.sig(&format!("ctor|{}|{}", ty.name(), c));
        }
        rep.add(counter, n);
        rep.add(&format!("ctor.{}.accepted", ty.name()), acc);
        rep.add(&format!("ctor.{}.rejected", ty.name()), rej);
    }

    fn ctor_constants(&mut self, rep: &mut Report, ty: Ty) {
        let c = match shell::guarded(|| constants(ty)) {
            Ok(c) => c,
            Err(p) => {
                abnormal(rep, ty.name(), &p, &[]);
                return;
            }
        };
        for (name, got, want) in c {
            rep.evals += 1;
            if got != want {
                rep.violation(
                    &format!("const|{}|{}", ty.name(), name),
                    format!("{}::{} is {} but the standard value is {}", ty.name(), name, got, want),
                    &[],
                );
            } else {
                rep.count("ctor.constants_ok");
            }
        }
        rep.count("ctor.constants_types");
    }

    /// the 2^20 sampled invalid flow labels: contiguous above the maximum, contiguous below
    /// u32::MAX, and every non-zero pattern of the upper 12 bits with varying low bits
    fn invalid_flow_label(j: u64) -> u64 {
        const Q: u64 = 1 << 18;
        if j < Q {
            (1 << 20) + j
        } else if j < 2 * Q {
            0xFFFF_FFFF - (j - Q)
        } else {
            let h = j - 2 * Q; // 0..2^19
            let high = h % 4095 + 1;
            let q = h / 4095; // 0..129
            let low = ((q << 13) | (h & 0x1fff)) & 0xF_FFFF;
            (high << 20) | low
        }
    }

    /// complete u32 domain in a tight loop (thorough tier); mismatches are re-judged verbosely
    fn ctor_flow_label_full(&mut self, rep: &mut Report, idx: u64) {
        const PER_CASE: u64 = 1 << 20;
        if idx >= (1u64 << 32) / PER_CASE {
            return;
        }
        let start = idx * PER_CASE;
        let mut bad: Vec<u64> = Vec::new();
        let mut chunk = start;
        while chunk < start + PER_CASE {
            let end = chunk + 65536;
            let r = shell::guarded(|| {
                let mut bad: Vec<u64> = Vec::new();
                let mut acc = 0u64;
                for v in chunk..end {
                    let v = v as u32;
                    let fits = v <= 0x000F_FFFF;
                    let a = match Ipv6FlowLabel::try_new(black_box(v)) {
                        Ok(t) => fits && t.value() == v,
                        Err(e) => !fits && e.actual == v && e.max_allowed == 0x000F_FFFF && e.value_type == ValueType::Ipv6FlowLabel,
                    };
                    let b = match Ipv6FlowLabel::try_from(black_box(v)) {
                        Ok(t) => fits && t.value() == v,
                        Err(e) => !fits && e.actual == v && e.max_allowed == 0x000F_FFFF && e.value_type == ValueType::Ipv6FlowLabel,
                    };
                    if !(a && b) && bad.len() < 4 {
                        bad.push(v as u64);
                    }
                    acc += fits as u64;
                }
                (bad, acc)
            });
            match r {
                Ok((b, acc)) => {
                    bad.extend(b);
                    rep.evals += 2 * 65536;
                    rep.add("exhaustive.Ipv6FlowLabel.full_domain.values", 65536);
                    rep.add("exhaustive.Ipv6FlowLabel.full_domain.accepted", acc);
                }
                Err(p) => abnormal(rep, "Ipv6FlowLabel", &p, &[]),
            }
            chunk = end;
        }
        for v in bad.into_iter().take(8) {
            let _ = self.ctor_value(rep, Ty::Ipv6FlowLabel, v);
        }
        rep.sig(&format!("ctor_full|Ipv6FlowLabel|{}", if start < (1 << 20) { "has_accepted" } else { "rejected_only" }));
    }

    /// MacsecShortLen::from_len, MacsecHeader::set_payload_len, IpDscpKnown -> IpDscp
    fn ctor_misc(&mut self, rep: &mut Report, idx: u64) {
        if idx >= 16 {
            return;
        }
        let mut lens: Vec<usize> = ((idx * 256) as usize..((idx + 1) * 256) as usize).collect();
        if idx == 0 {
            // corners: truncation traps (`len as u8` would fit) and the extremes
            lens.extend_from_slice(&[
                4096,
                65535,
                65536,
                65536 + 5,
                (1usize << 32) + 1,
                (1usize << 32) + 63,
                usize::MAX,
                usize::MAX - 1,
                usize::MAX - 255,
                usize::MAX / 2,
                (usize::MAX / 2) + 1,
            ]);
        }
        let ptypes = [
            ("Unmodified", MacsecPType::Unmodified(EtherType(0x0800)), 2usize),
            ("Modified", MacsecPType::Modified, 0),
            ("Encrypted", MacsecPType::Encrypted, 0),
            ("EncryptedUnmodified", MacsecPType::EncryptedUnmodified, 0),
        ];
        for len in lens {
            rep.evals += 1;
            match shell::guarded(|| MacsecShortLen::from_len(black_box(len)).value()) {
                Ok(got) => {
                    // SL is 6 bits wide; a length that does not fit is encoded as 0 (802.1AE 9.7,
                    // documented for from_len)
                    let want = if len <= 63 { len as u8 } else { 0 };
                    if got > 63 {
                        rep.violation("from_len|MacsecShortLen|out_of_range", format!("MacsecShortLen::from_len({}) holds {}", len, got), &[]);
                    } else if got != want {
                        rep.violation(
                            "from_len|MacsecShortLen|value",
                            format!("MacsecShortLen::from_len({}) holds {} instead of {}", len, got, want),
                            &[],
                        );
                    } else {
                        rep.count("ctor.from_len.ok");
                        rep.sig(&format!("from_len|{}", if len == 0 { "zero" } else if len < 63 { "fits" } else if len == 63 { "max" } else if len == 64 { "max_plus_1" } else if len & 0xff <= 63 { "too_big_low_octet_fits" } else { "too_big" }));
                    }
                }
                Err(p) => abnormal(rep, "MacsecShortLen::from_len", &p, &[]),
            }
            for (pname, pt, extra) in ptypes.iter() {
                rep.evals += 1;
                let pt = *pt;
                let r = shell::guarded(|| {
                    let mut h = MacsecHeader {
                        ptype: pt,
                        endstation_id: false,
                        scb: false,
                        an: MacsecAn::ZERO,
                        short_len: MacsecShortLen::ZERO,
                        packet_nr: 0,
                        sci: None,
                    };
                    h.set_payload_len(black_box(len));
                    h.short_len.value()
                });
                match r {
                    Ok(got) => {
                        // the ether type of an unmodified payload is part of the secure data
                        let want = match len.checked_add(*extra) {
                            Some(t) if t <= 63 => t as u8,
                            _ => 0,
                        };
                        if got > 63 {
                            rep.violation(
                                &format!("set_payload_len|MacsecHeader|out_of_range|{}", pname),
                                format!("MacsecHeader({}).set_payload_len({}) leaves short_len {}", pname, len, got),
                                &[],
                            );
                        } else if got != want {
                            rep.violation(
                                &format!("set_payload_len|MacsecHeader|value|{}", pname),
                                format!("MacsecHeader({}).set_payload_len({}) leaves short_len {} instead of {}", pname, len, got, want),
                                &[],
                            );
                        } else {
                            rep.count("ctor.set_payload_len.ok");
                            rep.sig(&format!("set_payload_len|{}|{}", pname, if want == 0 && len != 0 { "too_big" } else { "fits" }));
                        }
                    }
                    Err(p) => abnormal(rep, "MacsecHeader::set_payload_len", &p, &[]),
                }
            }
        }
        if idx == 0 {
            use IpDscpKnown::*;
            let known = [
                ClassSelector0,
                ClassSelector1,
                ClassSelector2,
                ClassSelector3,
                ClassSelector4,
                ClassSelector5,
                ClassSelector6,
                ClassSelector7,
                AfGroup11,
                AfGroup12,
                AfGroup13,
                AfGroup21,
                AfGroup22,
                AfGroup23,
                AfGroup31,
                AfGroup32,
                AfGroup33,
                AfGroup41,
                AfGroup42,
                AfGroup43,
                ExpeditedForwarding,
                VoiceAdmit,
                LowerEffort,
            ];
            for k in known {
                rep.evals += 1;
                match shell::guarded(|| (IpDscp::from(k).value(), u8::from(k))) {
                    Ok((d, raw)) => {
                        if d > 63 || d != raw {
                            rep.violation(
                                "from_known|IpDscp|out_of_range",
                                format!("IpDscp::from({:?}) holds {} (u8::from gives {})", k, d, raw),
                                &[],
                            );
                        } else {
                            rep.count("ctor.dscp_known.ok");
                        }
                    }
                    Err(p) => abnormal(rep, "IpDscp::from(IpDscpKnown)", &p, &[]),
                }
            }
            // byte_offset of a fragment offset: 8 octet units (RFC 791), must not overflow
            for v in [0u16, 1, 2, 4095, 4096, 8190, 8191] {
                rep.evals += 1;
                match shell::guarded(|| IpFragOffset::try_new(v).map(|o| o.byte_offset())) {
                    Ok(Ok(b)) if b as u32 == v as u32 * 8 => rep.count("ctor.byte_offset.ok"),
                    Ok(x) => rep.violation(
                        "byte_offset|IpFragOffset|value",
                        format!("IpFragOffset({}).byte_offset() gives {:?}, expected {}", v, x, v as u32 * 8),
                        &[],
                    ),
                    Err(p) => abnormal(rep, "IpFragOffset::byte_offset", &p, &[]),
                }
            }
        }
        rep.add("exhaustive.MacsecShortLen.from_len.values", 256);
    }
}

// ---------------------------------------------------------------------------------------------
// decode engines
// ---------------------------------------------------------------------------------------------

struct DecSpec {
    engine: &'static str,
    h: H,
    /// the octets that are enumerated
    woff: usize,
    wlen: usize,
    per_case: u64,
    buf_len: usize,
    always_accepted: bool,
}

const DEC_SPECS: [DecSpec; 6] = [
    DecSpec {
        engine: "dec_vlan",
        h: H::Vlan,
        woff: 0,
        wlen: 2,
        per_case: 1024,
        buf_len: 6,
        always_accepted: true,
    },
    DecSpec {
        engine: "dec_ipv4_tos",
        h: H::Ipv4,
        woff: 1,
        wlen: 1,
        per_case: 16,
        buf_len: 64,
        always_accepted: true,
    },
    DecSpec {
        engine: "dec_ipv4_frag",
        h: H::Ipv4,
        woff: 6,
        wlen: 2,
        per_case: 1024,
        buf_len: 64,
        always_accepted: true,
    },
    DecSpec {
        engine: "dec_ipv6_frag",
        h: H::Frag,
        woff: 2,
        wlen: 2,
        per_case: 1024,
        buf_len: 12,
        always_accepted: true,
    },
    DecSpec {
        engine: "dec_macsec",
        h: H::Macsec,
        woff: 0,
        wlen: 2,
        per_case: 1024,
        // 16 octets of header + 63 octets announced by SL
        buf_len: 80,
        always_accepted: false,
    },
    DecSpec {
        engine: "dec_igmp",
        h: H::Igmp,
        woff: 8,
        wlen: 1,
        per_case: 16,
        buf_len: 16,
        always_accepted: true,
    },
];

impl DecSpec {
    fn domain(&self) -> u64 {
        1u64 << (8 * self.wlen)
    }
    fn cases(&self) -> u64 {
        self.domain() / self.per_case
    }
}

/// neighbour octets for a decode case: filler, then whatever is needed to be decodable at all
fn dec_bytes(h: H, nb: Nb, rng: &mut Prng, n: usize) -> Vec<u8> {
    let mut b = match nb {
        Nb::Zeros => vec![0u8; n],
        Nb::Ones => vec![0xffu8; n],
        Nb::Rand => rng.bytes(n),
    };
    for f in h.layout().f {
        if let K::Const(c) = f.k {
            f.put(&mut b, c);
        }
    }
    if h == H::Ipv4 {
        let ihl = match nb {
            Nb::Zeros => 5,
            Nb::Ones => 15,
            Nb::Rand => 5 + rng.below(11),
        };
        IPV4.f[V4_IHL].put(&mut b, ihl as u128);
    }
    b
}

impl C15 {
    fn dec_case(&mut self, rep: &mut Report, spec: &DecSpec, idx: u64, rng: &mut Prng) {
        // rounds behind the first (thorough tier) repeat the block with fresh random neighbours
        let (round, idx) = (idx / spec.cases(), idx % spec.cases());
        let nbs: &[Nb] = if round == 0 { &NBS } else { &NBS[2..] };
        let h = spec.h;
        let mut seen = Seen::new(h, "dec");
        let start = idx * spec.per_case;
        let mut accepted_values = 0u64;
        for x in start..start + spec.per_case {
            let mut all = true;
            for &nb in nbs {
                let mut b = dec_bytes(h, nb, rng, spec.buf_len);
                if spec.wlen == 2 {
                    b[spec.woff] = (x >> 8) as u8;
                    b[spec.woff + 1] = x as u8;
                } else {
                    b[spec.woff] = x as u8;
                }
                match self.judge_decode(rep, h, &b, "dec", &mut seen) {
                    Some(true) => {
                        self.judge_reencode(rep, h, &b);
                        if rep.samples.len() < 3 && nb == Nb::Rand && x % 977 == 5 {
                            rep.sample(format!(
                                "{{\"kind\":\"decode\",\"header\":{},\"bytes_hex\":{},\"reference\":{}}}",
                                jstr(h.name()),
                                jstr(&hex(&b[..ref_hdr_len(h, &b).min(b.len())])),
                                jstr(
                                    &h.layout()
                                        .f
                                        .iter()
                                        .filter(|f| f.k != K::Virt)
                                        .map(|f| format!("{}={}", f.name, f.get(&b)))
                                        .collect::<Vec<_>>()
                                        .join(" ")
                                )
                            ));
                        }
                    }
                    Some(false) => {
                        all = false;
                        if spec.always_accepted {
                            rep.count(&format!("dec.{}.unexpected_reject", spec.engine));
                            rep.note(&format!("NOTE {}: a decodable header was rejected (not judged by C15)", spec.engine));
                        }
                    }
                    None => all = false,
                }
            }
            if all {
                accepted_values += 1;
            }
        }
        seen.flush(rep);
        if round == 0 {
            rep.add(&format!("exhaustive.{}.values", spec.engine), spec.per_case);
            rep.add(&format!("exhaustive.{}.accepted_values", spec.engine), accepted_values);
        } else {
            rep.add(&format!("extra_rounds.{}.values", spec.engine), spec.per_case);
        }
    }

    fn ipv6_first_word(b: &mut [u8], tc: u128, fl: u128) {
        IPV6.f[V6_VERSION].put(b, 6);
        IPV6.f[V6_TC].put(b, tc);
        IPV6.f[V6_FL].put(b, fl);
    }

    /// all 2^20 flow labels (4096 per case), each with tc 0 / 0xff / pseudo random
    fn dec_ipv6_case(&mut self, rep: &mut Report, idx: u64, rng: &mut Prng) {
        let (round, idx) = (idx / 256, idx % 256);
        let nbs: &[Nb] = if round == 0 { &NBS } else { &NBS[2..] };
        let mut seen = Seen::new(H::Ipv6, "dec");
        for fl in idx * 4096..(idx + 1) * 4096 {
            for &nb in nbs {
                let mut b = dec_bytes(H::Ipv6, nb, rng, 44);
                let tc = match nb {
                    Nb::Zeros => 0,
                    Nb::Ones => 0xff,
                    Nb::Rand => rng.below(256) as u128,
                };
                Self::ipv6_first_word(&mut b, tc, fl as u128);
                match self.judge_decode(rep, H::Ipv6, &b, "dec", &mut seen) {
                    Some(true) => {
                        if nb == Nb::Rand {
                            self.judge_reencode(rep, H::Ipv6, &b);
                        }
                    }
                    Some(false) => rep.count("dec.dec_ipv6.unexpected_reject"),
                    None => {}
                }
            }
        }
        seen.flush(rep);
        rep.add(if round == 0 { "exhaustive.dec_ipv6.flow_labels" } else { "extra_rounds.dec_ipv6.flow_labels" }, 4096);
    }

    /// all 256 traffic classes with flow label 0 / max / random
    fn dec_ipv6_tc_case(&mut self, rep: &mut Report, idx: u64, rng: &mut Prng) {
        let (round, idx) = (idx / 16, idx % 16);
        let nbs: &[Nb] = if round == 0 { &NBS } else { &NBS[2..] };
        let mut seen = Seen::new(H::Ipv6, "dec");
        for tc in idx * 16..(idx + 1) * 16 {
            for &nb in nbs {
                let mut b = dec_bytes(H::Ipv6, nb, rng, 44);
                let fl = match nb {
                    Nb::Zeros => 0,
                    Nb::Ones => 0xF_FFFF,
                    Nb::Rand => rng.below(1 << 20) as u128,
                };
                Self::ipv6_first_word(&mut b, tc as u128, fl);
                match self.judge_decode(rep, H::Ipv6, &b, "dec", &mut seen) {
                    Some(true) => self.judge_reencode(rep, H::Ipv6, &b),
                    Some(false) => rep.count("dec.dec_ipv6_tc.unexpected_reject"),
                    None => {}
                }
            }
        }
        seen.flush(rep);
        rep.add(if round == 0 { "exhaustive.dec_ipv6_tc.values" } else { "extra_rounds.dec_ipv6_tc.values" }, 16);
    }

    /// thorough: every (traffic class, flow label) pair = all 2^28 first words with version 6
    fn ipv6_full_case(&mut self, rep: &mut Report, idx: u64, rng: &mut Prng, encode: bool) {
        if idx >= 4096 {
            return;
        }
        let tc = idx / 16;
        let fl0 = (idx % 16) * 65536;
        let mut b = rng.bytes(40);
        let mut seen = Seen::new(H::Ipv6, if encode { "enc" } else { "dec" });
        let mut dseen = Seen::new(H::Ipv6, "decode_back");
        let mut slow: Vec<u64> = Vec::new();
        let mut done = 0u64;
        // the other fields (for the encoder)
        let mut v = neighbour_vals(&IPV6, Nb::Rand, rng);
        v[V6_TC] = tc as u128;
        for (i, f) in IPV6.f.iter().enumerate() {
            if f.k == K::Field {
                f.put(&mut b, v[i]);
            }
        }
        for fl in fl0..fl0 + 65536 {
            Self::ipv6_first_word(&mut b, tc as u128, fl as u128);
            let r = if encode {
                shell::guarded(|| {
                    let h = Ipv6Header {
                        traffic_class: tc as u8,
                        flow_label: match Ipv6FlowLabel::try_new(fl as u32) {
                            Ok(x) => x,
                            Err(_) => return false,
                        },
                        payload_length: v[3] as u16,
                        next_header: IpNumber(v[4] as u8),
                        hop_limit: v[5] as u8,
                        source: v[6].to_be_bytes(),
                        destination: v[7].to_be_bytes(),
                    };
                    h.to_bytes()[..] == b[..]
                })
            } else {
                shell::guarded(|| match Ipv6HeaderSlice::from_slice(&b) {
                    Ok(x) => {
                        let h = x.to_header();
                        x.traffic_class() as u64 == tc
                            && x.flow_label().value() as u64 == fl
                            && x.dscp().value() as u64 == tc >> 2
                            && x.ecn().value() as u64 == tc & 3
                            && h.traffic_class as u64 == tc
                            && h.flow_label.value() as u64 == fl
                    }
                    Err(_) => false,
                })
            };
            rep.evals += 1;
            match r {
                Ok(true) => done += 1,
                Ok(false) => {
                    if slow.len() < 4 {
                        slow.push(fl);
                    }
                }
                Err(p) => abnormal(rep, "Ipv6Header", &p, &[]),
            }
        }
        // anything unexpected is judged again by the verbose path
        for fl in slow {
            if encode {
                let mut vv = v.clone();
                vv[V6_FL] = fl as u128;
                let mut base = vv.clone();
                base[V6_FL] = 0;
                self.judge_encode(rep, H::Ipv6, V6_FL, &vv, &base, Nb::Rand, &mut seen, &mut dseen);
            } else {
                Self::ipv6_first_word(&mut b, tc as u128, fl as u128);
                let _ = self.judge_decode(rep, H::Ipv6, &b, "dec", &mut seen);
            }
        }
        rep.sig(&format!("ipv6_full|{}|tc={}", encode, tc));
        rep.add(if encode { "exhaustive.enc_ipv6_full.first_words" } else { "exhaustive.dec_ipv6_full.first_words" }, done);
    }
}

// ---------------------------------------------------------------------------------------------
// encode engines
// ---------------------------------------------------------------------------------------------

fn enc_cases(h: H) -> u64 {
    let b = h.enc_block();
    h.layout().f.iter().map(|f| (f.dom_size() + b - 1) / b).sum()
}

/// (field index, first domain index, number of values) of case `idx`
fn enc_locate(h: H, idx: u64) -> Option<(usize, u64, u64)> {
    let b = h.enc_block();
    let mut at = 0u64;
    for (fi, f) in h.layout().f.iter().enumerate() {
        let d = f.dom_size();
        let n = (d + b - 1) / b;
        if idx < at + n {
            let start = (idx - at) * b;
            return Some((fi, start, b.min(d - start)));
        }
        at += n;
    }
    None
}

/// a field outside the fixed layout only shows if its presence condition holds
fn force_presence(h: H, fi: usize, v: &mut [u128]) {
    match (h, fi) {
        (H::Macsec, MS_SCI) => v[MS_SC] = 1,
        (H::Macsec, MS_ETY) => {
            v[MS_E] = 0;
            v[MS_C] = 0;
        }
        (H::Ipv4, V4_OPT_FILL) => {
            if v[V4_IHL] == 5 {
                v[V4_IHL] = 6;
            }
        }
        _ => {}
    }
}

impl C15 {
    fn enc_case(&mut self, rep: &mut Report, h: H, idx: u64, rng: &mut Prng) {
        let base_cases = enc_cases(h);
        let (round, idx) = (idx / base_cases, idx % base_cases);
        let nbs: &[Nb] = if round == 0 { &NBS } else { &NBS[2..] };
        let (fi, start, len) = match enc_locate(h, idx) {
            Some(x) => x,
            None => return,
        };
        let l = h.layout();
        let f = &l.f[fi];
        let mut seen = Seen::new(h, "enc");
        let mut dseen = Seen::new(h, "decode_back");
        for k in start..start + len {
            let x = f.dom_value(k);
            for &nb in nbs {
                let mut v = neighbour_vals(l, nb, rng);
                force_presence(h, fi, &mut v);
                let mut base = v.clone();
                v[fi] = x;
                base[fi] = f.range().0;
                self.judge_encode(rep, h, fi, &v, &base, nb, &mut seen, &mut dseen);
            }
        }
        seen.flush(rep);
        dseen.flush(rep);
        for nb in nbs {
            // non-trivial: a complete block of values of one field was written next to this kind
            // of neighbours
            rep.sig(&format!("enc_block|{}|{}|{}", l.name, f.name, nb.name()));
        }
        rep.add(&format!("{}.enc.{}.{}", if round == 0 { "exhaustive" } else { "extra_rounds" }, l.name, f.name), len);
    }

    /// in-place setters of the IGMPv3 query octet 8 (Resv 4 | S 1 | QRV 3)
    fn igmp_setters_case(&mut self, rep: &mut Report, idx: u64) {
        if idx >= 16 {
            return;
        }
        let l = &IGMPQ;
        let (f_resv, f_s, f_qrv) = (&l.f[4], &l.f[5], &l.f[6]);
        let blank = |raw: u8| igmp::MembershipQueryWithSourcesHeader {
            max_response_code: igmp::MaxResponseCode(0),
            group_address: [0u8; 4].into(),
            raw_byte_8: raw,
            qqic: 0,
            num_of_sources: 0,
        };
        for start in (idx * 16) as u8..=(idx * 16 + 15) as u8 {
            // (setter name, field, argument, result octet, getters)
            let judge = |rep: &mut Report, setter: &str, f: &F, arg: u128, in_range: bool, got: Result<(u8, u8, bool, u8), shell::Panicked>| {
                rep.evals += 1;
                let (raw, flags, sflag, qrv) = match got {
                    Ok(x) => x,
                    Err(p) => {
                        abnormal(rep, setter, &p, &[]);
                        return;
                    }
                };
                let mut before = [0u8; 12];
                before[8] = start;
                let mut after = [0u8; 12];
                after[8] = raw;
                let mut want = before;
                f.put(&mut want, arg);
                for g in [f_resv, f_s, f_qrv] {
                    if g.name != f.name && g.differs(&before, &after) {
                        rep.violation(
                            &format!("setter|igmp|{}|bleed|{}", setter, g.name),
                            format!("{}({}) on octet {:#04x} gives {:#04x}: field {} changed", setter, arg, start, raw, g.name),
                            &[start],
                        );
                        return;
                    }
                }
                if in_range && after[8] != want[8] {
                    rep.violation(
                        &format!("setter|igmp|{}|placement", setter),
                        format!("{}({}) on octet {:#04x} gives {:#04x}, expected {:#04x}", setter, arg, start, raw, want[8]),
                        &[start],
                    );
                    return;
                }
                // getters on the result
                if qrv > 7 || qrv as u128 != f_qrv.get(&after) || sflag as u128 != f_s.get(&after) || flags as u128 != f_resv.get(&after) {
                    rep.violation(
                        &format!("setter|igmp|{}|getters", setter),
                        format!(
                            "octet {:#04x}: flags()={} s_flag()={} qrv()={}, reference {} {} {}",
                            raw,
                            flags,
                            sflag,
                            qrv,
                            f_resv.get(&after),
                            f_s.get(&after),
                            f_qrv.get(&after)
                        ),
                        &[raw],
                    );
                    return;
                }
                rep.count("igmp_setters.ok");
            };
            for q in 0u8..8 {
                let got = shell::guarded(|| {
                    let mut h = blank(start);
                    h.set_qrv(igmp::Qrv::try_new(q).expect("fits"));
                    (h.raw_byte_8, h.flags(), h.s_flag(), h.qrv().value())
                });
                judge(rep, "set_qrv", f_qrv, q as u128, true, got);
            }
            for sf in [false, true] {
                let got = shell::guarded(|| {
                    let mut h = blank(start);
                    h.set_s_flag(sf);
                    (h.raw_byte_8, h.flags(), h.s_flag(), h.qrv().value())
                });
                judge(rep, "set_s_flag", f_s, sf as u128, true, got);
            }
            for fl in 0u8..=255 {
                let got = shell::guarded(|| {
                    let mut h = blank(start);
                    h.set_flags(fl);
                    (h.raw_byte_8, h.flags(), h.s_flag(), h.qrv().value())
                });
                // an argument above 4 bits has no defined placement, but must not bleed
                judge(rep, "set_flags", f_resv, (fl & 0x0f) as u128, fl <= 0x0f, got);
            }
        }
        rep.sig(&format!("igmp_setters|{}", idx));
        rep.add("exhaustive.igmp_setters.start_octets", 16);
    }

    /// Ipv6Header::set_dscp / set_ecn / dscp() / ecn() on every traffic class
    fn ipv6_tc_setters_case(&mut self, rep: &mut Report, idx: u64) {
        if idx >= 16 {
            return;
        }
        let f_tc = &IPV6.f[V6_TC];
        let f_dscp = IPV6.f.iter().find(|f| f.name == "dscp").expect("table");
        let f_ecn = IPV6.f.iter().find(|f| f.name == "ecn").expect("table");
        for tc in idx * 16..idx * 16 + 16 {
            let mut before = [0u8; 40];
            IPV6.f[V6_VERSION].put(&mut before, 6);
            f_tc.put(&mut before, tc as u128);
            for (setter, f, n) in [("set_dscp", f_dscp, 64u8), ("set_ecn", f_ecn, 4u8)] {
                for a in 0..n {
                    rep.evals += 1;
                    let r = shell::guarded(|| {
                        let mut h = Ipv6Header {
                            traffic_class: tc as u8,
                            ..Default::default()
                        };
                        if setter == "set_dscp" {
                            h.set_dscp(IpDscp::try_new(a).expect("fits"));
                        } else {
                            h.set_ecn(IpEcn::try_new(a).expect("fits"));
                        }
                        (h.traffic_class, h.dscp().value(), h.ecn().value(), h.to_bytes())
                    });
                    let (got_tc, d, e, bytes) = match r {
                        Ok(x) => x,
                        Err(p) => {
                            abnormal(rep, setter, &p, &[]);
                            continue;
                        }
                    };
                    let mut want = before;
                    f.put(&mut want, a as u128);
                    let want_tc = f_tc.get(&want);
                    if got_tc as u128 != want_tc {
                        let kind = if (got_tc as u128 ^ want_tc) & !(f.max() << (if setter == "set_dscp" { 2 } else { 0 })) != 0 {
                            "bleed"
                        } else {
                            "placement"
                        };
                        rep.violation(
                            &format!("setter|Ipv6Header|{}|{}", setter, kind),
                            format!("Ipv6Header{{traffic_class: {:#04x}}}.{}({}) gives traffic_class {:#04x}, expected {:#04x}", tc, setter, a, got_tc, want_tc),
                            &[tc as u8],
                        );
                    } else if d > 63 || e > 3 || d as u128 != f_dscp.get(&want) || e as u128 != f_ecn.get(&want) {
                        rep.violation(
                            &format!("setter|Ipv6Header|{}|getters", setter),
                            format!("traffic_class {:#04x}: dscp()={} ecn()={}, reference {} {}", got_tc, d, e, f_dscp.get(&want), f_ecn.get(&want)),
                            &[got_tc],
                        );
                    } else if bytes[..4] != want[..4] {
                        rep.violation(
                            &format!("setter|Ipv6Header|{}|to_bytes", setter),
                            format!("after {}({}) on traffic_class {:#04x}: to_bytes {} expected {}", setter, a, tc, hex(&bytes[..8]), hex(&want[..8])),
                            &bytes,
                        );
                    } else {
                        rep.count("ipv6_tc_setters.ok");
                    }
                }
            }
        }
        rep.sig(&format!("ipv6_tc_setters|{}", idx));
        rep.add("exhaustive.ipv6_tc_setters.traffic_classes", 16);
    }
}

// ---------------------------------------------------------------------------------------------
// monitor
// ---------------------------------------------------------------------------------------------

impl Monitor for C15 {
    fn engines(&self, tier: Tier) -> Vec<(&'static str, u64)> {
        let mut v: Vec<(&'static str, u64)> = vec![
            ("ctor_u8", 6 * 16),
            ("ctor_vlan_id", 64),
            ("ctor_frag_offset", 64),
            ("ctor_flow_label", 512),
            ("ctor_misc", 16),
        ];
        // thorough: the first round is the exhaustive one (zeros / ones / random neighbours), the
        // further rounds repeat every block with fresh random neighbours
        let m = tier.pick(1, 8);
        for d in DEC_SPECS.iter() {
            v.push((d.engine, d.cases() * m));
        }
        v.push(("dec_ipv6", 256 * m));
        v.push(("dec_ipv6_tc", 16 * m));
        v.push(("enc_vlan", enc_cases(H::Vlan) * m));
        v.push(("enc_ipv4", enc_cases(H::Ipv4) * m));
        v.push(("enc_ipv6", enc_cases(H::Ipv6) * tier.pick(1, 4)));
        v.push(("enc_ipv6_frag", enc_cases(H::Frag) * m));
        v.push(("enc_macsec", enc_cases(H::Macsec) * m));
        v.push(("enc_igmp", enc_cases(H::Igmp) * m));
        v.push(("igmp_setters", 16));
        v.push(("ipv6_tc_setters", 16));
        // the complete u32 domain of the flow label is cheap enough for both tiers
        v.push(("ctor_flow_label_full", 4096));
        v.push(("api", tier.pick(64, 640)));
        if tier == Tier::Thorough {
            v.push(("dec_ipv6_full", 4096));
            v.push(("enc_ipv6_full", 4096));
        }
        v
    }

    fn run_case(&mut self, engine: &str, idx: u64, rng: &mut Prng, rep: &mut Report) {
        self.selfcheck(rep);
        match engine {
            "api" => super::api::c15(rep, rng),
            "ctor_u8" => {
                if idx < 96 {
                    let ty = U8_TYPES[(idx / 16) as usize];
                    self.ctor_block(rep, ty, (idx % 16) * 16, 16, &format!("exhaustive.{}.values", ty.name()));
                }
            }
            "ctor_vlan_id" => {
                if idx < 64 {
                    self.ctor_block(rep, Ty::VlanId, idx * 1024, 1024, "exhaustive.VlanId.values");
                }
            }
            "ctor_frag_offset" => {
                if idx < 64 {
                    self.ctor_block(rep, Ty::IpFragOffset, idx * 1024, 1024, "exhaustive.IpFragOffset.values");
                }
            }
            "ctor_flow_label" => {
                if idx < 256 {
                    self.ctor_block(rep, Ty::Ipv6FlowLabel, idx * 4096, 4096, "exhaustive.Ipv6FlowLabel.valid_values");
                } else if idx < 512 {
                    let j0 = (idx - 256) * 4096;
                    self.ctor_values(
                        rep,
                        Ty::Ipv6FlowLabel,
                        (j0..j0 + 4096).map(Self::invalid_flow_label),
                        "exhaustive.Ipv6FlowLabel.invalid_values",
                    );
                }
            }
            "ctor_flow_label_full" => self.ctor_flow_label_full(rep, idx),
            "ctor_misc" => self.ctor_misc(rep, idx),
            "dec_ipv6" => self.dec_ipv6_case(rep, idx, rng),
            "dec_ipv6_tc" => self.dec_ipv6_tc_case(rep, idx, rng),
            "dec_ipv6_full" => self.ipv6_full_case(rep, idx, rng, false),
            "enc_ipv6_full" => self.ipv6_full_case(rep, idx, rng, true),
            "enc_vlan" => self.enc_case(rep, H::Vlan, idx, rng),
            "enc_ipv4" => self.enc_case(rep, H::Ipv4, idx, rng),
            "enc_ipv6" => self.enc_case(rep, H::Ipv6, idx, rng),
            "enc_ipv6_frag" => self.enc_case(rep, H::Frag, idx, rng),
            "enc_macsec" => self.enc_case(rep, H::Macsec, idx, rng),
            "enc_igmp" => self.enc_case(rep, H::Igmp, idx, rng),
            "igmp_setters" => self.igmp_setters_case(rep, idx),
            "ipv6_tc_setters" => self.ipv6_tc_setters_case(rep, idx),
            other => {
                if let Some(spec) = DEC_SPECS.iter().find(|d| d.engine == other) {
                    self.dec_case(rep, spec, idx, rng);
                }
            }
        }
    }
}
