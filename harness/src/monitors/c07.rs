//! C07 — length and content errors describe the real fault.
//!
//! Every error value (returned `Err` or lax stop error) of every whole-packet and IP-level entry
//! point is compared with the *set of truthful reports* the reference decoder derives for the
//! first faulty layer (DESIGN appendix A): layer name, layer start offset, available bytes,
//! required bytes, direction, length source, and the offending value of content errors.

use super::common::*;
use super::{Monitor, Tier};
use crate::gen::{self, Case, GenOpts, StartSel};
use crate::neutral::*;
use crate::observe::entry::{Family, FAMILIES};
use crate::observe::iplevel::{self, IpEntry, IP_ENTRIES};
use crate::observe::Cx;
use crate::prng::Prng;
use crate::refmodel::pkt::{Admissible, ExtMode, Fault, Mode, RDecoded, Start};
use crate::report::Report;
use crate::shell;

pub struct C07 {}

impl C07 {
    pub fn new() -> C07 {
        C07 {}
    }
}

/// which fields of a length error are not truthful (compared with the closest admissible report)
fn untruthful_fields(f: &Fault, e: &NErr) -> String {
    match e {
        NErr::Len {
            required,
            len,
            src,
            layer,
            off,
        } => {
            let mut best: Option<Vec<&'static str>> = None;
            for a in &f.admissible {
                if let Admissible::Len {
                    layers,
                    required: r,
                    len: l,
                    srcs,
                    off: o,
                } = a
                {
                    let mut bad = Vec::new();
                    if !layers.contains(layer) {
                        bad.push("layer");
                    }
                    if o != off {
                        bad.push("offset");
                    }
                    if l != len {
                        bad.push("len");
                    }
                    if r != required {
                        bad.push("required_len");
                    }
                    if srcs & src.bit() == 0 {
                        bad.push("len_source");
                    }
                    if best.as_ref().map(|b| bad.len() < b.len()).unwrap_or(true) {
                        best = Some(bad);
                    }
                }
            }
            match best {
                Some(b) => b.join("+"),
                None => "class(len_error_but_content_fault)".to_string(),
            }
        }
        NErr::Content(_) => {
            if f.admissible.iter().any(|a| matches!(a, Admissible::Content(_))) {
                "content_value".to_string()
            } else {
                "class(content_error_but_len_fault)".to_string()
            }
        }
        NErr::Io(_) => "io".to_string(),
    }
}

/// judge one reported error against the reference decoding
pub fn judge_error(
    rep: &mut Report,
    entry: &str,
    bytes: &[u8],
    r: &RDecoded,
    e: &NErr,
    stop_layer: Option<Lay>,
) {
    rep.count("errors_judged");
    match &r.fault {
        None => {
            rep.violation(
                &format!("error_without_fault|{}|{}", entry, e.class()),
                format!(
                    "{}: reports {:?} but the reference decoder finds no fault in the bytes (layers {})",
                    entry,
                    e,
                    r.layers.iter().map(|l| format!("{:?}@{}", l.kind, l.off)).collect::<Vec<_>>().join(">")
                ),
                bytes,
            );
        }
        Some(f) => {
            if f.accepts(e) {
                rep.count("truthful");
                if let NErr::Len { layer, src, .. } = e {
                    rep.count(&format!("cell.{:?}.{:?}", layer, src));
                    if f.off > 0 {
                        rep.count("truthful_behind_offset0");
                    }
                } else {
                    rep.count("cell.content");
                }
            } else {
                let fields = untruthful_fields(f, e);
                let extra = match e {
                    NErr::Len { src, layer, .. } => format!("{:?}/{:?}", layer, src),
                    NErr::Content(c) => c.split('(').next().unwrap_or("").to_string(),
                    NErr::Io(s) => s.clone(),
                };
                rep.violation(
                    &format!("untruthful|{}|{:?}|{}|{}", entry, f.kind, fields, extra),
                    format!(
                        "{}: reports {:?}; not truthful in [{}]. {}",
                        entry,
                        e,
                        fields,
                        f.describe()
                    ),
                    bytes,
                );
            }
            if let Some(sl) = stop_layer {
                if f.stop_layers.contains(&sl) {
                    rep.count("stop_layer_ok");
                } else {
                    rep.violation(
                        &format!("stop_layer|{}|{:?}|{:?}", entry, f.kind, sl),
                        format!(
                            "{}: stop error attributed to layer {:?}, but the fault is: {}",
                            entry,
                            sl,
                            f.describe()
                        ),
                        bytes,
                    );
                }
            }
        }
    }
}

impl C07 {
    fn whole(&mut self, rep: &mut Report, case: &Case) {
        for f in FAMILIES {
            if !f.supports(case.start) {
                continue;
            }
            let mode = if f.is_lax() { Mode::Lax } else { Mode::Strict };
            let ext = if f.is_struct() { ExtMode::Struct } else { ExtMode::Slice };
            let name = f.name(case.start);
            rep.evals += 1;
            match run_family(f, case.start, &case.bytes, false) {
                Ok(d) => {
                    let out = &d.whole.out;
                    if out.err.is_none() && out.stop.is_none() {
                        rep.count("no_error");
                        continue;
                    }
                    let r = rdecode(&case.bytes, case.start, mode, ext);
                    if let Some(e) = &out.err {
                        judge_error(rep, name, &case.bytes, &r, e, None);
                        rep.sig(&format!("{}|{}|{:?}", name, e.class(), r.fault.as_ref().map(|f| (f.kind, f.off > 0))));
                    }
                    if let Some((e, l)) = &out.stop {
                        judge_error(rep, name, &case.bytes, &r, e, Some(*l));
                        rep.sig(&format!("{}|stop|{}|{:?}|{:?}", name, e.class(), l, r.fault.as_ref().map(|f| (f.kind, f.off > 0))));
                    }
                    if rep.want_sample() && r.fault.as_ref().map(|f| f.off > 14).unwrap_or(false) && case.bytes.len() < 160 {
                        rep.sample(sample(
                            &case.desc,
                            case.start,
                            &case.bytes,
                            &format!("{}: {:?} {:?}", name, out.err, out.stop),
                        ));
                    }
                }
                Err(p) => note_abnormal(rep, name, &p),
            }
        }
    }

    fn ip_level(&mut self, rep: &mut Report, bytes: &[u8]) {
        for e in IP_ENTRIES {
            rep.evals += 1;
            shell::progress_entry(e.id());
            let res = shell::guarded(|| {
                let mut cx = Cx::new(bytes);
                iplevel::decode(e, bytes, &mut cx, false)
            });
            match res {
                Ok(o) => {
                    if o.out.err.is_none() && o.out.stop.is_none() {
                        rep.count("no_error");
                        continue;
                    }
                    let mut r = rdecode(bytes, e.start(), e.mode(), e.ext_mode());
                    // transport is not decoded by these entry points
                    if let Some(f) = &r.fault {
                        if matches!(f.kind, Kind::Udp | Kind::Tcp | Kind::Icmp4 | Kind::Icmp6) {
                            r.fault = None;
                        }
                    }
                    if let Some(err) = &o.out.err {
                        judge_error(rep, e.name(), bytes, &r, err, None);
                        rep.sig(&format!("{}|{}|{:?}", e.name(), err.class(), r.fault.as_ref().map(|f| f.kind)));
                    }
                    if let Some((err, l)) = &o.out.stop {
                        judge_error(rep, e.name(), bytes, &r, err, Some(*l));
                        rep.sig(&format!("{}|stop|{}|{:?}", e.name(), err.class(), l));
                    }
                }
                Err(p) => note_abnormal(rep, e.name(), &p),
            }
        }
    }
}

impl Monitor for C07 {
    fn engines(&self, tier: Tier) -> Vec<(&'static str, u64)> {
        vec![
            ("hostile", tier.pick(4000000, 500000000)),
            ("sweep", tier.pick(50000, 5000000)),
            ("iplevel", tier.pick(1500000, 150000000)),
            ("corpus", tier.pick(400_000, 8_000_000)),
        ]
    }

    fn run_case(&mut self, engine: &str, idx: u64, rng: &mut Prng, rep: &mut Report) {
        match engine {
            "corpus" => match gen::corpus::case(idx, rng) {
                Some(mut case) => {
                    // trailing bytes make wrong offsets visible
                    if rng.bool() {
                        let n = rng.range(1, 9) as usize;
                        let extra = rng.bytes(n);
                        case.bytes.extend_from_slice(&extra);
                    }
                    rep.count("corpus_cases");
                    self.whole(rep, &case);
                    if case.start == crate::refmodel::pkt::Start::Ip {
                        self.ip_level(rep, &case.bytes);
                    }
                }
                None => rep.selfcheck_fail("corpus file missing".into()),
            },
            "hostile" => {
                let mut o = GenOpts::hostile();
                // trailing bytes make offsets derived from trimmed slices visible
                o.trailing = 9;
                let case = gen::gen_case(rng, &o);
                self.whole(rep, &case);
            }
            "sweep" => {
                let mut o = GenOpts::clean();
                o.trailing = 8;
                if rng.chance(1, 2) {
                    o.lie = gen::Lie::Any;
                }
                let base = gen::gen_case(rng, &o);
                let n = base.bytes.len().min(300);
                for cut in 0..=n {
                    let c = Case {
                        bytes: base.bytes[..cut].to_vec(),
                        start: base.start,
                        recipe: None,
                        desc: format!("{}+cut{}", base.desc, cut),
                    };
                    self.whole(rep, &c);
                }
            }
            "iplevel" => {
                let mut o = GenOpts::hostile();
                o.start = StartSel::Ip;
                o.trailing = 8;
                let case = gen::gen_case(rng, &o);
                self.ip_level(rep, &case.bytes);
            }
            _ => {}
        }
    }
}
