//! C07 — length and content errors describe the real fault.
//!
//! Every error value (returned `Err` or lax stop error) of every whole-packet and IP-level entry
//! point is compared with the *set of truthful reports* the reference decoder derives for the
//! first faulty layer (DESIGN appendix A): layer name, layer start offset, available bytes,
//! required bytes, direction, length source, and the offending value of content errors.

use super::common::*;
use super::{Monitor, Tier};
use crate::gen::{self, Case, GenOpts, StartSel};
use crate::neutral::*;
use crate::observe::entry::{Family, FAMILIES};
use crate::observe::iplevel::{self, IpEntry, IP_ENTRIES};
use crate::observe::Cx;
use crate::prng::Prng;
use crate::refmodel::pkt::{Admissible, ExtMode, Fault, Mode, RDecoded, Start};
use crate::report::Report;
use crate::shell;

pub struct C07 {}

impl C07 {
    pub fn new() -> C07 {
        C07 {}
    }
}

/// which fields of a length error are not truthful (compared with the closest admissible report)
pub fn untruthful_fields(f: &Fault, e: &NErr) -> String {
    match e {
        NErr::Len {
            required,
            len,
            src,
            layer,
            off,
        } => {
            let mut best: Option<Vec<&'static str>> = None;
            for a in &f.admissible {
                if let Admissible::Len {
                    layers,
                    required: r,
                    len: l,
                    srcs,
                    off: o,
                } = a
                {
                    let mut bad = Vec::new();
                    if !layers.contains(layer) {
                        bad.push("layer");
                    }
                    if o != off {
                        bad.push("offset");
                    }
                    if l != len {
                        bad.push("len");
                    }
                    if r != required {
                        bad.push("required_len");
                    }
                    if srcs & src.bit() == 0 {
                        bad.push("len_source");
                    }
                    if best.as_ref().map(|b| bad.len() < b.len()).unwrap_or(true) {
                        best = Some(bad);
                    }
                }
            }
            match best {
                Some(b) => b.join("+"),
                None => "class(len_error_but_content_fault)".to_string(),
            }
        }
        NErr::Content(_) => {
            if f.admissible.iter().any(|a| matches!(a, Admissible::Content(_))) {
                "content_value".to_string()
            } else {
                "class(content_error_but_len_fault)".to_string()
            }
        }
        NErr::Io(_) => "io".to_string(),
    }
}

/// judge one reported error against the reference decoding
pub fn judge_error(
    rep: &mut Report,
    entry: &str,
    bytes: &[u8],
    r: &RDecoded,
    e: &NErr,
    stop_layer: Option<Lay>,
) {
    rep.count("errors_judged");
    match &r.fault {
        None => {
            rep.violation(
                &format!("error_without_fault|{}|{}", entry, e.class()),
                format!(
                    "{}: reports {:?} but the reference decoder finds no fault in the bytes (layers {})",
                    entry,
                    e,
                    r.layers.iter().map(|l| format!("{:?}@{}", l.kind, l.off)).collect::<Vec<_>>().join(">")
                ),
                bytes,
            );
        }
        Some(f) => {
            if f.accepts(e) {
                rep.count("truthful");
                if let NErr::Len { layer, src, .. } = e {
                    rep.count(&format!("cell.{:?}.{:?}", layer, src));
                    if f.off > 0 {
                        rep.count("truthful_behind_offset0");
                    }
                } else {
                    rep.count("cell.content");
                }
            } else {
                let fields = untruthful_fields(f, e);
                let extra = match e {
                    NErr::Len { src, layer, .. } => format!("{:?}/{:?}", layer, src),
                    NErr::Content(c) => c.split('(').next().unwrap_or("").to_string(),
                    NErr::Io(s) => s.clone(),
                };
                rep.violation(
                    &format!("untruthful|{}|{:?}|{}|{}", entry, f.kind, fields, extra),
                    format!(
                        "{}: reports {:?}; not truthful in [{}]. {}",
                        entry,
                        e,
                        fields,
                        f.describe()
                    ),
                    bytes,
                );
            }
            if let Some(sl) = stop_layer {
                if f.stop_layers.contains(&sl) {
                    rep.count("stop_layer_ok");
                } else {
                    rep.violation(
                        &format!("stop_layer|{}|{:?}|{:?}", entry, f.kind, sl),
                        format!(
                            "{}: stop error attributed to layer {:?}, but the fault is: {}",
                            entry,
                            sl,
                            f.describe()
                        ),
                        bytes,
                    );
                }
            }
        }
    }
}

impl C07 {
    fn whole(&mut self, rep: &mut Report, case: &Case) {
        for f in FAMILIES {
            if !f.supports(case.start) {
                continue;
            }
            let mode = if f.is_lax() { Mode::Lax } else { Mode::Strict };
            let ext = if f.is_struct() { ExtMode::Struct } else { ExtMode::Slice };
            let name = f.name(case.start);
            rep.evals += 1;
            match run_family(f, case.start, &case.bytes, false) {
                Ok(d) => {
                    let out = &d.whole.out;
                    if out.err.is_none() && out.stop.is_none() {
                        rep.count("no_error");
                        continue;
                    }
                    let r = rdecode(&case.bytes, case.start, mode, ext);
                    if let Some(e) = &out.err {
                        judge_error(rep, name, &case.bytes, &r, e, None);
                        rep.sig(&format!("{}|{}|{:?}", name, e.class(), r.fault.as_ref().map(|f| (f.kind, f.off > 0))));
                    }
                    if let Some((e, l)) = &out.stop {
                        judge_error(rep, name, &case.bytes, &r, e, Some(*l));
                        rep.sig(&format!("{}|stop|{}|{:?}|{:?}", name, e.class(), l, r.fault.as_ref().map(|f| (f.kind, f.off > 0))));
                    }
                    if rep.want_sample() && r.fault.as_ref().map(|f| f.off > 14).unwrap_or(false) && case.bytes.len() < 160 {
                        rep.sample(sample(
                            &case.desc,
                            case.start,
                            &case.bytes,
                            &format!("{}: {:?} {:?}", name, out.err, out.stop),
                        ));
                    }
                }
                Err(p) => note_abnormal(rep, name, &p),
            }
        }
    }

    fn ip_level(&mut self, rep: &mut Report, bytes: &[u8]) {
        for e in IP_ENTRIES {
            rep.evals += 1;
            shell::progress_entry(e.id());
            let res = shell::guarded(|| {
                let mut cx = Cx::new(bytes);
                iplevel::decode(e, bytes, &mut cx, false)
            });
            match res {
                Ok(o) => {
                    if o.out.err.is_none() && o.out.stop.is_none() {
                        rep.count("no_error");
                        continue;
                    }
                    let mut r = rdecode(bytes, e.start(), e.mode(), e.ext_mode());
                    // transport is not decoded by these entry points
                    if let Some(f) = &r.fault {
                        if matches!(f.kind, Kind::Udp | Kind::Tcp | Kind::Icmp4 | Kind::Icmp6) {
                            r.fault = None;
                        }
                    }
                    if let Some(err) = &o.out.err {
                        judge_error(rep, e.name(), bytes, &r, err, None);
                        rep.sig(&format!("{}|{}|{:?}", e.name(), err.class(), r.fault.as_ref().map(|f| f.kind)));
                    }
                    if let Some((err, l)) = &o.out.stop {
                        judge_error(rep, e.name(), bytes, &r, err, Some(*l));
                        rep.sig(&format!("{}|stop|{}|{:?}", e.name(), err.class(), l));
                    }
                }
                Err(p) => note_abnormal(rep, e.name(), &p),
            }
        }
    }
}

/// A reader takes the generic IPv6 extension header in two steps (next header + length octet, then the
/// rest) and reports the step that ran dry: "2 bytes required" is a truthful lower bound when fewer
/// than 2 are left (appendix A: a decoder may report the fixed minimum it needs before it knows the
/// full header length). Mapped onto the reference's requirement so that everything else is compared.
fn staged_reader_minimum(rep: &mut Report, r: &RDecoded, e: NErr) -> NErr {
    if let NErr::Len { required: 2, len, src, layer: Lay::Ipv6ExtHeader, off } = e {
        if len < 2 {
            if let Some(f) = &r.fault {
                for a in &f.admissible {
                    if let Admissible::Len { required, len: l, off: o, .. } = a {
                        if *l == len && *o == off && *required >= 2 {
                            rep.count("readers.staged_minimum");
                            return NErr::Len { required: *required, len, src, layer: Lay::Ipv6ExtHeader, off };
                        }
                    }
                }
            }
        }
    }
    e
}

/// reader entry points: length errors of `IpHeaders::read` and of the `read_limited` walkers over a
/// `LimitedReader` positioned at a caller-chosen base offset.
impl C07 {
    fn readers(&mut self, rep: &mut Report, rng: &mut Prng) {
        use etherparse::io::LimitedReader;
        use etherparse::*;
        use std::io::Cursor;
        let io = |e: &std::io::Error| NErr::Io(format!("{:?}", e.kind()));
        // (a) IpHeaders::read over an IP packet whose announced length is present in the data
        {
            let mut o = GenOpts::hostile();
            o.start = StartSel::Ip;
            o.trailing = 8;
            let mut bytes = gen::gen_case(rng, &o).bytes;
            let announced = match bytes.first().map(|b| b >> 4) {
                Some(4) if bytes.len() >= 4 => Some(u16::from_be_bytes([bytes[2], bytes[3]]) as usize),
                Some(6) if bytes.len() >= 6 => {
                    let p = u16::from_be_bytes([bytes[4], bytes[5]]) as usize;
                    if p == 0 {
                        // a reader has no slice length to fall back to (the slicers do): not comparable
                        rep.count("readers.skipped_ipv6_payload_len_zero");
                        None
                    } else {
                        Some(40 + p)
                    }
                }
                _ => Some(0),
            };
            if let Some(a) = announced {
                if bytes.len() < a {
                    // the data source delivers what the header announces
                    let pad = rng.bytes(a - bytes.len());
                    bytes.extend_from_slice(&pad);
                }
                rep.evals += 1;
                rep.count("entry.IpHeaders::read");
                let res = shell::guarded(|| {
                    let mut cur = Cursor::new(&bytes[..]);
                    IpHeaders::read(&mut cur).map(|_| ()).map_err(|e| match &e {
                        err::ip::HeaderReadError::Io(e) => io(e),
                        err::ip::HeaderReadError::Len(l) => crate::observe::nlen(l),
                        err::ip::HeaderReadError::Content(c) => crate::observe::n_ip_headers_error(c),
                    })
                });
                match res {
                    Ok(Ok(())) => rep.count("no_error"),
                    Ok(Err(e)) => {
                        let mut r = rdecode(&bytes, Start::Ip, Mode::Strict, ExtMode::Struct);
                        if let Some(f) = &r.fault {
                            if matches!(f.kind, Kind::Udp | Kind::Tcp | Kind::Icmp4 | Kind::Icmp6) {
                                r.fault = None;
                            }
                        }
                        match &e {
                            NErr::Io(k) => {
                                // data ends inside a header: the slice decoders see a length fault there
                                if r.fault.is_none() {
                                    rep.violation(
                                        &format!("error_without_fault|IpHeaders::read|Io:{}", k),
                                        format!("IpHeaders::read: reports Io({}) but the reference decoder finds no fault", k),
                                        &bytes,
                                    );
                                } else {
                                    rep.count("readers.io_error_with_fault");
                                }
                            }
                            _ => {
                                let e = staged_reader_minimum(rep, &r, e.clone());
                                judge_error(rep, "IpHeaders::read", &bytes, &r, &e, None);
                                rep.sig(&format!("IpHeaders::read|{}|{:?}", e.class(), r.fault.as_ref().map(|f| (f.kind, f.off))));
                            }
                        }
                    }
                    Err(p) => note_abnormal(rep, "IpHeaders::read", &p),
                }
            }
        }
        // (b) Ipv6Extensions::read_limited behind a caller-chosen base offset
        {
            let full = gen::gen_ipv6(rng, gen::Lie::Any).bytes;
            if full.len() >= 40 {
                let first = full[6];
                let mut bytes = full[40..].to_vec();
                if rng.chance(1, 2) && !bytes.is_empty() {
                    bytes.truncate(rng.usize_below(bytes.len() + 1));
                }
                let base = if rng.bool() { 0 } else { rng.range(1, 200) as usize };
                rep.evals += 1;
                rep.count("entry.Ipv6Extensions::read_limited");
                let res = shell::guarded(|| {
                    let cur = Cursor::new(&bytes[..]);
                    let mut lr = LimitedReader::new(cur, bytes.len(), LenSource::Slice, base, err::Layer::Ipv6ExtHeader);
                    Ipv6Extensions::read_limited(&mut lr, IpNumber(first)).map(|_| ()).map_err(|e| match &e {
                        err::ipv6_exts::HeaderLimitedReadError::Io(e) => io(e),
                        err::ipv6_exts::HeaderLimitedReadError::Len(l) => crate::observe::nlen(l),
                        err::ipv6_exts::HeaderLimitedReadError::Content(c) => crate::observe::c_ipv6_exts(c),
                    })
                });
                self.judge_limited(rep, "Ipv6Extensions::read_limited", &bytes, first, base, res);
            }
        }
        // (c) Ipv4Extensions::read_limited / IpAuthHeader::read_limited
        {
            let nx = if rng.chance(1, 4) { 51 } else { 6 };
            let (mut bytes, _) = gen::ah_bytes(rng, nx, gen::Lie::Any);
            let t = rng.range(0, 9) as usize;
            let extra = rng.bytes(t);
            bytes.extend_from_slice(&extra);
            if rng.chance(1, 2) && !bytes.is_empty() {
                bytes.truncate(rng.usize_below(bytes.len() + 1));
            }
            let base = if rng.bool() { 0 } else { rng.range(1, 200) as usize };
            rep.evals += 1;
            rep.count("entry.Ipv4Extensions::read_limited");
            let res = shell::guarded(|| {
                let cur = Cursor::new(&bytes[..]);
                let mut lr = LimitedReader::new(cur, bytes.len(), LenSource::Slice, base, err::Layer::IpAuthHeader);
                Ipv4Extensions::read_limited(&mut lr, IpNumber(51)).map(|_| ()).map_err(|e| match &e {
                    err::ip_auth::HeaderLimitedReadError::Io(e) => io(e),
                    err::ip_auth::HeaderLimitedReadError::Len(l) => crate::observe::nlen(l),
                    err::ip_auth::HeaderLimitedReadError::Content(c) => crate::observe::c_auth_v4(c),
                })
            });
            // an IPv4 chain holds at most one authentication header: the reference walk of the
            // IPv6 chain is cut behind the first one
            self.judge_limited_v4(rep, "Ipv4Extensions::read_limited", &bytes, base, res);
        }
    }

    fn judge_limited(&mut self, rep: &mut Report, name: &str, bytes: &[u8], first: u8, base: usize, res: Result<Result<(), NErr>, shell::Panicked>) {
        match res {
            Ok(Ok(())) => rep.count("no_error"),
            Ok(Err(e)) => {
                let r = rdecode(bytes, Start::Ext(first), Mode::Strict, ExtMode::Struct);
                self.judge_based(rep, name, bytes, base, &r, e);
            }
            Err(p) => note_abnormal(rep, name, &p),
        }
    }

    fn judge_limited_v4(&mut self, rep: &mut Report, name: &str, bytes: &[u8], base: usize, res: Result<Result<(), NErr>, shell::Panicked>) {
        match res {
            Ok(Ok(())) => rep.count("no_error"),
            Ok(Err(e)) => {
                let mut r = rdecode(bytes, Start::Ext(51), Mode::Strict, ExtMode::Struct);
                if let Some(f) = &r.fault {
                    if f.off > 0 {
                        r.fault = None;
                    }
                }
                self.judge_based(rep, name, bytes, base, &r, e);
            }
            Err(p) => note_abnormal(rep, name, &p),
        }
    }

    /// the reported offset counts from the base the caller handed to the LimitedReader
    fn judge_based(&mut self, rep: &mut Report, name: &str, bytes: &[u8], base: usize, r: &RDecoded, e: NErr) {
        let e = match e {
            NErr::Len { required, len, src, layer, off } => {
                if off < base {
                    rep.violation(
                        &format!("untruthful|{}|offset_below_base", name),
                        format!("{}: layer_start_offset {} is below the base offset {} the reader was created with", name, off, base),
                        bytes,
                    );
                    return;
                }
                NErr::Len { required, len, src, layer, off: off - base }
            }
            NErr::Io(k) => {
                // the limit is the data length here: running out of data is reported as a length error
                rep.violation(
                    &format!("untruthful|{}|io_instead_of_len|{}", name, k),
                    format!("{}: Io({}) although the LimitedReader limit equals the data length", name, k),
                    bytes,
                );
                return;
            }
            x => x,
        };
        let e = staged_reader_minimum(rep, r, e);
        judge_error(rep, name, bytes, r, &e, None);
        rep.sig(&format!("{}|{}|{:?}|base{}", name, e.class(), r.fault.as_ref().map(|f| (f.kind, f.off)), (base > 0) as u8));
    }
}


/// single-layer decoders (header structs and slice types): each has its own copy of the error
/// construction, and only some of them are reached through the whole-packet entry points
mod singles {
    use crate::neutral::NErr;
    use crate::observe as ob;
    use crate::refmodel::pkt::Start;
    use etherparse::*;

    pub struct Single {
        pub name: &'static str,
        /// generator of the HEADERS table to take the input from
        pub gen: &'static str,
        pub start: Start,
        pub run: fn(&[u8]) -> Option<NErr>,
    }

    macro_rules! len_only {
        ($e:expr) => {
            $e.err().map(|e| ob::nlen(&e))
        };
    }

    pub const SINGLES: &[Single] = &[
        Single { name: "Ethernet2Header::from_slice", gen: "Ethernet2Header", start: Start::Eth, run: |b| len_only!(Ethernet2Header::from_slice(b)) },
        Single { name: "Ethernet2HeaderSlice::from_slice", gen: "Ethernet2Header", start: Start::Eth, run: |b| len_only!(Ethernet2HeaderSlice::from_slice(b)) },
        Single { name: "Ethernet2Slice::from_slice_without_fcs", gen: "Ethernet2Header", start: Start::Eth, run: |b| len_only!(Ethernet2Slice::from_slice_without_fcs(b)) },
        Single { name: "LinuxSllHeader::from_slice", gen: "LinuxSllHeader", start: Start::Sll, run: |b| LinuxSllHeader::from_slice(b).err().map(|e| ob::n_sll_slice_error(&e)) },
        Single { name: "LinuxSllHeaderSlice::from_slice", gen: "LinuxSllHeader", start: Start::Sll, run: |b| LinuxSllHeaderSlice::from_slice(b).err().map(|e| ob::n_sll_slice_error(&e)) },
        Single { name: "LinuxSllSlice::from_slice", gen: "LinuxSllHeader", start: Start::Sll, run: |b| LinuxSllSlice::from_slice(b).err().map(|e| ob::n_sll_slice_error(&e)) },
        Single { name: "SingleVlanHeader::from_slice", gen: "SingleVlanHeader", start: Start::EtherType(0x8100), run: |b| len_only!(SingleVlanHeader::from_slice(b)) },
        Single { name: "SingleVlanHeaderSlice::from_slice", gen: "SingleVlanHeader", start: Start::EtherType(0x8100), run: |b| len_only!(SingleVlanHeaderSlice::from_slice(b)) },
        Single { name: "SingleVlanSlice::from_slice", gen: "SingleVlanHeader", start: Start::EtherType(0x8100), run: |b| len_only!(SingleVlanSlice::from_slice(b)) },
        Single { name: "MacsecHeader::from_slice", gen: "MacsecHeader", start: Start::EtherType(0x88e5), run: |b| MacsecHeader::from_slice(b).err().map(|e| ob::n_macsec_slice_error(&e)) },
        Single { name: "MacsecHeaderSlice::from_slice", gen: "MacsecHeader", start: Start::EtherType(0x88e5), run: |b| MacsecHeaderSlice::from_slice(b).err().map(|e| ob::n_macsec_slice_error(&e)) },
        Single { name: "MacsecSlice::from_slice", gen: "MacsecHeader", start: Start::EtherType(0x88e5), run: |b| MacsecSlice::from_slice(b).err().map(|e| ob::n_macsec_slice_error(&e)) },
        Single { name: "LaxMacsecSlice::from_slice", gen: "MacsecHeader", start: Start::EtherType(0x88e5), run: |b| LaxMacsecSlice::from_slice(b).err().map(|e| ob::n_macsec_slice_error(&e)) },
        Single { name: "ArpPacket::from_slice", gen: "ArpPacket", start: Start::Arp, run: |b| len_only!(ArpPacket::from_slice(b)) },
        Single { name: "ArpPacketSlice::from_slice", gen: "ArpPacket", start: Start::Arp, run: |b| len_only!(ArpPacketSlice::from_slice(b)) },
        Single { name: "Ipv4Header::from_slice", gen: "Ipv4Header", start: Start::Ipv4, run: |b| Ipv4Header::from_slice(b).err().map(|e| ob::n_ipv4_header_slice_error(&e)) },
        Single { name: "Ipv4HeaderSlice::from_slice", gen: "Ipv4Header", start: Start::Ipv4, run: |b| Ipv4HeaderSlice::from_slice(b).err().map(|e| ob::n_ipv4_header_slice_error(&e)) },
        Single { name: "Ipv6Header::from_slice", gen: "Ipv6Header", start: Start::Ipv6, run: |b| Ipv6Header::from_slice(b).err().map(|e| ob::n_ipv6_header_slice_error(&e)) },
        Single { name: "Ipv6HeaderSlice::from_slice", gen: "Ipv6Header", start: Start::Ipv6, run: |b| Ipv6HeaderSlice::from_slice(b).err().map(|e| ob::n_ipv6_header_slice_error(&e)) },
        Single { name: "IpAuthHeader::from_slice", gen: "IpAuthHeader", start: Start::Ext(51), run: |b| IpAuthHeader::from_slice(b).err().map(|e| ob::n_auth_slice_error_v4(&e)) },
        Single { name: "IpAuthHeaderSlice::from_slice", gen: "IpAuthHeader", start: Start::Ext(51), run: |b| IpAuthHeaderSlice::from_slice(b).err().map(|e| ob::n_auth_slice_error_v4(&e)) },
        Single { name: "Ipv6RawExtHeader::from_slice", gen: "Ipv6RawExtHeader", start: Start::Ext(60), run: |b| len_only!(Ipv6RawExtHeader::from_slice(b)) },
        Single { name: "Ipv6RawExtHeaderSlice::from_slice", gen: "Ipv6RawExtHeader", start: Start::Ext(60), run: |b| len_only!(Ipv6RawExtHeaderSlice::from_slice(b)) },
        Single { name: "Ipv6FragmentHeader::from_slice", gen: "Ipv6FragmentHeader", start: Start::Ext(44), run: |b| len_only!(Ipv6FragmentHeader::from_slice(b)) },
        Single { name: "Ipv6FragmentHeaderSlice::from_slice", gen: "Ipv6FragmentHeader", start: Start::Ext(44), run: |b| len_only!(Ipv6FragmentHeaderSlice::from_slice(b)) },
        Single { name: "UdpHeader::from_slice", gen: "UdpHeader", start: Start::Transport(17), run: |b| len_only!(UdpHeader::from_slice(b)) },
        Single { name: "UdpHeaderSlice::from_slice", gen: "UdpHeader", start: Start::Transport(17), run: |b| len_only!(UdpHeaderSlice::from_slice(b)) },
        Single { name: "UdpSlice::from_slice", gen: "UdpHeader", start: Start::Transport(17), run: |b| len_only!(UdpSlice::from_slice(b)) },
        Single { name: "UdpSlice::from_slice_lax", gen: "UdpHeader", start: Start::Transport(17), run: |b| len_only!(UdpSlice::from_slice_lax(b)) },
        Single { name: "TcpHeader::from_slice", gen: "TcpHeader", start: Start::Transport(6), run: |b| TcpHeader::from_slice(b).err().map(|e| ob::n_tcp_slice_error(&e)) },
        Single { name: "TcpHeaderSlice::from_slice", gen: "TcpHeader", start: Start::Transport(6), run: |b| TcpHeaderSlice::from_slice(b).err().map(|e| ob::n_tcp_slice_error(&e)) },
        Single { name: "TcpSlice::from_slice", gen: "TcpHeader", start: Start::Transport(6), run: |b| TcpSlice::from_slice(b).err().map(|e| ob::n_tcp_slice_error(&e)) },
        Single { name: "Icmpv4Header::from_slice", gen: "Icmpv4Header", start: Start::Transport(1), run: |b| len_only!(Icmpv4Header::from_slice(b)) },
        Single { name: "Icmpv4Slice::from_slice", gen: "Icmpv4Header", start: Start::Transport(1), run: |b| len_only!(Icmpv4Slice::from_slice(b)) },
        Single { name: "Icmpv6Header::from_slice", gen: "Icmpv6Header", start: Start::Transport(58), run: |b| len_only!(Icmpv6Header::from_slice(b)) },
        Single { name: "Icmpv6Slice::from_slice", gen: "Icmpv6Header", start: Start::Transport(58), run: |b| len_only!(Icmpv6Slice::from_slice(b)) },
    ];
}

impl C07 {
    fn single(&mut self, rep: &mut Report, rng: &mut Prng) {
        let si = rng.usize_below(singles::SINGLES.len());
        let s = &singles::SINGLES[si];
        let t = match crate::observe::single::HEADERS.iter().find(|t| t.name == s.gen) {
            Some(t) => t,
            None => {
                rep.selfcheck_fail(format!("no generator {}", s.gen));
                return;
            }
        };
        let mut bytes = (t.gen)(rng);
        // every truncation point matters for length errors
        if rng.chance(1, 2) && !bytes.is_empty() {
            bytes.truncate(rng.usize_below(bytes.len() + 1));
        }
        // accessors that report a length error of their own: Ipv4Header(Slice)::payload_len()
        if s.gen == "Ipv4Header" && bytes.len() >= 20 {
            use etherparse::{err, Ipv4Header, Ipv4HeaderSlice, LenSource};
            let r = shell::guarded(|| {
                let a = Ipv4HeaderSlice::from_slice(&bytes).ok().map(|h| h.payload_len());
                let b = Ipv4Header::from_slice(&bytes).ok().map(|(h, _)| h.payload_len());
                (a, b)
            });
            if let Ok((a, b)) = r {
                let ihl4 = 4 * (bytes[0] & 0x0f) as usize;
                let total = u16::from_be_bytes([bytes[2], bytes[3]]) as usize;
                // RFC 791: the total length counts the header; a smaller value is the self-describing
                // report of appendix A (required = the header's size, len = the field's value)
                let want: Result<u16, err::LenError> = if total >= ihl4 {
                    Ok((total - ihl4) as u16)
                } else {
                    Err(err::LenError { required_len: ihl4, len: total, len_source: LenSource::Ipv4HeaderTotalLen, layer: err::Layer::Ipv4Packet, layer_start_offset: 0 })
                };
                for (door, got) in [("Ipv4HeaderSlice::payload_len", a), ("Ipv4Header::payload_len", b)] {
                    if let Some(got) = got {
                        rep.evals += 1;
                        if got != want {
                            rep.violation(
                                &format!("untruthful|{}|accessor", door),
                                format!("{}: IHL*4 = {}, total length {}: {:?}, truthful is {:?}", door, ihl4, total, got, want),
                                &bytes,
                            );
                        } else {
                            rep.count(if want.is_ok() { "accessor_len.ok" } else { "accessor_len.truthful_error" });
                        }
                    }
                }
            }
        }
        rep.evals += 1;
        rep.count(&format!("entry.{}", s.name));
        shell::progress_entry(700 + si as u64);
        match shell::guarded(|| (s.run)(&bytes)) {
            Ok(None) => rep.count("no_error"),
            Ok(Some(e)) => {
                let mode = if s.name.starts_with("Lax") || s.name.ends_with("_lax") { Mode::Lax } else { Mode::Strict };
                let mut r = rdecode(&bytes, s.start, mode, ExtMode::Slice);
                // only the first layer is decoded here: deeper faults are none of its business
                if let Some(f) = &r.fault {
                    if f.off > 0 {
                        r.fault = None;
                    }
                }
                judge_error(rep, s.name, &bytes, &r, &e, None);
                rep.sig(&format!("{}|{}|{:?}", s.name, e.class(), r.fault.as_ref().map(|f| f.kind)));
            }
            Err(p) => note_abnormal(rep, s.name, &p),
        }
    }
}

impl Monitor for C07 {
    fn engines(&self, tier: Tier) -> Vec<(&'static str, u64)> {
        vec![
            ("hostile", tier.pick(4000000, 500000000)),
            ("sweep", tier.pick(50000, 5000000)),
            ("iplevel", tier.pick(1500000, 150000000)),
            ("corpus", tier.pick(400_000, 8_000_000)),
            ("readers", tier.pick(1500000, 150000000)),
            ("single", tier.pick(3000000, 300000000)),
            ("convert", tier.pick(600000, 60000000)),
            ("big", tier.pick(30_000, 1_500_000)),
            ("bytesweep", tier.pick(5_000, 300_000)),
            ("wordsweep", tier.pick(64, 4_000)),
        ]
    }

    fn run_case(&mut self, engine: &str, idx: u64, rng: &mut Prng, rep: &mut Report) {
        self.run_engine(engine, idx, rng, rep);
        // the message of every 4th length error that was observed (whatever the door)
        let (fault, checked) = crate::observe::take_len_text_fault();
        rep.add("len_error_messages_checked", checked);
        if let Some((what, text)) = fault {
            rep.violation(&format!("message|{}", what), format!("the message of a length error does not describe its fields ({}): {:?}", what, text), &[]);
        }
    }
}

impl C07 {
    fn run_engine(&mut self, engine: &str, idx: u64, rng: &mut Prng, rep: &mut Report) {
        match engine {
            "corpus" => match gen::corpus::case(idx, rng) {
                Some(mut case) => {
                    // trailing bytes make wrong offsets visible
                    if rng.bool() {
                        let n = rng.range(1, 9) as usize;
                        let extra = rng.bytes(n);
                        case.bytes.extend_from_slice(&extra);
                    }
                    rep.count("corpus_cases");
                    self.whole(rep, &case);
                    if case.start == crate::refmodel::pkt::Start::Ip {
                        self.ip_level(rep, &case.bytes);
                    }
                }
                None => rep.selfcheck_fail("corpus file missing".into()),
            },
            "hostile" => {
                let mut o = GenOpts::hostile();
                // trailing bytes make offsets derived from trimmed slices visible
                o.trailing = 9;
                let case = gen::gen_case(rng, &o);
                self.whole(rep, &case);
            }
            "sweep" => {
                let mut o = GenOpts::clean();
                o.trailing = 8;
                if rng.chance(1, 2) {
                    o.lie = gen::Lie::Any;
                }
                let base = gen::gen_case(rng, &o);
                let n = base.bytes.len().min(300);
                for cut in 0..=n {
                    let c = Case {
                        bytes: base.bytes[..cut].to_vec(),
                        start: base.start,
                        recipe: None,
                        desc: format!("{}+cut{}", base.desc, cut),
                    };
                    self.whole(rep, &c);
                }
            }
            "readers" => self.readers(rep, rng),
            "single" => self.single(rep, rng),
            "wordsweep" => {
                gen::wordsweep(rng, |c| {
                    self.whole(rep, c);
                });
                rep.count("wordsweeps");
            }
            "bytesweep" => {
                for c in gen::bytesweep(rng) {
                    rep.count("bytesweep_cases");
                    self.whole(rep, &c);
                    if c.start == Start::Ip {
                        self.ip_level(rep, &c.bytes);
                    }
                }
            }
            "big" => {
                let mut o = GenOpts::hostile();
                o.trailing = 9;
                gen::set_big(true);
                let case = gen::gen_case(rng, &o);
                gen::set_big(false);
                if case.bytes.len() > 60_000 {
                    rep.count("big_cases");
                }
                self.whole(rep, &case);
                if case.start == Start::Ip {
                    self.ip_level(rep, &case.bytes);
                }
            }
            "convert" => {
                let mut o = GenOpts::hostile();
                o.start = match rng.below(3) {
                    0 => StartSel::Ip,
                    1 => StartSel::Eth,
                    _ => StartSel::Any,
                };
                let mut case = gen::gen_case(rng, &o);
                if rng.chance(1, 3) && !case.bytes.is_empty() {
                    case.bytes.truncate(rng.usize_below(case.bytes.len() + 1));
                }
                super::api::c07_convert(rep, rng, &case.bytes);
            }
            "iplevel" => {
                let mut o = GenOpts::hostile();
                o.start = StartSel::Ip;
                o.trailing = 8;
                let case = gen::gen_case(rng, &o);
                self.ip_level(rep, &case.bytes);
            }
            _ => {}
        }
    }
}
