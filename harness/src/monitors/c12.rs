//! C12 — extension-header chain bookkeeping is self-consistent.
//!
//! Exhaustive sub-domain: all presence combinations of hop-by-hop / destination options /
//! routing (+ final destination options) / fragment / auth x next_header of every present header
//! ∈ S x first header ∈ S, S = {0, 43, 44, 51, 60, 17, 59, 255} (3 831 624 configurations),
//! plus random values. Oracle: an independent walk of the struct (plain state machine written
//! from RFC 8200 §4.1 and the struct's documented layout) and an independent parser of the
//! written bytes.

use super::{Monitor, Tier};
use crate::prng::Prng;
use crate::report::{hex, jstr, Report};
use crate::shell;
use etherparse::*;

pub struct C12 {}

impl C12 {
    pub fn new() -> C12 {
        C12 {}
    }
}

const S: [u8; 8] = [0, 43, 44, 51, 60, 17, 59, 255];
const EXT_NUMBERS: [u8; 5] = [0, 43, 44, 51, 60];

#[derive(Clone, Debug, Default)]
struct Conf {
    hbh: Option<u8>,
    dest: Option<u8>,
    route: Option<u8>,
    fin: Option<u8>,
    frag: Option<u8>,
    auth: Option<u8>,
    first: u8,
}

/// number of configurations of the exhaustive sub-domain
pub const EXHAUSTIVE: u64 = 3_831_624;

/// idx -> configuration (mixed radix over the presence combinations)
fn conf_from_idx(mut idx: u64) -> Option<Conf> {
    for four in 0..16u32 {
        for routing in 0..3u32 {
            let k = four.count_ones() + routing;
            let size = 8u64.pow(k + 1);
            if idx >= size {
                idx -= size;
                continue;
            }
            let mut digits = Vec::new();
            for _ in 0..=k {
                digits.push(S[(idx % 8) as usize]);
                idx /= 8;
            }
            let mut d = digits.into_iter();
            let mut c = Conf {
                first: d.next().unwrap(),
                ..Default::default()
            };
            if four & 1 != 0 {
                c.hbh = d.next();
            }
            if four & 2 != 0 {
                c.dest = d.next();
            }
            if routing >= 1 {
                c.route = d.next();
            }
            if routing == 2 {
                c.fin = d.next();
            }
            if four & 4 != 0 {
                c.frag = d.next();
            }
            if four & 8 != 0 {
                c.auth = d.next();
            }
            return Some(c);
        }
    }
    None
}

fn raw(next: u8, units: usize, fill: u8) -> Ipv6RawExtHeader {
    let payload = vec![fill; 6 + 8 * units];
    if units == 1 {
        // a header that held a longer payload before: stale bytes behind the live ones must not
        // take part in equality or encoding
        let mut h = Ipv6RawExtHeader::new_raw(IpNumber(next), &vec![0xEEu8; 6 + 8 * 5]).unwrap();
        h.set_payload(&payload).unwrap();
        return h;
    }
    Ipv6RawExtHeader::new_raw(IpNumber(next), &payload).unwrap()
}

fn build(c: &Conf, rng: &mut Prng) -> Ipv6Extensions {
    let u = |rng: &mut Prng| rng.below(3) as usize;
    Ipv6Extensions {
        hop_by_hop_options: c.hbh.map(|n| raw(n, u(rng), 0xb0)),
        destination_options: c.dest.map(|n| raw(n, u(rng), 0xd0)),
        routing: c.route.map(|n| Ipv6RoutingExtensions {
            routing: raw(n, u(rng), 0xe0),
            final_destination_options: c.fin.map(|n| raw(n, u(rng), 0xf0)),
        }),
        fragment: c.frag.map(|n| Ipv6FragmentHeader::new(IpNumber(n), IpFragOffset::try_new(5).unwrap(), true, 0x01020304)),
        auth: c.auth.map(|n| {
            let icv = vec![0xa0u8; 4 * rng.below(4) as usize];
            IpAuthHeader::new(IpNumber(n), 7, 9, &icv).unwrap()
        }),
    }
}

#[derive(Debug, Clone, PartialEq, Eq)]
enum Walk {
    Ok { last: u8, visited: Vec<&'static str> },
    HbhNotAtStart,
    NotReferenced,
}

/// independent walk of the struct (which headers get visited in which order)
fn ref_walk(c: &Conf) -> Walk {
    let (mut hbh, mut dest, mut route, mut fin, mut frag, mut auth) = (
        c.hbh.is_some(),
        c.dest.is_some(),
        c.route.is_some(),
        c.fin.is_some(),
        c.frag.is_some(),
        c.auth.is_some(),
    );
    let mut visited = Vec::new();
    let mut next = c.first;
    let mut route_done = false;
    if next == 0 {
        if let Some(n) = c.hbh {
            visited.push("hbh");
            hbh = false;
            next = n;
        }
    }
    loop {
        match next {
            0 => {
                if hbh {
                    return Walk::HbhNotAtStart;
                }
                break;
            }
            60 => {
                if route_done {
                    if fin {
                        visited.push("final");
                        fin = false;
                        next = c.fin.unwrap();
                    } else {
                        break;
                    }
                } else if dest {
                    visited.push("dest");
                    dest = false;
                    next = c.dest.unwrap();
                } else {
                    break;
                }
            }
            43 => {
                if route {
                    visited.push("route");
                    route = false;
                    route_done = true;
                    next = c.route.unwrap();
                } else {
                    break;
                }
            }
            44 => {
                if frag {
                    visited.push("frag");
                    frag = false;
                    next = c.frag.unwrap();
                } else {
                    break;
                }
            }
            51 => {
                if auth {
                    visited.push("auth");
                    auth = false;
                    next = c.auth.unwrap();
                } else {
                    break;
                }
            }
            _ => break,
        }
    }
    if hbh || dest || route || fin || frag || auth {
        return Walk::NotReferenced;
    }
    Walk::Ok { last: next, visited }
}

/// independent parse of written extension bytes: (kind number, length) sequence and final number
fn parse_chain(first: u8, b: &[u8]) -> Option<(Vec<(u8, usize)>, u8)> {
    let mut out = Vec::new();
    let mut next = first;
    let mut o = 0;
    while o < b.len() {
        let len = match next {
            0 | 43 | 60 => {
                if b.len() - o < 8 {
                    return None;
                }
                8 * (b[o + 1] as usize + 1)
            }
            44 => 8,
            51 => {
                if b.len() - o < 8 {
                    return None;
                }
                4 * (b[o + 1] as usize + 2)
            }
            _ => return None,
        };
        if b.len() - o < len {
            return None;
        }
        out.push((next, len));
        next = b[o];
        o += len;
    }
    Some((out, next))
}

fn kind_no(name: &str) -> u8 {
    match name {
        "hbh" => 0,
        "dest" | "final" => 60,
        "route" => 43,
        "frag" => 44,
        _ => 51,
    }
}

impl C12 {
    fn check(&mut self, rep: &mut Report, c: &Conf, rng: &mut Prng, engine: &str) {
        let exts = build(c, rng);
        let expect = ref_walk(c);
        rep.evals += 1;
        shell::progress_entry(1200);
        let ctx = format!("{:?}", c);
        let res = shell::guarded(|| {
            let walk = exts.next_header(IpNumber(c.first));
            let mut out: Vec<u8> = Vec::new();
            let w = exts.write(&mut out, IpNumber(c.first));
            (walk, w.map_err(|e| format!("{:?}", e)), out, exts.header_len())
        });
        let (walk, w, out, hlen) = match res {
            Ok(x) => x,
            Err(p) => {
                rep.violation(
                    &format!("panic|Ipv6Extensions|{}", p.location()),
                    format!("walking/writing {} panicked: {}", ctx, p.0),
                    &[],
                );
                return;
            }
        };
        // walk result vs reference walk
        let walk_ok = walk.is_ok();
        match (&expect, &walk) {
            (Walk::Ok { last, .. }, Ok(n)) if n.0 == *last => {}
            (Walk::HbhNotAtStart, Err(err::ipv6_exts::ExtsWalkError::HopByHopNotAtStart)) => {}
            (Walk::NotReferenced, Err(err::ipv6_exts::ExtsWalkError::ExtNotReferenced { .. })) => {}
            // an unreferenced header next to a misplaced hop-by-hop: either report is truthful
            (Walk::HbhNotAtStart, Err(_)) | (Walk::NotReferenced, Err(_)) => {}
            (e, g) => {
                rep.violation(
                    &format!("walk|{}", if walk_ok { "ok_but_inconsistent" } else { "err_but_consistent" }),
                    format!("next_header({}) of {} returned {:?}, the reference walk gives {:?}", c.first, ctx, g, e),
                    &[],
                );
                return;
            }
        }
        // the IpHeaders wrapper walks and writes the same chain from the base header's next_header
        {
            let mut base = Ipv6Header::default();
            base.next_header = IpNumber(c.first);
            let ih = IpHeaders::Ipv6(base, exts.clone());
            let r = shell::guarded(|| {
                let mut o: Vec<u8> = Vec::new();
                let w = ih.write(&mut o).map_err(|e| format!("{:?}", e));
                (ih.next_header(), w, o)
            });
            match r {
                Ok((iw, iwr, o)) => {
                    let same = match (&iw, &walk) {
                        (Ok(a), Ok(b)) => a == b,
                        (Err(err::ip_exts::ExtsWalkError::Ipv6Exts(a)), Err(b)) => a == b,
                        _ => false,
                    };
                    if !same {
                        rep.violation(
                            "wrapper|IpHeaders::next_header|differs_from_exts_walk",
                            format!("{}: IpHeaders::next_header() -> {:?} but Ipv6Extensions::next_header({}) -> {:?}", ctx, iw, c.first, walk),
                            &[],
                        );
                        return;
                    }
                    if iwr.is_ok() != walk_ok || (iwr.is_ok() && o.len() != 40 + hlen) {
                        rep.violation(
                            "wrapper|IpHeaders::write|differs_from_walk",
                            format!("{}: IpHeaders::write -> {:?} ({} bytes) but the walk gives {:?}", ctx, iwr, o.len(), walk),
                            &o,
                        );
                        return;
                    }
                    rep.count("wrappers.ipv6_walk_and_write_agree");
                }
                Err(p) => {
                    rep.violation(&format!("panic|IpHeaders|{}", p.location()), format!("{}: {}", ctx, p.0), &[]);
                    return;
                }
            }
        }
        // write succeeds exactly when walking succeeds
        if w.is_ok() != walk_ok {
            rep.violation(
                &format!("write_vs_walk|walk_ok={}", walk_ok),
                format!("{}: next_header -> {:?} but write -> {:?}", ctx, walk, w),
                &out,
            );
            return;
        }
        if let Walk::Ok { last, visited } = &expect {
            // announced number of bytes, nothing dropped
            if out.len() != hlen {
                rep.violation(
                    "written_len_vs_header_len",
                    format!("{}: wrote {} bytes, header_len() announces {}", ctx, out.len(), hlen),
                    &out,
                );
                return;
            }
            match parse_chain(c.first, &out) {
                Some((seq, fin)) => {
                    let want: Vec<u8> = visited.iter().map(|v| kind_no(v)).collect();
                    let got: Vec<u8> = seq.iter().map(|s| s.0).collect();
                    if want != got || fin != *last {
                        rep.violation(
                            "written_chain_differs",
                            format!(
                                "{}: written chain {:?} -> {} but the struct links {:?} -> {}",
                                ctx, got, fin, want, last
                            ),
                            &out,
                        );
                        return;
                    }
                }
                None => {
                    rep.violation("written_chain_unparsable", format!("{}: written bytes do not parse as a chain", ctx), &out);
                    return;
                }
            }
            rep.count("consistent_chains");
            // decoding the bytes yields the same set and final number (final number not an
            // extension header itself)
            if !EXT_NUMBERS.contains(last) {
                match shell::guarded(|| Ipv6Extensions::from_slice(IpNumber(c.first), &out).map(|(e, n, r)| (e, n, r.len()))) {
                    Ok(Ok((e, n, rest))) => {
                        if e != exts || n.0 != *last || rest != 0 {
                            rep.violation(
                                "decode_differs",
                                format!("{}: decoding the written bytes gives final {} rest {} set-equal {}", ctx, n.0, rest, e == exts),
                                &out,
                            );
                            return;
                        }
                        rep.count("decoded_same");
                        // ... through every other decoding door as well: the written chain inside a
                        // complete IPv6 packet
                        let mut base = Ipv6Header::default();
                        base.next_header = IpNumber(c.first);
                        base.payload_length = (out.len() + 4) as u16;
                        base.hop_limit = 9;
                        let mut pkt = base.to_bytes().to_vec();
                        pkt.extend_from_slice(&out);
                        pkt.extend_from_slice(&[1, 2, 3, 4]);
                        let want_h = IpHeaders::Ipv6(base.clone(), exts.clone());
                        let doors = shell::guarded(|| {
                            let mut v: Vec<(&'static str, u8, bool)> = Vec::new();
                            if let Ok(ip) = IpSlice::from_slice(&pkt) {
                                v.push(("IpSlice::payload_ip_number", ip.payload_ip_number().0, true));
                                v.push(("IpSlice::payload().ip_number", ip.payload().ip_number.0, ip.payload().payload == &[1, 2, 3, 4]));
                                v.push(("IpSlice::header().payload_ip_number", ip.header().payload_ip_number().0, true));
                                v.push(("IpSlice::to_header", *last, ip.to_header() == want_h));
                                v.push(("IpHeadersSlice::try_to_header", *last, ip.header().try_to_header().ok().as_ref() == Some(&want_h)));
                                v.push(("IpHeadersSlice::header_len", *last, ip.header().header_len() == 40 + out.len()));
                            } else {
                                v.push(("IpSlice::from_slice", 0, false));
                            }
                            if let Ok(ip6) = Ipv6Slice::from_slice(&pkt) {
                                v.push(("Ipv6Slice::payload().ip_number", ip6.payload().ip_number.0, ip6.payload().payload == &[1, 2, 3, 4]));
                                let n = ip6.extensions().clone().into_iter().count();
                                v.push(("Ipv6ExtensionsSlice::into_iter().count", *last, n == visited.len()));
                            } else {
                                v.push(("Ipv6Slice::from_slice", 0, false));
                            }
                            match IpHeaders::from_slice(&pkt) {
                                Ok((h, p)) => v.push(("IpHeaders::from_slice", p.ip_number.0, h == want_h && p.payload == &[1, 2, 3, 4])),
                                Err(_) => v.push(("IpHeaders::from_slice", 0, false)),
                            }
                            match Ipv6ExtensionsSlice::from_slice(IpNumber(c.first), &out) {
                                Ok((sl, n, rest)) => v.push(("Ipv6ExtensionsSlice::from_slice", n.0, rest.is_empty() && sl.slice().len() == out.len())),
                                Err(_) => v.push(("Ipv6ExtensionsSlice::from_slice", 0, false)),
                            }
                            // the io::Read doors
                            {
                                let mut cur = std::io::Cursor::new(&out[..]);
                                match Ipv6Extensions::read(&mut cur, IpNumber(c.first)) {
                                    Ok((e, n)) => v.push(("Ipv6Extensions::read", n.0, e == exts && cur.position() as usize == out.len())),
                                    Err(_) => v.push(("Ipv6Extensions::read", 0, false)),
                                }
                                let cur = std::io::Cursor::new(&out[..]);
                                let mut lr = etherparse::io::LimitedReader::new(cur, out.len(), LenSource::Slice, 0, err::Layer::Ipv6ExtHeader);
                                match Ipv6Extensions::read_limited(&mut lr, IpNumber(c.first)) {
                                    Ok((e, n)) => v.push(("Ipv6Extensions::read_limited", n.0, e == exts)),
                                    Err(_) => v.push(("Ipv6Extensions::read_limited", 0, false)),
                                }
                                let mut cur = std::io::Cursor::new(&pkt[..]);
                                match IpHeaders::read(&mut cur) {
                                    Ok((h, n)) => v.push(("IpHeaders::read", n.0, h == want_h && cur.position() as usize == 40 + out.len())),
                                    Err(_) => v.push(("IpHeaders::read", 0, false)),
                                }
                            }
                            v
                        });
                        match doors {
                            Ok(v) => {
                                for (door, n, ok) in v {
                                    rep.evals += 1;
                                    if n != *last || !ok {
                                        rep.violation(
                                            &format!("decode_door_differs|{}", door),
                                            format!("{}: {} gives final number {} (structure ok: {}), the chain links to {}", ctx, door, n, ok, last),
                                            &pkt,
                                        );
                                        return;
                                    }
                                }
                                rep.count("decoded_same_through_all_doors");
                            }
                            Err(p) => {
                                rep.violation(&format!("panic|decode_doors|{}", p.location()), p.0, &pkt);
                                return;
                            }
                        }
                    }
                    Ok(Err(e)) => {
                        rep.violation("decode_fails", format!("{}: decoding the written bytes fails: {:?}", ctx, e), &out);
                        return;
                    }
                    Err(p) => {
                        rep.violation(&format!("panic|from_slice|{}", p.location()), p.0, &out);
                        return;
                    }
                }
            }
        } else {
            rep.count("inconsistent_chains_rejected");
            if matches!(expect, Walk::HbhNotAtStart) {
                rep.count("hbh_not_at_start");
            }
        }
        rep.sig(&format!(
            "{}|{}{}{}{}{}{}|{:?}",
            engine,
            c.hbh.is_some() as u8,
            c.dest.is_some() as u8,
            c.route.is_some() as u8,
            c.fin.is_some() as u8,
            c.frag.is_some() as u8,
            c.auth.is_some() as u8,
            std::mem::discriminant(&expect)
        ));
        if rep.want_sample() && c.auth.is_some() && c.route.is_some() {
            rep.sample(format!("{{\"config\":{},\"reference_walk\":{},\"written\":{}}}", jstr(&ctx), jstr(&format!("{:?}", expect)), jstr(&hex(&out))));
        }
    }

    /// set_next_headers(n) for n that is not an extension header
    fn set_next(&mut self, rep: &mut Report, idx: u64, rng: &mut Prng) {
        // presence combination from idx, n from all 256 values
        let combo = (idx / 256) % 48;
        let n = (idx % 256) as u8;
        if EXT_NUMBERS.contains(&n) {
            return;
        }
        let four = (combo % 16) as u32;
        let routing = (combo / 16) as u32;
        let j = |rng: &mut Prng| Some(*rng.pick(&S));
        let c = Conf {
            hbh: if four & 1 != 0 { j(rng) } else { None },
            dest: if four & 2 != 0 { j(rng) } else { None },
            route: if routing >= 1 { j(rng) } else { None },
            fin: if routing == 2 { j(rng) } else { None },
            frag: if four & 4 != 0 { j(rng) } else { None },
            auth: if four & 8 != 0 { j(rng) } else { None },
            first: 0,
        };
        let mut exts = build(&c, rng);
        rep.evals += 1;
        let ctx = format!("{:?} n={}", c, n);
        let res = shell::guarded(|| {
            let first = exts.set_next_headers(IpNumber(n));
            let walk = exts.next_header(first);
            let mut out = Vec::new();
            let w = exts.write(&mut out, first).map_err(|e| format!("{:?}", e));
            (first, walk, w, out, exts.header_len(), exts.clone())
        });
        let (first, walk, w, out, hlen, exts2) = match res {
            Ok(x) => x,
            Err(p) => {
                rep.violation(&format!("panic|set_next_headers|{}", p.location()), format!("{}: {}", ctx, p.0), &[]);
                return;
            }
        };
        if walk.as_ref().ok().map(|v| v.0) != Some(n) {
            rep.violation("set_next_headers|walk", format!("{}: after set_next_headers the chain walks to {:?}", ctx, walk), &[]);
            return;
        }
        if w.is_err() || out.len() != hlen {
            rep.violation("set_next_headers|write", format!("{}: write {:?}, {} bytes vs header_len {}", ctx, w, out.len(), hlen), &out);
            return;
        }
        // RFC 8200 order: HBH, DestOpts, Routing, Fragment, AH, (ESP), DestOpts
        let mut want: Vec<u8> = Vec::new();
        if c.hbh.is_some() {
            want.push(0);
        }
        if c.dest.is_some() {
            want.push(60);
        }
        if c.route.is_some() {
            want.push(43);
        }
        if c.frag.is_some() {
            want.push(44);
        }
        if c.auth.is_some() {
            want.push(51);
        }
        if c.fin.is_some() {
            want.push(60);
        }
        match parse_chain(first.0, &out) {
            Some((seq, fin)) => {
                let got: Vec<u8> = seq.iter().map(|s| s.0).collect();
                if got != want || fin != n {
                    rep.violation(
                        "set_next_headers|order",
                        format!("{}: written order {:?} -> {} but RFC 8200 order is {:?} -> {}", ctx, got, fin, want, n),
                        &out,
                    );
                    return;
                }
            }
            None => {
                rep.violation("set_next_headers|unparsable", ctx, &out);
                return;
            }
        }
        match Ipv6Extensions::from_slice(first, &out) {
            Ok((e, last, rest)) => {
                if e != exts2 || last.0 != n || !rest.is_empty() {
                    rep.violation("set_next_headers|decode", format!("{}: decoded set differs / final {} / rest {}", ctx, last.0, rest.len()), &out);
                    return;
                }
            }
            Err(e) => {
                rep.violation("set_next_headers|decode_fails", format!("{}: {:?}", ctx, e), &out);
                return;
            }
        }
        rep.count("set_next_headers_ok");
        // the packet builder links the chain itself (`PacketBuilder::ip(..).write*(.., n, payload)`):
        // from a header set whose links are all stale, every output door has to emit the chain linked
        // to n in RFC 8200 order - the very octets written above
        {
            let stale = IpNumber(*rng.pick(&[59u8, 17, 6, 253, n.wrapping_add(1)].iter().filter(|v| !EXT_NUMBERS.contains(v) && **v != n).copied().collect::<Vec<u8>>()));
            let mut unl = exts2.clone();
            if let Some(h) = unl.hop_by_hop_options.as_mut() {
                h.next_header = stale;
            }
            if let Some(h) = unl.destination_options.as_mut() {
                h.next_header = stale;
            }
            if let Some(r) = unl.routing.as_mut() {
                r.routing.next_header = stale;
                if let Some(f) = r.final_destination_options.as_mut() {
                    f.next_header = stale;
                }
            }
            if let Some(h) = unl.fragment.as_mut() {
                h.next_header = stale;
            }
            if let Some(h) = unl.auth.as_mut() {
                h.next_header = stale;
            }
            let mut base = Ipv6Header::default();
            base.next_header = stale;
            base.hop_limit = 9;
            let ih = IpHeaders::Ipv6(base, unl);
            let pn = rng.range(0, 9) as usize;
            let pl = rng.bytes(pn);
            let total = 40 + out.len() + pl.len();
            for door in ["write", "write_to_vec", "write_to_slice"] {
                rep.evals += 1;
                let ih = ih.clone();
                let r = shell::guarded(|| -> Result<Vec<u8>, String> {
                    let b = PacketBuilder::ip(ih);
                    match door {
                        "write" => {
                            let mut v = Vec::new();
                            b.write(&mut v, IpNumber(n), &pl).map_err(|e| format!("{:?}", e))?;
                            Ok(v)
                        }
                        "write_to_vec" => {
                            let mut v = Vec::new();
                            b.write_to_vec(&mut v, IpNumber(n), &pl).map_err(|e| format!("{:?}", e))?;
                            Ok(v)
                        }
                        _ => {
                            let mut v = vec![0u8; total + 3];
                            let k = b.write_to_slice(&mut v, IpNumber(n), &pl).map_err(|e| format!("{:?}", e))?;
                            v.truncate(k);
                            Ok(v)
                        }
                    }
                });
                match r {
                    Err(p) => {
                        rep.violation(&format!("panic|PacketBuilder::ip|{}|{}", door, p.location()), format!("{}: {}", ctx, p.0), &[]);
                        return;
                    }
                    Ok(Err(e)) => {
                        rep.violation(&format!("builder|{}|rejects_linkable_chain", door), format!("{} (all links stale = {}): {}", ctx, stale.0, e), &out);
                        return;
                    }
                    Ok(Ok(v)) => {
                        let ok = v.len() == total && v[6] == first.0 && v[40..40 + out.len()] == out[..] && v[40 + out.len()..] == pl[..] && u16::from_be_bytes([v[4], v[5]]) as usize == out.len() + pl.len();
                        if !ok {
                            rep.violation(
                                &format!("builder|{}|chain_not_linked_to_n", door),
                                format!("{} (all links stale = {}): PacketBuilder::ip(..).{} emitted a chain that is not the RFC 8200 chain ending in {}", ctx, stale.0, door, n),
                                &v,
                            );
                            return;
                        }
                        rep.count("builder_door.links_stale_chain_to_n");
                    }
                }
            }
        }
        // the wrappers, started from a chain that is already consistent and already ends in n but
        // is linked with fragment and authentication header swapped: linking must still produce
        // RFC 8200 order
        if c.frag.is_some() && c.auth.is_some() {
            let mut pre = exts2.clone();
            // RFC order with auth in front of fragment
            let mut order: Vec<&str> = Vec::new();
            if c.hbh.is_some() {
                order.push("hbh");
            }
            if c.dest.is_some() {
                order.push("dest");
            }
            if c.route.is_some() {
                order.push("route");
            }
            order.push("auth");
            order.push("frag");
            if c.fin.is_some() {
                order.push("fin");
            }
            let num = |k: &str| -> u8 {
                match k {
                    "hbh" => 0,
                    "dest" | "fin" => 60,
                    "route" => 43,
                    "frag" => 44,
                    _ => 51,
                }
            };
            for (i, k) in order.iter().enumerate() {
                let nx = IpNumber(if i + 1 < order.len() { num(order[i + 1]) } else { n });
                match *k {
                    "hbh" => pre.hop_by_hop_options.as_mut().unwrap().next_header = nx,
                    "dest" => pre.destination_options.as_mut().unwrap().next_header = nx,
                    "route" => pre.routing.as_mut().unwrap().routing.next_header = nx,
                    "fin" => pre.routing.as_mut().unwrap().final_destination_options.as_mut().unwrap().next_header = nx,
                    "frag" => pre.fragment.as_mut().unwrap().next_header = nx,
                    _ => pre.auth.as_mut().unwrap().next_header = nx,
                }
            }
            let pre_first = IpNumber(num(order[0]));
            let mut base = Ipv6Header::default();
            base.next_header = pre_first;
            for wrapper in ["Ipv6Extensions::set_next_headers", "IpHeaders::set_next_headers", "NetHeaders::try_set_next_headers"] {
                rep.evals += 1;
                let r = shell::guarded(|| {
                    let ih = match wrapper {
                        "Ipv6Extensions::set_next_headers" => {
                            let mut e = pre.clone();
                            let mut b = base.clone();
                            b.next_header = e.set_next_headers(IpNumber(n));
                            IpHeaders::Ipv6(b, e)
                        }
                        "IpHeaders::set_next_headers" => {
                            let mut ih = IpHeaders::Ipv6(base.clone(), pre.clone());
                            ih.set_next_headers(IpNumber(n));
                            ih
                        }
                        _ => {
                            let mut nh = NetHeaders::Ipv6(base.clone(), pre.clone());
                            let _ = nh.try_set_next_headers(IpNumber(n));
                            match nh {
                                NetHeaders::Ipv6(b, e) => IpHeaders::Ipv6(b, e),
                                _ => unreachable!(),
                            }
                        }
                    };
                    let mut o = Vec::new();
                    let w = ih.write(&mut o).map_err(|e| format!("{:?}", e));
                    (w, o)
                });
                match r {
                    Ok((Ok(()), o)) if o.len() >= 40 => match parse_chain(o[6], &o[40..]) {
                        Some((seq, fin)) => {
                            let got: Vec<u8> = seq.iter().map(|s| s.0).collect();
                            if got != want || fin != n {
                                rep.violation(
                                    &format!("set_next_headers|order_from_prelinked|{}", wrapper),
                                    format!("{} on a chain pre-linked as {:?} -> {}: written order {:?} -> {} but RFC 8200 order is {:?} -> {}", wrapper, order, n, got, fin, want, n),
                                    &o,
                                );
                                return;
                            }
                            rep.count("set_next_headers_from_prelinked_ok");
                        }
                        None => {
                            rep.violation(&format!("set_next_headers|unparsable_from_prelinked|{}", wrapper), format!("{:?}", order), &o);
                            return;
                        }
                    },
                    Ok((w, o)) => {
                        rep.violation(&format!("set_next_headers|write_from_prelinked|{}", wrapper), format!("{:?}: write -> {:?}", order, w), &o);
                        return;
                    }
                    Err(p) => {
                        rep.violation(&format!("panic|set_next_headers|{}", p.location()), format!("{}: {}", wrapper, p.0), &[]);
                        return;
                    }
                }
            }
        }
        rep.sig(&format!("setnext|{}|{}", combo, want.len()));
    }

    /// IPv4 extensions and the IpHeaders / NetHeaders wrappers
    fn ipv4_and_wrappers(&mut self, rep: &mut Report, idx: u64, rng: &mut Prng) {
        let auth_present = idx & 1 == 1;
        let auth_next = S[((idx >> 1) % 8) as usize];
        let first = S[((idx >> 4) % 8) as usize];
        let n = loop {
            let n = rng.u8();
            if !EXT_NUMBERS.contains(&n) {
                break n;
            }
        };
        let icv = vec![1u8; 4 * rng.below(4) as usize];
        let mut e4 = Ipv4Extensions {
            auth: if auth_present {
                Some(IpAuthHeader::new(IpNumber(auth_next), 1, 2, &icv).unwrap())
            } else {
                None
            },
        };
        rep.evals += 1;
        let ctx = format!("ipv4 exts auth={:?} first={} n={}", if auth_present { Some(auth_next) } else { None }, first, n);
        let r = shell::guarded(|| {
            let walk = e4.next_header(IpNumber(first));
            let mut out = Vec::new();
            let w = e4.write(&mut out, IpNumber(first)).map_err(|e| format!("{:?}", e));
            (walk, w, out, e4.header_len())
        });
        match r {
            Ok((walk, w, out, hlen)) => {
                let expect_ok = !auth_present || first == 51;
                let expect_last = if auth_present { auth_next } else { first };
                if walk.is_ok() != expect_ok || (expect_ok && walk.as_ref().unwrap().0 != expect_last) {
                    rep.violation("ipv4|walk", format!("{}: next_header -> {:?}", ctx, walk), &[]);
                } else if w.is_ok() != walk.is_ok() {
                    rep.violation("ipv4|write_vs_walk", format!("{}: walk {:?} write {:?}", ctx, walk, w), &out);
                } else if w.is_ok() && out.len() != hlen {
                    rep.violation("ipv4|written_len", format!("{}: wrote {} vs header_len {}", ctx, out.len(), hlen), &out);
                } else {
                    // the wrapper starts from the header's protocol field
                    let ih = IpHeaders::Ipv4(Ipv4Header::new(0, 64, IpNumber(first), [1, 2, 3, 4], [5, 6, 7, 8]).unwrap(), e4.clone());
                    let iw = ih.next_header();
                    let same = match (&iw, &walk) {
                        (Ok(a), Ok(b)) => a == b,
                        (Err(err::ip_exts::ExtsWalkError::Ipv4Exts(a)), Err(b)) => a == b,
                        _ => false,
                    };
                    let mut o = Vec::new();
                    let iwr = ih.write(&mut o);
                    if !same {
                        rep.violation("wrapper|IpHeaders::next_header|differs_from_exts_walk", format!("{}: IpHeaders::next_header() -> {:?} but Ipv4Extensions::next_header -> {:?}", ctx, iw, walk), &[]);
                    } else if iwr.is_ok() != walk.is_ok() {
                        rep.violation("wrapper|IpHeaders::write|differs_from_walk", format!("{}: IpHeaders::write -> {:?} but the walk gives {:?}", ctx, iwr.map_err(|e| format!("{:?}", e)), walk), &o);
                    } else {
                        rep.count("wrappers.ipv4_walk_and_write_agree");
                    }
                    if w.is_ok() && !EXT_NUMBERS.contains(&expect_last) {
                        match Ipv4Extensions::from_slice(IpNumber(first), &out) {
                            Ok((d, last, rest)) if d == e4 && last.0 == expect_last && rest.is_empty() => rep.count("ipv4.decoded_same"),
                            other => {
                                rep.violation("ipv4|decode", format!("{}: decoding the written bytes gives {:?}", ctx, other.map(|x| (x.1, x.2.len()))), &out);
                            }
                        }
                    }
                    rep.count("ipv4.chains");
                }
            }
            Err(p) => {
                rep.violation(&format!("panic|Ipv4Extensions|{}", p.location()), format!("{}: {}", ctx, p.0), &[]);
            }
        }
        // set_next_headers
        let f = e4.set_next_headers(IpNumber(n));
        if e4.next_header(f).ok().map(|v| v.0) != Some(n) {
            rep.violation("ipv4|set_next_headers", format!("{}: chain does not walk to n", ctx), &[]);
        }
        // builder door, IPv4: a base header with options and a stale protocol field; the announced
        // size, the three output doors and the link to n
        {
            let mut base = Ipv4Header::new(0, 64, IpNumber(if n == 17 { 6 } else { 17 }), [1, 2, 3, 4], [5, 6, 7, 8]).unwrap();
            let ow = rng.below(11) as usize;
            base.options = (&vec![0x01u8; 4 * ow][..]).try_into().unwrap();
            let mut unl = e4.clone();
            if let Some(a) = unl.auth.as_mut() {
                a.next_header = IpNumber(59);
            }
            let pn = rng.range(0, 9) as usize;
            let pl = rng.bytes(pn);
            let ext_len = e4.header_len();
            let total = 20 + 4 * ow + ext_len + pl.len();
            let ih = IpHeaders::Ipv4(base, unl);
            let announced = shell::guarded(|| PacketBuilder::ip(ih.clone()).size(pl.len()));
            for door in ["write", "write_to_vec", "write_to_slice"] {
                rep.evals += 1;
                let ih = ih.clone();
                let r = shell::guarded(|| -> Result<Vec<u8>, String> {
                    let b = PacketBuilder::ip(ih);
                    match door {
                        "write" => {
                            let mut v = Vec::new();
                            b.write(&mut v, IpNumber(n), &pl).map_err(|e| format!("{:?}", e))?;
                            Ok(v)
                        }
                        "write_to_vec" => {
                            let mut v = Vec::new();
                            b.write_to_vec(&mut v, IpNumber(n), &pl).map_err(|e| format!("{:?}", e))?;
                            Ok(v)
                        }
                        _ => {
                            // a slice of exactly the real size
                            let mut v = vec![0u8; total];
                            let k = b.write_to_slice(&mut v, IpNumber(n), &pl).map_err(|e| format!("{:?}", e))?;
                            v.truncate(k);
                            Ok(v)
                        }
                    }
                });
                match (r, &announced) {
                    (Err(p), _) => {
                        rep.violation(&format!("panic|PacketBuilder::ip(ipv4)|{}|{}", door, p.location()), format!("{}: {}", ctx, p.0), &[]);
                        return;
                    }
                    (Ok(Err(e)), _) => {
                        rep.violation(&format!("builder|ipv4|{}|rejects_linkable_chain", door), format!("{} ({} option words): {}", ctx, ow, e), &[]);
                        return;
                    }
                    (Ok(Ok(v)), a) => {
                        let hl = 20 + 4 * ow;
                        let last = if e4.auth.is_some() { v.get(hl).copied() } else { v.get(9).copied() };
                        let ok = v.len() == total
                            && a.as_ref().ok() == Some(&total)
                            && v[0] == 0x40 | (5 + ow as u8)
                            && u16::from_be_bytes([v[2], v[3]]) as usize == total
                            && v[9] == if e4.auth.is_some() { 51 } else { n }
                            && last == Some(n)
                            && v[total - pl.len()..] == pl[..];
                        if !ok {
                            rep.violation(
                                &format!("builder|ipv4|{}|announced_size_or_link", door),
                                format!("{} ({} option words, payload {}): size() = {:?}, {} emitted {} octets, real size {}; protocol {} last link {:?} (n = {})", ctx, ow, pl.len(), a.as_ref().ok(), door, v.len(), total, v[9], last, n),
                                &v,
                            );
                            return;
                        }
                        rep.count("builder_door.ipv4_size_and_link");
                    }
                }
            }
        }
        // wrappers: ether type of the IP version
        let c = Conf {
            hbh: if rng.bool() { Some(0) } else { None },
            dest: if rng.bool() { Some(0) } else { None },
            route: if rng.bool() { Some(0) } else { None },
            fin: None,
            frag: if rng.bool() { Some(0) } else { None },
            auth: if rng.bool() { Some(0) } else { None },
            first: 0,
        };
        let e6 = build(&c, rng);
        let mut h4 = IpHeaders::Ipv4(Ipv4Header::new(0, 64, IpNumber(0), [1, 2, 3, 4], [5, 6, 7, 8]).unwrap(), e4.clone());
        let mut h6 = IpHeaders::Ipv6(Ipv6Header::default(), e6);
        rep.evals += 2;
        let t4 = h4.set_next_headers(IpNumber(n));
        let t6 = h6.set_next_headers(IpNumber(n));
        if t4.0 != 0x0800 {
            rep.violation("ether_type|IpHeaders::set_next_headers|ipv4", format!("returned ether type 0x{:04x} for an IPv4 header set", t4.0), &[]);
        }
        if t6.0 != 0x86dd {
            rep.violation("ether_type|IpHeaders::set_next_headers|ipv6", format!("returned ether type 0x{:04x} for an IPv6 header set", t6.0), &[]);
        }
        for (h, v) in [(&h4, 4), (&h6, 6)] {
            match h.next_header() {
                Ok(x) if x.0 == n => rep.count("wrappers.walk_ok"),
                other => rep.violation(
                    &format!("wrapper|IpHeaders::next_header|v{}", v),
                    format!("after set_next_headers({}) next_header() -> {:?}", n, other),
                    &[],
                ),
            }
            let mut out = Vec::new();
            match h.write(&mut out) {
                Ok(()) if out.len() == h.header_len() => rep.count("wrappers.write_ok"),
                other => rep.violation(
                    &format!("wrapper|IpHeaders::write|v{}", v),
                    format!("write -> {:?}, {} bytes vs header_len {}", other.map_err(|e| format!("{:?}", e)), out.len(), h.header_len()),
                    &out,
                ),
            }
        }
        let mut n4: NetHeaders = h4.clone().into();
        let mut n6: NetHeaders = h6.clone().into();
        match (n4.try_set_next_headers(IpNumber(n)), n6.try_set_next_headers(IpNumber(n))) {
            (Ok(a), Ok(b)) if a.0 == 0x0800 && b.0 == 0x86dd => rep.count("wrappers.net_headers_ok"),
            other => rep.violation("ether_type|NetHeaders::try_set_next_headers", format!("returned {:?}", other), &[]),
        }
        rep.sig(&format!("ipv4|{}|{}|{}", auth_present, auth_next, first));
    }
}

impl Monitor for C12 {
    fn engines(&self, tier: Tier) -> Vec<(&'static str, u64)> {
        vec![
            ("exhaustive", EXHAUSTIVE),
            ("random", tier.pick(300_000, 160_000_000)),
            ("set_next_headers", tier.pick(48 * 256 * 4, 48 * 256 * 40)),
            ("ipv4_wrappers", tier.pick(128 * 40, 128 * 400)),
            ("api", tier.pick(2_000, 800_000)),
        ]
    }

    fn run_case(&mut self, engine: &str, idx: u64, rng: &mut Prng, rep: &mut Report) {
        match engine {
            "api" => super::api::c12(rep, rng),
            "exhaustive" => match conf_from_idx(idx) {
                Some(c) => {
                    rep.count("exhaustive.configurations");
                    self.check(rep, &c, rng, engine)
                }
                None => rep.selfcheck_fail(format!("index {} outside the exhaustive domain", idx)),
            },
            "random" => {
                let pick = |rng: &mut Prng| -> Option<u8> {
                    if rng.bool() {
                        Some(if rng.chance(2, 3) { *rng.pick(&S) } else { rng.u8() })
                    } else {
                        None
                    }
                };
                let route = pick(rng);
                let c = Conf {
                    hbh: pick(rng),
                    dest: pick(rng),
                    route,
                    fin: if route.is_some() { pick(rng) } else { None },
                    frag: pick(rng),
                    auth: pick(rng),
                    first: if rng.chance(2, 3) { *rng.pick(&S) } else { rng.u8() },
                };
                self.check(rep, &c, rng, engine);
            }
            "set_next_headers" => self.set_next(rep, idx, rng),
            "ipv4_wrappers" => self.ipv4_and_wrappers(rep, idx, rng),
            _ => {}
        }
    }
}
