//! C05 — lax parsing extends strict parsing and flags truncation honestly.
//!
//! For every input the lax result is compared (a) with the strict result of the same run and
//! (b) with the reference decoder in lax mode (DESIGN appendix B): layers in front of the fault,
//! stop error and stop layer, `incomplete` flags, payload range and length source.

use super::common::*;
use super::{Monitor, Tier};
use crate::gen::{self, Case, GenOpts, StartSel};
use crate::neutral::*;
use crate::observe::entry::Family;
use crate::observe::iplevel::{self, IpEntry};
use crate::observe::whole::{to_header_image, NPay, Whole};
use crate::observe::{self, Cx};
use crate::prng::Prng;
use crate::refmodel::pkt::{ety, ExtMode, Mode, RDecoded, RPayload, Start};
use crate::report::Report;
use crate::shell;
use etherparse::*;

pub struct C05 {}

impl C05 {
    pub fn new() -> C05 {
        C05 {}
    }
}

/// strip the lax-only facts so that a lax layer list can be compared with a strict one
fn strip_lax(layers: &[NLayer]) -> Vec<NLayer> {
    layers
        .iter()
        .map(|l| {
            let mut n = l.clone();
            n.remove("~incomplete");
            n
        })
        .collect()
}

fn any_incomplete(layers: &[NLayer]) -> bool {
    layers.iter().any(|l| l.get("~incomplete") == Some(1))
}

pub fn pay_vs_r(rep: &mut Report, entry: &str, bytes: &[u8], pay: &NPay, r: &RPayload, check_flags: bool) {
    if pay.kind == "none" {
        return;
    }
    let mut bad: Option<(&str, String)> = None;
    if pay.kind != r.kind {
        bad = Some(("kind", format!("kind {} vs reference {}", pay.kind, r.kind)));
    } else if pay.kind != "empty" && (pay.off != r.off || pay.len != r.len) {
        bad = Some((
            "range",
            format!("range @{}+{} vs reference @{}+{}", pay.off, pay.len, r.off, r.len),
        ));
    } else if check_flags {
        if let (Some(a), Some(b)) = (pay.num, r.num) {
            if a != b && pay.kind != "sll" {
                bad = Some(("num", format!("announced protocol {} vs reference {}", a, b)));
            }
        }
        if let (Some(a), Some(b)) = (pay.incomplete, r.incomplete) {
            if a != b && matches!(pay.kind, "ether" | "macsec_mod" | "ip") {
                bad = Some(("incomplete", format!("incomplete {} vs reference {}", a, b)));
            }
        }
        if let (Some(a), Some(b)) = (pay.src, r.src) {
            if a != b {
                bad = Some(("len_source", format!("len_source {:?} vs reference {:?}", a, b)));
            }
        }
        if let (Some(a), Some(b)) = (pay.fragmented, r.fragmented) {
            if a != b {
                bad = Some(("fragmented", format!("fragmented {} vs reference {}", a, b)));
            }
        }
    }
    if let Some((f, d)) = bad {
        rep.violation(
            &format!("payload|{}|{}|{}", entry, pay.kind, f),
            format!("{}: final payload ({}) {}", entry, pay.kind, d),
            bytes,
        );
    } else {
        rep.count("payload_ok");
    }
}

/// compare a lax result with R-lax
pub fn judge_lax(
    rep: &mut Report,
    entry: &str,
    bytes: &[u8],
    r: &RDecoded,
    out: &NOut,
    pay: &NPay,
    is_struct: bool,
    always_ok: bool,
) {
    // verdict
    match (&r.fault, &out.err) {
        (Some(f), Some(e)) => {
            if r.fault_in_first {
                if f.accepts_class(e) {
                    rep.count("lax.err_first_header");
                } else {
                    rep.violation(
                        &format!("lax_wrong_error|{}|{:?}|{}", entry, f.kind, e.class()),
                        format!("{}: Err({:?}) but the fault is: {}", entry, e, f.describe()),
                        bytes,
                    );
                }
            } else {
                rep.violation(
                    &format!("lax_err_behind_first_header|{}|{:?}", entry, f.kind),
                    format!(
                        "{}: returned Err({:?}) although the first header decodes; the fault is behind it: {}",
                        entry,
                        e,
                        f.describe()
                    ),
                    bytes,
                );
            }
            return;
        }
        (None, Some(e)) => {
            rep.violation(
                &format!("lax_rejects_wellformed|{}|{}", entry, e.class()),
                format!("{}: returned Err({:?}) but the reference decoder finds no fault", entry, e),
                bytes,
            );
            return;
        }
        (Some(f), None) if r.fault_in_first && !always_ok => {
            rep.violation(
                &format!("lax_accepts_bad_first_header|{}|{:?}", entry, f.kind),
                format!("{}: returned Ok although the first header is undecodable: {}", entry, f.describe()),
                bytes,
            );
            return;
        }
        _ => {}
    }
    // layers in front of the fault
    let d = if is_struct {
        let img = canonical_ext_order(&to_header_image(&r.layers));
        diff_layers("reference", &img, "etherparse", &out.layers)
    } else {
        diff_layers("reference", &r.layers, "etherparse", &out.layers)
    };
    if let Some((sig, detail)) = d {
        rep.violation(
            &format!("lax_layers_differ|{}|{}", entry, sig),
            format!("{}: {}", entry, detail),
            bytes,
        );
        return;
    }
    rep.count("lax.layers_agree");
    // stop error
    match (&r.fault, &out.stop) {
        (None, None) => {
            rep.count("lax.no_stop");
        }
        (Some(f), Some((e, l))) => {
            if !f.accepts_class(e) {
                rep.violation(
                    &format!("lax_wrong_stop_error|{}|{:?}|{}", entry, f.kind, e.class()),
                    format!("{}: stop error {:?} but the fault is: {}", entry, e, f.describe()),
                    bytes,
                );
            } else if !f.accepts(e) {
                // "records the fault": the record has to describe it (layer, offset, byte counts,
                // length source - the same truthfulness C07 demands of every error)
                let what = match e {
                    NErr::Len { layer, src, .. } => format!("{:?}/{:?}", layer, src),
                    other => other.class().to_string(),
                };
                let fields = super::c07::untruthful_fields(f, e);
                rep.violation(
                    &format!("lax_untruthful_stop_error|{}|{:?}|{}|{}", entry, f.kind, fields, what),
                    format!("{}: stop error {:?} does not describe the fault: {}", entry, e, f.describe()),
                    bytes,
                );
            } else if !f.stop_layers.contains(l) {
                rep.violation(
                    &format!("lax_wrong_stop_layer|{}|{:?}|{:?}", entry, f.kind, l),
                    format!("{}: stop layer {:?} but the fault is: {}", entry, l, f.describe()),
                    bytes,
                );
            } else {
                rep.count(&format!("lax.stop.{:?}", f.kind));
            }
        }
        (Some(f), None) => {
            rep.violation(
                &format!("lax_no_stop_error|{}|{:?}", entry, f.kind),
                format!("{}: no stop error recorded although: {}", entry, f.describe()),
                bytes,
            );
        }
        (None, Some((e, l))) => {
            rep.violation(
                &format!("lax_spurious_stop_error|{}|{}|{:?}", entry, e.class(), l),
                format!("{}: stop error {:?}@{:?} but the reference decoder finds no fault", entry, e, l),
                bytes,
            );
        }
    }
    pay_vs_r(rep, entry, bytes, pay, &r.payload, true);
    for l in &r.layers {
        if l.get("~incomplete") == Some(1) {
            rep.count(&format!("lax.incomplete_true.{:?}", l.kind));
        }
    }
}

/// "records the fault": when strict parsing fails behind the first header on exactly the fault the
/// lax decoder stops at, and that fault has a single truthful description, the recorded stop error
/// has to be the error strict parsing reports (two different records of one single-description
/// fault cannot both be right).
fn same_fault_same_record(rep: &mut Report, name: &str, bytes: &[u8], rs: &RDecoded, rl: &RDecoded, strict_err: &NErr, lax_stop: &NErr) {
    let (fs, fl) = match (&rs.fault, &rl.fault) {
        (Some(a), Some(b)) => (a, b),
        _ => return,
    };
    if fs.kind != fl.kind || fs.off != fl.off || fs.admissible.len() != 1 || fl.admissible.len() != 1 {
        return;
    }
    if format!("{:?}", fs.admissible) != format!("{:?}", fl.admissible) {
        return;
    }
    // several admissible length sources (an enclosing limit that coincides with the slice end) leave
    // the two decoders a choice
    if let crate::refmodel::pkt::Admissible::Len { srcs, .. } = &fl.admissible[0] {
        if srcs.count_ones() != 1 {
            return;
        }
    }
    if strict_err == lax_stop {
        rep.count("stop_error_equals_strict_error");
    } else {
        rep.violation(
            &format!("lax_stop_error_differs_from_strict|{}|{:?}|{}", name, fl.kind, lax_stop.class()),
            format!(
                "{}: strict parsing reports {:?}, lax parsing records {:?} for the same fault: {}",
                name,
                strict_err,
                lax_stop,
                fl.describe()
            ),
            bytes,
        );
    }
}

impl C05 {
    fn pair(&mut self, rep: &mut Report, case: &Case, strict_f: Family, lax_f: Family) {
        if !lax_f.supports(case.start) {
            return;
        }
        let name = lax_f.name(case.start);
        rep.evals += 1;
        rep.count(&format!("entry.{}", name));
        let lax = match run_family(lax_f, case.start, &case.bytes, false) {
            Ok(d) => d.whole,
            Err(p) => {
                note_abnormal(rep, name, &p);
                return;
            }
        };
        let ext = if lax_f.is_struct() { ExtMode::Struct } else { ExtMode::Slice };
        let r = rdecode(&case.bytes, case.start, Mode::Lax, ext);
        // (a) lax vs strict of the same family
        if strict_f.supports(case.start) {
            match run_family(strict_f, case.start, &case.bytes, false) {
                Ok(s) => {
                    self.vs_strict(rep, name, case, &s.whole, &lax);
                    if let (Some(se), Some((le, _))) = (&s.whole.out.err, &lax.out.stop) {
                        let rs = rdecode(&case.bytes, case.start, Mode::Strict, ext);
                        same_fault_same_record(rep, name, &case.bytes, &rs, &r, se, le);
                    }
                }
                Err(p) => note_abnormal(rep, strict_f.name(case.start), &p),
            }
        }
        // (b) lax vs reference
        let always_ok = matches!(case.start, Start::EtherType(_));
        judge_lax(rep, name, &case.bytes, &r, &lax.out, &lax.pay, lax_f.is_struct(), always_ok);
        if nontrivial(&lax.out) {
            rep.sig(&format!("{}|{}", name, lax.out.signature()));
        }
        if rep.want_sample() && lax.out.stop.is_some() && case.bytes.len() < 160 {
            rep.sample(sample(&case.desc, case.start, &case.bytes, &format!("{}: {}", name, lax.out.signature())));
        }
    }

    fn vs_strict(&mut self, rep: &mut Report, name: &str, case: &Case, s: &Whole, l: &Whole) {
        match &s.out.err {
            None => {
                // strict succeeded: same layers, same payload, no stop error, nothing incomplete
                rep.count("strict_ok_cases");
                if let Some(e) = &l.out.err {
                    rep.violation(
                        &format!("strict_ok_lax_err|{}|{}", name, e.class()),
                        format!("{}: strict parsing succeeds but lax parsing returns Err({:?})", name, e),
                        &case.bytes,
                    );
                    return;
                }
                if let Some((e, lay)) = &l.out.stop {
                    rep.violation(
                        &format!("strict_ok_lax_stop|{}|{}", name, e.class()),
                        format!("{}: strict parsing succeeds but lax parsing records stop error {:?}@{:?}", name, e, lay),
                        &case.bytes,
                    );
                    return;
                }
                if any_incomplete(&l.out.layers) || l.pay.incomplete == Some(true) {
                    rep.violation(
                        &format!("strict_ok_lax_incomplete|{}", name),
                        format!("{}: strict parsing succeeds but lax parsing marks a payload incomplete", name),
                        &case.bytes,
                    );
                    return;
                }
                if let Some((sig, detail)) = diff_layers("strict", &s.out.layers, "lax", &strip_lax(&l.out.layers)) {
                    rep.violation(
                        &format!("strict_ok_lax_differs|{}|{}", name, sig),
                        format!("{}: strict parsing succeeds but lax parsing differs: {}", name, detail),
                        &case.bytes,
                    );
                    return;
                }
                if s.pay.kind != l.pay.kind || s.pay.off != l.pay.off || s.pay.len != l.pay.len || s.pay.num != l.pay.num {
                    rep.violation(
                        &format!("strict_ok_lax_payload|{}|{}", name, s.pay.kind),
                        format!("{}: payload differs: strict {:?} lax {:?}", name, s.pay, l.pay),
                        &case.bytes,
                    );
                    return;
                }
                // the packet-level accessors (ether_payload(), ip_payload(), vlan_ids()) answer the same
                for (k, v) in &s.acc {
                    if let Some((_, lv)) = l.acc.iter().find(|x| x.0 == *k) {
                        if lv != v {
                            rep.violation(
                                &format!("strict_ok_lax_accessor|{}|{}", name, k),
                                format!("{}: strict parsing succeeds; accessor fact {} is {} for the strict result and {} for the lax one", name, k, v, lv),
                                &case.bytes,
                            );
                            return;
                        }
                    } else if *k == "ether.ety" || *k == "ip.num" {
                        rep.violation(
                            &format!("strict_ok_lax_accessor_missing|{}|{}", name, k),
                            format!("{}: strict result answers {} = {}, the lax one does not answer", name, k, v),
                            &case.bytes,
                        );
                        return;
                    }
                }
                if l.acc.iter().any(|x| x.0 == "views_consistent" && x.1 == 0) {
                    rep.violation(
                        &format!("lax_views_inconsistent|{}", name),
                        format!("{}: LaxNetSlice::ip_payload_ref / vlan() disagree with the fields they are views of", name),
                        &case.bytes,
                    );
                    return;
                }
                if !s.acc.is_empty() {
                    rep.count("strict_ok_lax_accessors_same");
                }
                rep.count("strict_ok_lax_same");
            }
            Some(e) => {
                rep.count("strict_err_cases");
                // the only case where lax stays silent although no documented relaxation applies:
                // an IP ether type in front of the other IP version
                if let NErr::Content(c) = e {
                    if (c == "ip.BadVersion(4)" || c == "ip.BadVersion(6)")
                        && l.out.err.is_none()
                        && l.out.stop.is_none()
                        && !matches!(case.start, Start::Ip)
                    {
                        rep.violation(
                            &format!("ethertype_ip_version_mismatch_not_flagged|{}", name),
                            format!(
                                "{}: strict parsing fails with {} (ether type announces the other IP version) but lax parsing decodes the packet by its version nibble and records no stop error",
                                name, c
                            ),
                            &case.bytes,
                        );
                    }
                }
            }
        }
    }

    fn ip_level(&mut self, rep: &mut Report, bytes: &[u8]) {
        for (lax_e, strict_e) in [
            (IpEntry::LaxIpSlice, Some(IpEntry::IpSlice)),
            (IpEntry::LaxIpv4Slice, Some(IpEntry::Ipv4Slice)),
            (IpEntry::LaxIpv6Slice, Some(IpEntry::Ipv6Slice)),
            (IpEntry::HdrsFromSliceLax, Some(IpEntry::HdrsFromSlice)),
            (IpEntry::HdrsFromIpv4SliceLax, Some(IpEntry::HdrsFromIpv4Slice)),
            (IpEntry::HdrsFromIpv6SliceLax, Some(IpEntry::HdrsFromIpv6Slice)),
        ] {
            rep.evals += 1;
            rep.count(&format!("entry.{}", lax_e.name()));
            shell::progress_entry(lax_e.id());
            let res = shell::guarded(|| {
                let mut cx = Cx::new(bytes);
                let l = iplevel::decode(lax_e, bytes, &mut cx, false);
                let s = strict_e.map(|e| iplevel::decode(e, bytes, &mut cx, false));
                (l, s)
            });
            let (l, s) = match res {
                Ok(x) => x,
                Err(p) => {
                    note_abnormal(rep, lax_e.name(), &p);
                    continue;
                }
            };
            let mut r = rdecode(bytes, lax_e.start(), Mode::Lax, lax_e.ext_mode());
            r.layers.retain(|l| !matches!(l.kind, Kind::Udp | Kind::Tcp | Kind::Icmp4 | Kind::Icmp6));
            if let Some(f) = &r.fault {
                if matches!(f.kind, Kind::Udp | Kind::Tcp | Kind::Icmp4 | Kind::Icmp6) {
                    r.fault = None;
                }
            }
            // the payload of an IP level entry point is the IP payload
            if let Some(ipl) = r.layers.iter().find(|l| matches!(l.kind, Kind::Ipv4 | Kind::Ipv6)) {
                let off = ipl.get("~pay_off").unwrap_or(0) as usize;
                let len = ipl.get("~pay_len").unwrap_or(0) as usize;
                let mut p = RPayload::new("ip", off, len);
                p.num = ipl.get("pay_num").map(|v| v as u16);
                p.src = ipl.get("pay_src").map(Src::from_u);
                p.incomplete = ipl.get("~incomplete").map(|v| v == 1);
                p.fragmented = ipl.get("fragmented").map(|v| v == 1);
                r.payload = p;
            }
            judge_lax(rep, lax_e.name(), bytes, &r, &l.out, &l.pay, lax_e.is_struct(), false);
            if let (Some(s), Some(se)) = (&s, strict_e) {
                if let (Some(serr), Some((lerr, _))) = (&s.out.err, &l.out.stop) {
                    let rs = rdecode(bytes, se.start(), Mode::Strict, se.ext_mode());
                    same_fault_same_record(rep, lax_e.name(), bytes, &rs, &r, serr, lerr);
                }
            }
            if let Some(s) = s {
                if s.out.err.is_none() {
                    rep.count("strict_ok_cases");
                    let same = l.out.err.is_none()
                        && l.out.stop.is_none()
                        && diff_layers("strict", &s.out.layers, "lax", &strip_lax(&l.out.layers)).is_none()
                        && s.pay.off == l.pay.off
                        && s.pay.len == l.pay.len
                        && s.pay.num == l.pay.num
                        && l.pay.incomplete != Some(true);
                    if same {
                        rep.count("strict_ok_lax_same");
                    } else {
                        rep.violation(
                            &format!("strict_ok_lax_differs|{}", lax_e.name()),
                            format!(
                                "{}: strict sibling succeeds but the lax result differs: strict {} {:?} lax {} {:?} stop {:?}",
                                lax_e.name(),
                                s.out.signature(),
                                s.pay,
                                l.out.signature(),
                                l.pay,
                                l.out.stop
                            ),
                            bytes,
                        );
                    }
                }
            }
            if l.out.stop.is_some() || l.pay.incomplete == Some(true) {
                rep.sig(&format!("{}|{}|{:?}", lax_e.name(), l.out.signature(), l.pay.incomplete));
            }
        }
    }

    /// lax single-layer decoders: LaxMacsecSlice, UdpSlice::from_slice_lax and the extension
    /// header walkers
    fn single(&mut self, rep: &mut Report, rng: &mut Prng) {
        // MACsec
        {
            let (_, inner) = gen::gen_net(rng, gen::Lie::None);
            let (_, b) = gen::wrap_macsec(rng, 0x0800, inner, gen::Lie::Any);
            let mut bytes = b.bytes;
            if rng.chance(1, 2) && !bytes.is_empty() {
                bytes.truncate(rng.usize_below(bytes.len()));
            }
            rep.evals += 1;
            rep.count("entry.LaxMacsecSlice::from_slice");
            let res = shell::guarded(|| {
                let mut cx = Cx::new(&bytes);
                match LaxMacsecSlice::from_slice(&bytes) {
                    Ok(m) => Ok(observe::l_lax_macsec(&mut cx, &m)),
                    Err(e) => Err(observe::n_macsec_slice_error(&e)),
                }
            });
            let mut r = rdecode(&bytes, Start::EtherType(ety::MACSEC), Mode::Lax, ExtMode::Slice);
            r.layers.retain(|l| l.kind == Kind::Macsec);
            r.layers.truncate(1);
            let first_fault = r.fault.as_ref().map(|f| f.kind == Kind::Macsec && f.off == 0).unwrap_or(false);
            match res {
                Ok(Ok(l)) => {
                    if first_fault {
                        rep.violation(
                            "lax_accepts_bad_first_header|LaxMacsecSlice::from_slice|Macsec",
                            format!("LaxMacsecSlice::from_slice: Ok although {}", r.fault.as_ref().unwrap().describe()),
                            &bytes,
                        );
                    } else if let Some((sig, d)) = diff_layers("reference", &r.layers, "etherparse", &[l]) {
                        rep.violation(
                            &format!("lax_layers_differ|LaxMacsecSlice::from_slice|{}", sig),
                            format!("LaxMacsecSlice::from_slice: {}", d),
                            &bytes,
                        );
                    } else {
                        rep.count("lax.single_agree");
                        if r.layers[0].get("~incomplete") == Some(1) {
                            rep.count("lax.incomplete_true.Macsec");
                        }
                    }
                }
                Ok(Err(e)) => {
                    if first_fault && r.fault.as_ref().unwrap().accepts_class(&e) {
                        rep.count("lax.single_agree");
                    } else {
                        rep.violation(
                            &format!("lax_wrong_error|LaxMacsecSlice::from_slice|Macsec|{}", e.class()),
                            format!("LaxMacsecSlice::from_slice: Err({:?}); reference fault {:?}", e, r.fault.as_ref().map(|f| f.describe())),
                            &bytes,
                        );
                    }
                }
                Err(p) => note_abnormal(rep, "LaxMacsecSlice::from_slice", &p),
            }
        }
        // UDP
        {
            let b = gen::gen_udp(rng, gen::Lie::Any);
            let mut bytes = b.bytes;
            if rng.chance(1, 3) {
                let n = rng.range(1, 9) as usize;
                bytes.extend_from_slice(&rng.bytes(n));
            }
            if rng.chance(1, 3) && !bytes.is_empty() {
                bytes.truncate(rng.usize_below(bytes.len()));
            }
            rep.evals += 1;
            rep.count("entry.UdpSlice::from_slice_lax");
            let res = shell::guarded(|| {
                let mut cx = Cx::new(&bytes);
                match UdpSlice::from_slice_lax(&bytes) {
                    Ok(u) => Ok(observe::l_udp(&mut cx, &u)),
                    Err(e) => Err(observe::nlen(&e)),
                }
            });
            let r = rdecode(&bytes, Start::Transport(17), Mode::Lax, ExtMode::Slice);
            match res {
                Ok(Ok(l)) => {
                    if r.fault.is_some() {
                        rep.violation(
                            "lax_accepts_bad_first_header|UdpSlice::from_slice_lax|Udp",
                            format!("UdpSlice::from_slice_lax: Ok although {}", r.fault.as_ref().unwrap().describe()),
                            &bytes,
                        );
                    } else if let Some((sig, d)) = diff_layers("reference", &r.layers, "etherparse", &[l]) {
                        rep.violation(
                            &format!("lax_layers_differ|UdpSlice::from_slice_lax|{}", sig),
                            format!("UdpSlice::from_slice_lax: {}", d),
                            &bytes,
                        );
                    } else {
                        rep.count("lax.single_agree");
                    }
                }
                Ok(Err(e)) => {
                    if r.fault.as_ref().map(|f| f.accepts_class(&e)).unwrap_or(false) {
                        rep.count("lax.single_agree");
                    } else {
                        rep.violation(
                            &format!("lax_wrong_error|UdpSlice::from_slice_lax|Udp|{}", e.class()),
                            format!("UdpSlice::from_slice_lax: Err({:?}); reference fault {:?}", e, r.fault.as_ref().map(|f| f.describe())),
                            &bytes,
                        );
                    }
                }
                Err(p) => note_abnormal(rep, "UdpSlice::from_slice_lax", &p),
            }
        }
        // extension chains (IPv6 slice + struct walkers, IPv4 walkers)
        {
            let full = gen::gen_ipv6(rng, gen::Lie::Any);
            if full.bytes.len() < 40 {
                return;
            }
            let first = full.bytes[6];
            let mut bytes = full.bytes[40..].to_vec();
            if rng.chance(1, 2) && !bytes.is_empty() {
                bytes.truncate(rng.usize_below(bytes.len()));
            }
            for struct_mode in [false, true] {
                let name = if struct_mode {
                    "Ipv6Extensions::from_slice_lax"
                } else {
                    "Ipv6ExtensionsSlice::from_slice_lax"
                };
                rep.evals += 1;
                rep.count(&format!("entry.{}", name));
                let res = shell::guarded(|| {
                    let mut cx = Cx::new(&bytes);
                    let mut layers = Vec::new();
                    if struct_mode {
                        let (e, num, rest, stop) = Ipv6Extensions::from_slice_lax(IpNumber(first), &bytes);
                        // reuse the struct adapter through a dummy IPv6 header
                        let mut tmp = Vec::new();
                        observe::ls_ipv6_hdr(&Ipv6Header::default(), &e, &mut tmp);
                        tmp.remove(0);
                        layers = tmp;
                        (layers, num.0, cx.off(rest, "rest"), rest.len(), stop.map(|(e, l)| (observe::n_ipv6_exts_slice_error(&e), observe::lay(l))))
                    } else {
                        let (e, num, rest, stop) = Ipv6ExtensionsSlice::from_slice_lax(IpNumber(first), &bytes);
                        observe::ipv6_ext_layers(&mut cx, &e, &mut layers);
                        (layers, num.0, cx.off(rest, "rest"), rest.len(), stop.map(|(e, l)| (observe::n_ipv6_exts_slice_error(&e), observe::lay(l))))
                    }
                });
                let r = rdecode(
                    &bytes,
                    Start::Ext(first),
                    Mode::Lax,
                    if struct_mode { ExtMode::Struct } else { ExtMode::Slice },
                );
                match res {
                    Ok((layers, _num, rest_off, rest_len, stop)) => {
                        let want = if struct_mode {
                            canonical_ext_order(&to_header_image(&r.layers))
                        } else {
                            r.layers.clone()
                        };
                        let consumed: usize = r.layers.iter().map(|l| l.get("len").unwrap_or(8) as usize).sum();
                        if let Some((sig, d)) = diff_layers("reference", &want, "etherparse", &layers) {
                            rep.violation(&format!("lax_layers_differ|{}|{}", name, sig), format!("{}: {}", name, d), &bytes);
                        } else if rest_off != consumed || rest_len != bytes.len() - consumed {
                            rep.violation(
                                &format!("payload|{}|rest|range", name),
                                format!("{}: rest @{}+{} but the validated headers end at {}", name, rest_off, rest_len, consumed),
                                &bytes,
                            );
                        } else {
                            match (&r.fault, &stop) {
                                (None, None) => rep.count("lax.single_agree"),
                                (Some(f), Some((e, l))) if f.accepts_class(e) && f.stop_layers.contains(l) => {
                                    rep.count("lax.single_agree");
                                    rep.count(&format!("lax.stop.{:?}", f.kind));
                                }
                                _ => rep.violation(
                                    &format!("lax_wrong_stop_error|{}|{:?}", name, r.fault.as_ref().map(|f| f.kind)),
                                    format!("{}: stop {:?}; reference fault {:?}", name, stop, r.fault.as_ref().map(|f| f.describe())),
                                    &bytes,
                                ),
                            }
                        }
                    }
                    Err(p) => note_abnormal(rep, name, &p),
                }
            }
        }
    }
}

impl Monitor for C05 {
    fn engines(&self, tier: Tier) -> Vec<(&'static str, u64)> {
        vec![
            ("clean", tier.pick(400000, 40000000)),
            ("hostile", tier.pick(3000000, 400000000)),
            ("sweep", tier.pick(40000, 4000000)),
            ("iplevel", tier.pick(1000000, 100000000)),
            ("single", tier.pick(1000000, 100000000)),
            ("corpus", tier.pick(400_000, 8_000_000)),
            ("big", tier.pick(30_000, 1_500_000)),
            ("bytesweep", tier.pick(5_000, 300_000)),
            ("wordsweep", tier.pick(64, 4_000)),
            ("quoted", tier.pick(300_000, 30_000_000)),
        ]
    }

    fn run_case(&mut self, engine: &str, idx: u64, rng: &mut Prng, rep: &mut Report) {
        match engine {
            "corpus" => match gen::corpus::case(idx, rng) {
                Some(case) => {
                    rep.count("corpus_cases");
                    self.pair(rep, &case, Family::Sliced, Family::LaxSliced);
                    self.pair(rep, &case, Family::Headers, Family::LaxHeaders);
                    if case.start == Start::Ip {
                        self.ip_level(rep, &case.bytes);
                    }
                }
                None => rep.selfcheck_fail("corpus file missing".into()),
            },
            "wordsweep" => {
                gen::wordsweep(rng, |c| {
                    self.pair(rep, c, Family::Sliced, Family::LaxSliced);
                    self.pair(rep, c, Family::Headers, Family::LaxHeaders);
                });
                rep.count("wordsweeps");
            }
            "bytesweep" => {
                for c in gen::bytesweep(rng) {
                    rep.count("bytesweep_cases");
                    self.pair(rep, &c, Family::Sliced, Family::LaxSliced);
                    self.pair(rep, &c, Family::Headers, Family::LaxHeaders);
                }
            }
            "clean" | "hostile" | "big" => {
                let o = if engine == "clean" || (engine == "big" && rng.bool()) { GenOpts::clean() } else { GenOpts::hostile() };
                gen::set_big(engine == "big");
                let case = gen::gen_case(rng, &o);
                gen::set_big(false);
                if engine == "big" && case.bytes.len() > 60_000 {
                    rep.count("big_cases");
                }
                self.pair(rep, &case, Family::Sliced, Family::LaxSliced);
                self.pair(rep, &case, Family::Headers, Family::LaxHeaders);
            }
            "sweep" => {
                // the ICMP-quoted-packet use case: every truncation of a packet
                let mut o = GenOpts::clean();
                if rng.chance(1, 3) {
                    o.lie = gen::Lie::Any;
                }
                let base = gen::gen_case(rng, &o);
                let n = base.bytes.len().min(300);
                for cut in 0..=n {
                    let c = Case {
                        bytes: base.bytes[..cut].to_vec(),
                        start: base.start,
                        recipe: None,
                        desc: format!("{}+cut{}", base.desc, cut),
                    };
                    self.pair(rep, &c, Family::Sliced, Family::LaxSliced);
                    self.pair(rep, &c, Family::Headers, Family::LaxHeaders);
                }
            }
            "iplevel" => {
                let mut o = GenOpts::hostile();
                o.start = StartSel::Ip;
                let case = gen::gen_case(rng, &o);
                self.ip_level(rep, &case.bytes);
            }
            "single" => self.single(rep, rng),
            "quoted" => self.quoted(rep, rng),
            _ => {}
        }
    }
}

impl C05 {
    /// The use case lax decoding exists for: the packet quoted in an ICMPv6 error message. The
    /// typed views (`icmpv6::{DestinationUnreachable,PacketTooBig,TimeExceeded,ParameterProblem}
    /// PayloadSlice`) each carry their own `as_lax_ip_slice()`; it has to answer exactly like
    /// `LaxIpSlice::from_slice` on the quoted bytes (which the other engines judge against R), and
    /// the quoted bytes are everything behind the 8 octet ICMPv6 header.
    fn quoted(&mut self, rep: &mut Report, rng: &mut Prng) {
        let quoted: Vec<u8> = if rng.chance(1, 3) {
            // complete packets of more than the IPv6 minimum MTU (an ICMPv6 error quotes "as much
            // as fits", but nothing forbids a longer message)
            let pl = rng.range(1000, 3000) as usize;
            let mut b: Vec<u8> = Vec::with_capacity(pl + 48);
            if rng.bool() {
                let total = (20 + 8 + pl) as u16;
                b.extend_from_slice(&[0x45, rng.u8()]);
                b.extend_from_slice(&total.to_be_bytes());
                b.extend_from_slice(&rng.bytes(4));
                b[6] &= 0x40;
                b[7] = 0;
                b.extend_from_slice(&[rng.u8(), 17, rng.u8(), rng.u8()]);
                b.extend_from_slice(&rng.bytes(8));
            } else {
                b.extend_from_slice(&[0x60, 0, 0, 0]);
                b.extend_from_slice(&((8 + pl) as u16).to_be_bytes());
                b.extend_from_slice(&[17, rng.u8()]);
                b.extend_from_slice(&rng.bytes(32));
            }
            b.extend_from_slice(&rng.bytes(4));
            b.extend_from_slice(&((8 + pl) as u16).to_be_bytes());
            b.extend_from_slice(&rng.bytes(2));
            b.extend_from_slice(&rng.bytes(pl));
            if rng.chance(1, 3) {
                let cut = rng.usize_below(b.len());
                b.truncate(cut);
            }
            rep.count("quoted.long_packets");
            b
        } else {
            let mut o = if rng.bool() { GenOpts::clean() } else { GenOpts::hostile() };
            o.start = StartSel::Ip;
            gen::gen_case(rng, &o).bytes
        };
        let typ = 1 + rng.below(4) as u8;
        let mut msg = vec![typ, rng.below(8) as u8];
        msg.extend_from_slice(&rng.bytes(6));
        msg.extend_from_slice(&quoted);
        rep.evals += 1;
        shell::progress_entry(560 + typ as u64);
        let res = shell::guarded(|| -> Result<(&'static str, bool, iplevel::IpOut, iplevel::IpOut), String> {
            let s = Icmpv6Slice::from_slice(&msg).map_err(|e| format!("Icmpv6Slice::from_slice: {:?}", e))?;
            let p = s.payload_slice().map_err(|e| format!("payload_slice: {:?}", e))?;
            use etherparse::icmpv6::Icmpv6PayloadSlice as P;
            let (name, inv, r) = match &p {
                P::DestinationUnreachable(v) => ("DestinationUnreachable", v.invoking_packet(), v.as_lax_ip_slice()),
                P::PacketTooBig(v) => ("PacketTooBig", v.invoking_packet(), v.as_lax_ip_slice()),
                P::TimeExceeded(v) => ("TimeExceeded", v.invoking_packet(), v.as_lax_ip_slice()),
                P::ParameterProblem(v) => ("ParameterProblem", v.invoking_packet(), v.as_lax_ip_slice()),
                // codes without a typed view
                P::Raw(_) => return Err("raw".into()),
                other => return Err(format!("type {} gives the view {:?}", typ, other)),
            };
            let whole = inv.as_ptr() as usize == msg.as_ptr() as usize + 8 && inv.len() == msg.len() - 8;
            let a = iplevel::lax_ip_result(r, &mut Cx::new(inv), false);
            let b = iplevel::decode(IpEntry::LaxIpSlice, inv, &mut Cx::new(inv), false);
            Ok((name, whole, a, b))
        });
        match res {
            Err(p) => note_abnormal(rep, "icmpv6 as_lax_ip_slice", &p),
            Ok(Err(e)) if e == "raw" => rep.count("quoted.code_without_typed_view"),
            Ok(Err(e)) => rep.selfcheck_fail(format!("quoted: {}", e)),
            Ok(Ok((name, whole, a, b))) => {
                rep.count(&format!("quoted.{}", name));
                if !whole {
                    rep.violation(
                        &format!("quoted|{}|invoking_packet_range", name),
                        format!("{}PayloadSlice::invoking_packet() is not the {} octets behind the ICMPv6 header", name, msg.len() - 8),
                        &msg,
                    );
                    return;
                }
                if a.out != b.out || a.pay != b.pay {
                    rep.violation(
                        &format!("quoted|{}|as_lax_ip_slice_differs", name),
                        format!(
                            "{}PayloadSlice::as_lax_ip_slice() = {:?} / {:?} but LaxIpSlice::from_slice(invoking_packet()) = {:?} / {:?}",
                            name, a.out, a.pay, b.out, b.pay
                        ),
                        &msg,
                    );
                    return;
                }
                if b.out.err.is_none() {
                    rep.count("quoted.decoded_same_as_lax_ip_slice");
                    if b.pay.incomplete == Some(true) {
                        rep.count("quoted.incomplete_flagged");
                    }
                } else {
                    rep.count("quoted.rejected_same_as_lax_ip_slice");
                }
            }
        }
    }
}
