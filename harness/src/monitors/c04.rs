//! C04 — decoding into header structs agrees with slicing.
//!
//! PacketHeaders vs SlicedPacket and LaxPacketHeaders vs LaxSlicedPacket on the same bytes:
//! same link / link extension / network / transport headers (the slicing result converted with
//! the same rules `to_header()` uses), the remaining payload covers the same byte range, same
//! verdict. The permitted difference (an IPv6 extension header that no longer fits the struct
//! ends struct decoding there) is *computed*: the reference decoder walks the chain in struct
//! mode and in slice mode; only if the two walks differ the struct result is judged against the
//! struct-mode walk instead of against the slicing result.

use super::common::*;
use super::{Monitor, Tier};
use crate::gen::{self, Case, GenOpts};
use crate::neutral::*;
use crate::observe::entry::Family;
use crate::observe::whole::{to_header_image, Whole};
use crate::prng::Prng;
use crate::refmodel::pkt::{ExtMode, Mode, RDecoded, Start};
use crate::report::Report;

pub struct C04 {}

impl C04 {
    pub fn new() -> C04 {
        C04 {}
    }
}

fn image(layers: &[NLayer]) -> Vec<NLayer> {
    canonical_ext_order(&to_header_image(layers))
}

/// does the extension chain fit the fixed struct, i.e. do the two walks of the reference
/// decoder agree (layers and fault)?
fn chain_fits(rs: &RDecoded, rh: &RDecoded) -> bool {
    image(&rs.layers) == image(&rh.layers)
        && rs.fault.as_ref().map(|f| (f.kind, f.off)) == rh.fault.as_ref().map(|f| (f.kind, f.off))
        && rs.payload.off == rh.payload.off
        && rs.payload.kind == rh.payload.kind
}

impl C04 {
    fn pair(&mut self, rep: &mut Report, case: &Case, sf: Family, hf: Family) {
        if !sf.supports(case.start) || !hf.supports(case.start) {
            return;
        }
        let hname = hf.name(case.start);
        let sname = sf.name(case.start);
        rep.evals += 1;
        rep.count(&format!("entry.{}", hname));
        let s = match run_family(sf, case.start, &case.bytes, false) {
            Ok(d) => d.whole,
            Err(p) => {
                note_abnormal(rep, sname, &p);
                return;
            }
        };
        let h = match run_family(hf, case.start, &case.bytes, false) {
            Ok(d) => d.whole,
            Err(p) => {
                note_abnormal(rep, hname, &p);
                return;
            }
        };
        let mode = if hf.is_lax() { Mode::Lax } else { Mode::Strict };
        let rs = rdecode(&case.bytes, case.start, mode, ExtMode::Slice);
        let rh = rdecode(&case.bytes, case.start, mode, ExtMode::Struct);
        if chain_fits(&rs, &rh) {
            rep.count("chain_fits");
            self.same(rep, case, hname, sname, &s, &h, &rs);
        } else {
            rep.count("permitted_difference_cases");
            self.vs_struct_walk(rep, case, hname, &rh, &h);
        }
        if nontrivial(&h.out) || h.out.err.is_some() {
            rep.sig(&format!("{}|{}|{}", hname, h.out.signature(), h.pay.kind));
        }
        if rep.want_sample() && h.out.layers.len() >= 3 && case.bytes.len() < 160 {
            rep.sample(sample(
                &case.desc,
                case.start,
                &case.bytes,
                &format!("{}: {} payload {}@{}+{}", hname, h.out.signature(), h.pay.kind, h.pay.off, h.pay.len),
            ));
        }
    }

    fn same(&mut self, rep: &mut Report, case: &Case, hname: &str, sname: &str, s: &Whole, h: &Whole, rs: &RDecoded) {
        // verdict
        match (&s.out.err, &h.out.err) {
            (None, None) => {}
            (Some(_), Some(_)) => {
                rep.count("both_reject");
                return;
            }
            (Some(e), None) => {
                rep.violation(
                    &format!("verdict|{}|struct_accepts|{}", hname, e.class()),
                    format!("{} accepts the input (layers {}) but {} rejects it with {:?}", hname, h.out.kinds(), sname, e),
                    &case.bytes,
                );
                return;
            }
            (None, Some(e)) => {
                rep.violation(
                    &format!("verdict|{}|struct_rejects|{}", hname, e.class()),
                    format!("{} rejects the input with {:?} but {} accepts it (layers {})", hname, e, sname, s.out.kinds()),
                    &case.bytes,
                );
                return;
            }
        }
        // headers
        let img = image(&s.out.layers);
        if let Some((sig, detail)) = diff_layers("slicing(to_header)", &img, "struct", &h.out.layers) {
            rep.violation(
                &format!("headers|{}|{}", hname, sig),
                format!("{} vs {}: {}", hname, sname, detail),
                &case.bytes,
            );
            return;
        }
        // stop errors (lax)
        match (&s.out.stop, &h.out.stop) {
            (None, None) => {}
            (Some((a, la)), Some((b, lb))) => {
                // two coexisting faults of the same layer may be reported in either order
                let both_truthful = rs
                    .fault
                    .as_ref()
                    .map(|f| f.accepts_class(a) && f.accepts_class(b) && f.stop_layers.contains(la) && f.stop_layers.contains(lb))
                    .unwrap_or(false);
                if (a.class() != b.class() || la != lb) && !both_truthful {
                    rep.violation(
                        &format!("stop|{}|{}|{:?}|{}|{:?}", hname, a.class(), la, b.class(), lb),
                        format!("{} stops with {:?}@{:?} but {} with {:?}@{:?}", sname, a, la, hname, b, lb),
                        &case.bytes,
                    );
                    return;
                }
                rep.count("same_stop");
            }
            (a, b) => {
                rep.violation(
                    &format!("stop|{}|presence|{}", hname, a.is_some()),
                    format!("{} stop error {:?} but {} stop error {:?}", sname, a, hname, b),
                    &case.bytes,
                );
                return;
            }
        }
        // payload range
        if s.pay.kind != h.pay.kind
            || (s.pay.kind != "empty" && (s.pay.off != h.pay.off || s.pay.len != h.pay.len))
        {
            rep.violation(
                &format!("payload|{}|{}|{}", hname, s.pay.kind, h.pay.kind),
                format!(
                    "remaining payload differs: {} {}@{}+{} vs {} {}@{}+{}",
                    sname, s.pay.kind, s.pay.off, s.pay.len, hname, h.pay.kind, h.pay.off, h.pay.len
                ),
                &case.bytes,
            );
            return;
        }
        if let (Some(a), Some(b)) = (s.pay.num, h.pay.num) {
            if a != b && s.pay.kind != "sll" {
                rep.violation(
                    &format!("payload|{}|{}|num", hname, s.pay.kind),
                    format!("payload protocol differs: {} {} vs {} {}", sname, a, hname, b),
                    &case.bytes,
                );
                return;
            }
        }
        if let (Some(a), Some(b)) = (s.pay.fragmented, h.pay.fragmented) {
            if a != b {
                rep.violation(
                    &format!("payload|{}|{}|fragmented", hname, s.pay.kind),
                    format!("payload fragmentation flag differs: {} {} vs {} {}", sname, a, hname, b),
                    &case.bytes,
                );
                return;
            }
        }
        rep.count("same");
        rep.count(&format!("same.{}", h.pay.kind));
    }

    /// the chain does not fit the struct: the struct result must be what the struct-mode walk
    /// of the reference decoder prescribes (stop at the first non-fitting header, which becomes
    /// the payload's protocol; no transport)
    fn vs_struct_walk(&mut self, rep: &mut Report, case: &Case, hname: &str, rh: &RDecoded, h: &Whole) {
        match (&rh.fault, &h.out.err, &h.out.stop) {
            (None, None, None) => {}
            (Some(f), Some(e), _) if f.accepts_class(e) => {
                rep.count("permitted.both_reject");
                return;
            }
            (Some(f), None, Some((e, l))) if f.accepts_class(e) && f.stop_layers.contains(l) => {}
            (f, e, s) => {
                rep.violation(
                    &format!("permitted_difference|{}|verdict", hname),
                    format!(
                        "{}: the extension chain does not fit the struct; struct-mode walk prescribes fault {:?} but got err {:?} stop {:?}",
                        hname,
                        f.as_ref().map(|f| f.describe()),
                        e,
                        s
                    ),
                    &case.bytes,
                );
                return;
            }
        }
        let img = image(&rh.layers);
        if let Some((sig, detail)) = diff_layers("struct-mode walk", &img, "struct", &h.out.layers) {
            rep.violation(
                &format!("permitted_difference|{}|{}", hname, sig),
                format!("{}: {}", hname, detail),
                &case.bytes,
            );
            return;
        }
        let p = &rh.payload;
        if h.pay.kind != p.kind || (p.kind != "empty" && (h.pay.off != p.off || h.pay.len != p.len)) || (p.num.is_some() && h.pay.num.is_some() && p.num != h.pay.num) {
            rep.violation(
                &format!("permitted_difference|{}|payload", hname),
                format!(
                    "{}: payload {}@{}+{} num {:?}, but struct decoding must stop at the header that does not fit: {}@{}+{} num {:?}",
                    hname, h.pay.kind, h.pay.off, h.pay.len, h.pay.num, p.kind, p.off, p.len, p.num
                ),
                &case.bytes,
            );
            return;
        }
        rep.count("permitted_difference_ok");
    }
}

impl Monitor for C04 {
    fn engines(&self, tier: Tier) -> Vec<(&'static str, u64)> {
        vec![
            ("clean", tier.pick(400000, 40000000)),
            ("hostile", tier.pick(3000000, 400000000)),
            ("sweep", tier.pick(30000, 3000000)),
            ("chains", tier.pick(1000000, 100000000)),
            ("ethertype", tier.pick(65_536, 65_536 * 2)),
            ("corpus", tier.pick(400_000, 8_000_000)),
            ("api", tier.pick(400_000, 8_000_000)),
            ("big", tier.pick(30_000, 1_500_000)),
            ("bytesweep", tier.pick(5_000, 300_000)),
            ("wordsweep", tier.pick(64, 4_000)),
            ("jumbo", tier.pick(100_000, 10_000_000)),
        ]
    }

    fn run_case(&mut self, engine: &str, idx: u64, rng: &mut Prng, rep: &mut Report) {
        match engine {
            "wordsweep" => {
                gen::wordsweep(rng, |c| {
                    self.pair(rep, c, Family::Sliced, Family::Headers);
                    self.pair(rep, c, Family::LaxSliced, Family::LaxHeaders);
                });
                rep.count("wordsweeps");
            }
            "bytesweep" => {
                for c in gen::bytesweep(rng) {
                    rep.count("bytesweep_cases");
                    self.pair(rep, &c, Family::Sliced, Family::Headers);
                    self.pair(rep, &c, Family::LaxSliced, Family::LaxHeaders);
                }
            }
            "api" => {
                let mut o = if rng.bool() { GenOpts::clean() } else { GenOpts::hostile() };
                o.start = gen::StartSel::Eth;
                let case = gen::gen_case(rng, &o);
                super::api::c04_accessors(rep, &case.bytes);
            }
            "corpus" => match gen::corpus::case(idx, rng) {
                Some(case) => {
                    rep.count("corpus_cases");
                    self.pair(rep, &case, Family::Sliced, Family::Headers);
                    self.pair(rep, &case, Family::LaxSliced, Family::LaxHeaders);
                }
                None => rep.selfcheck_fail("corpus file missing".into()),
            },
            "clean" | "hostile" | "big" => {
                let mut o = if engine == "clean" || (engine == "big" && rng.bool()) { GenOpts::clean() } else { GenOpts::hostile() };
                gen::set_big(engine == "big");
                // PacketHeaders has no SLL entry point
                if rng.chance(1, 2) {
                    o.start = *rng.pick(&[gen::StartSel::Eth, gen::StartSel::EtherType, gen::StartSel::Ip]);
                }
                let case = gen::gen_case(rng, &o);
                gen::set_big(false);
                if engine == "big" && case.bytes.len() > 60_000 {
                    rep.count("big_cases");
                }
                self.pair(rep, &case, Family::Sliced, Family::Headers);
                self.pair(rep, &case, Family::LaxSliced, Family::LaxHeaders);
            }
            "sweep" => {
                let mut o = GenOpts::clean();
                o.start = *rng.pick(&[gen::StartSel::Eth, gen::StartSel::EtherType, gen::StartSel::Ip]);
                if rng.chance(1, 3) {
                    o.lie = gen::Lie::Any;
                }
                let base = gen::gen_case(rng, &o);
                let n = base.bytes.len().min(300);
                for cut in 0..=n {
                    let c = Case {
                        bytes: base.bytes[..cut].to_vec(),
                        start: base.start,
                        recipe: None,
                        desc: format!("{}+cut{}", base.desc, cut),
                    };
                    self.pair(rep, &c, Family::Sliced, Family::Headers);
                    self.pair(rep, &c, Family::LaxSliced, Family::LaxHeaders);
                }
            }
            "chains" => {
                // IPv6 with long extension chains (repetitions that do not fit the struct),
                // inner length fields that disagree with the buffer
                let lie = if rng.chance(1, 2) { gen::Lie::Any } else { gen::Lie::None };
                let b = gen::gen_ipv6(rng, lie);
                let mut bytes = b.bytes;
                if rng.chance(1, 4) {
                    let n = rng.range(1, 12) as usize;
                    bytes.extend_from_slice(&rng.bytes(n));
                }
                if rng.chance(1, 5) && !bytes.is_empty() {
                    bytes.truncate(rng.usize_below(bytes.len()));
                }
                let start = if rng.bool() { Start::Ip } else { Start::EtherType(0x86dd) };
                let case = Case {
                    bytes,
                    start,
                    recipe: None,
                    desc: b.desc,
                };
                self.pair(rep, &case, Family::Sliced, Family::Headers);
                self.pair(rep, &case, Family::LaxSliced, Family::LaxHeaders);
            }
            "jumbo" => {
                // RFC 2675 shape: IPv6 payload length 0 and a hop-by-hop header that starts with a
                // jumbo payload option (C2 04 + 32 bit length) - stating the true size, less, more
                // or nonsense. No decoder of the crate interprets the option (documented: "the
                // entire rest of the slice"), so all families must go on agreeing.
                let mut bytes = Vec::new();
                for _ in 0..64 {
                    let b = gen::gen_ipv6(rng, gen::Lie::None);
                    if b.bytes.len() >= 48 && b.bytes[6] == 0 && b.bytes[0] >> 4 == 6 {
                        bytes = b.bytes;
                        break;
                    }
                }
                if bytes.is_empty() {
                    rep.count("jumbo.no_hop_by_hop_packet_generated");
                    return;
                }
                let rest = bytes.len() - 40;
                let announced: u32 = match rng.below(8) {
                    0 => rest as u32,
                    1 => rest.saturating_sub(rng.range(1, 9) as usize) as u32,
                    2 => rest as u32 + rng.range(1, 9) as u32,
                    3 => 0,
                    4 => 8,
                    5 => rng.below(rest as u64 + 1) as u32,
                    6 => 65_536 + rng.below(16) as u32,
                    _ => rng.u32_corner(),
                };
                bytes[42] = 0xC2;
                bytes[43] = 4;
                bytes[44..48].copy_from_slice(&announced.to_be_bytes());
                if rng.chance(3, 4) {
                    bytes[4] = 0;
                    bytes[5] = 0;
                    rep.count("jumbo.payload_length_zero");
                }
                if rng.chance(1, 4) {
                    let n = rng.range(1, 12) as usize;
                    bytes.extend_from_slice(&rng.bytes(n));
                }
                rep.count("jumbo.cases");
                let inner = Case {
                    bytes,
                    start: Start::Ip,
                    recipe: None,
                    desc: format!("ipv6 jumbo option announcing {} for {} octets", announced, rest),
                };
                for start in [Start::Ip, Start::EtherType(0x86dd), Start::Eth] {
                    let mut c = Case {
                        bytes: inner.bytes.clone(),
                        start,
                        recipe: None,
                        desc: inner.desc.clone(),
                    };
                    if start == Start::Eth {
                        let mut b = rng.bytes(12);
                        b.extend_from_slice(&[0x86, 0xdd]);
                        b.extend_from_slice(&inner.bytes);
                        c.bytes = b;
                    }
                    self.pair(rep, &c, Family::Sliced, Family::Headers);
                    self.pair(rep, &c, Family::LaxSliced, Family::LaxHeaders);
                }
            }
            "ethertype" => {
                let t = (idx % 65_536) as u16;
                let variant = idx / 65_536;
                let mut body_rng = Prng::for_case(0xE8, "ethertype-body", variant + (t as u64 % 8));
                let (_, inner) = gen::gen_net(&mut body_rng, gen::Lie::None);
                let case = Case {
                    bytes: inner.bytes,
                    start: Start::EtherType(t),
                    recipe: None,
                    desc: format!("ety{:04x}:{}", t, inner.desc),
                };
                self.pair(rep, &case, Family::Sliced, Family::Headers);
                self.pair(rep, &case, Family::LaxSliced, Family::LaxHeaders);
            }
            _ => {}
        }
    }
}
