//! C08 — every header value survives encode -> decode unchanged.
//!
//! Byte direction (engine `bytes`): every accepted generated header b: v = decode(b);
//! e = to_bytes(v) = write(v) (= write_to_slice(v)); |e| = header_len = bytes consumed;
//! e equals b on all bits the format does not reserve (independent mask table in
//! observe/single.rs); decode(e) = v with an empty remainder; read(e) = v.
//! Value direction (engines `values`, `setters`): values constructed directly over the complete
//! field domain (extremes, all option / ICV / address lengths, typed ICMP/IGMP variants),
//! including grow-then-shrink setter sequences that would expose stale buffer bytes.

use super::{Monitor, Tier};
use crate::observe::builder;
use crate::observe::single::{WOut, HEADERS, WRITERS};
use crate::prng::Prng;
use crate::report::{hex, jstr, Report};
use crate::shell;
use etherparse::*;
use std::io::Cursor;

pub struct C08 {
    /// (row of HEADERS, input) for the next call of `bytes_dir` (engine `bytesweep`)
    forced: Option<(usize, Vec<u8>)>,
}

impl C08 {
    pub fn new() -> C08 {
        C08 { forced: None }
    }
}

fn hash_of<T: std::hash::Hash>(v: &T) -> u64 {
    use std::hash::Hasher;
    let mut s = std::collections::hash_map::DefaultHasher::new();
    v.hash(&mut s);
    s.finish()
}

/// types whose re-encoding is compared bit for bit (under the reserved-bit mask) with the input
fn byte_exact(name: &str) -> bool {
    !matches!(
        name,
        // typed ICMP variants deliberately normalise unused header bytes; chains of extension
        // headers are compared at value level
        "Icmpv4Header" | "Icmpv6Header" | "Ipv4Extensions" | "Ipv4Extensions(read_limited)" | "Ipv6Extensions" | "Ipv6Extensions(read_limited)" | "IpHeaders"
    )
}


/// third kind of door for the byte direction: the slice types, converted to the owned header
/// (`XSlice::from_slice(b)?.to_header()`); every one of these has its own accessor code
mod slice_doors {
    use crate::neutral::NErr;
    use crate::observe as ob;
    use crate::observe::single::Dec;
    use etherparse::*;

    pub struct Door {
        /// name of the HEADERS row whose generator, mask and re-decoders apply
        pub row: &'static str,
        pub name: &'static str,
        pub run: fn(&[u8]) -> Result<Dec, NErr>,
    }

    macro_rules! dec {
        ($h:expr) => {{
            let h = $h;
            Dec { value: format!("{:?}", h), consumed: h.header_len(), reencoded: h.to_bytes().to_vec(), header_len: h.header_len() }
        }};
    }

    pub const DOORS: &[Door] = &[
        Door { row: "Ethernet2Header", name: "Ethernet2HeaderSlice::to_header", run: |b| Ok(dec!(Ethernet2HeaderSlice::from_slice(b).map_err(|e| ob::nlen(&e))?.to_header())) },
        Door { row: "Ethernet2Header", name: "Ethernet2Slice::to_header", run: |b| Ok(dec!(Ethernet2Slice::from_slice_without_fcs(b).map_err(|e| ob::nlen(&e))?.to_header())) },
        Door { row: "LinuxSllHeader", name: "LinuxSllHeaderSlice::to_header", run: |b| Ok(dec!(LinuxSllHeaderSlice::from_slice(b).map_err(|e| ob::n_sll_slice_error(&e))?.to_header())) },
        Door { row: "LinuxSllHeader", name: "LinuxSllSlice::to_header", run: |b| Ok(dec!(LinuxSllSlice::from_slice(b).map_err(|e| ob::n_sll_slice_error(&e))?.to_header())) },
        Door { row: "SingleVlanHeader", name: "SingleVlanHeaderSlice::to_header", run: |b| Ok(dec!(SingleVlanHeaderSlice::from_slice(b).map_err(|e| ob::nlen(&e))?.to_header())) },
        Door { row: "SingleVlanHeader", name: "SingleVlanSlice::to_header", run: |b| Ok(dec!(SingleVlanSlice::from_slice(b).map_err(|e| ob::nlen(&e))?.to_header())) },
        Door { row: "MacsecHeader", name: "MacsecHeaderSlice::to_header", run: |b| Ok(dec!(MacsecHeaderSlice::from_slice(b).map_err(|e| ob::n_macsec_slice_error(&e))?.to_header())) },
        Door { row: "MacsecHeader", name: "MacsecSlice::header.to_header", run: |b| Ok(dec!(MacsecSlice::from_slice(b).map_err(|e| ob::n_macsec_slice_error(&e))?.header.to_header())) },
        Door {
            row: "ArpPacket",
            name: "ArpPacketSlice::to_packet",
            run: |b| {
                let h = ArpPacketSlice::from_slice(b).map_err(|e| ob::nlen(&e))?.to_packet();
                Ok(Dec { value: format!("{:?}", h), consumed: h.packet_len(), reencoded: h.to_bytes().to_vec(), header_len: h.packet_len() })
            },
        },
        Door { row: "Ipv4Header", name: "Ipv4HeaderSlice::to_header", run: |b| Ok(dec!(Ipv4HeaderSlice::from_slice(b).map_err(|e| ob::n_ipv4_header_slice_error(&e))?.to_header())) },
        Door { row: "Ipv6Header", name: "Ipv6HeaderSlice::to_header", run: |b| Ok(dec!(Ipv6HeaderSlice::from_slice(b).map_err(|e| ob::n_ipv6_header_slice_error(&e))?.to_header())) },
        Door { row: "IpAuthHeader", name: "IpAuthHeaderSlice::to_header", run: |b| Ok(dec!(IpAuthHeaderSlice::from_slice(b).map_err(|e| ob::n_auth_slice_error_v4(&e))?.to_header())) },
        Door { row: "Ipv6RawExtHeader", name: "Ipv6RawExtHeaderSlice::to_header", run: |b| Ok(dec!(Ipv6RawExtHeaderSlice::from_slice(b).map_err(|e| ob::nlen(&e))?.to_header())) },
        Door { row: "Ipv6FragmentHeader", name: "Ipv6FragmentHeaderSlice::to_header", run: |b| Ok(dec!(Ipv6FragmentHeaderSlice::from_slice(b).map_err(|e| ob::nlen(&e))?.to_header())) },
        Door { row: "UdpHeader", name: "UdpHeaderSlice::to_header", run: |b| Ok(dec!(UdpHeaderSlice::from_slice(b).map_err(|e| ob::nlen(&e))?.to_header())) },
        Door { row: "UdpHeader", name: "UdpSlice::to_header", run: |b| Ok(dec!(UdpSlice::from_slice(b).map_err(|e| ob::nlen(&e))?.to_header())) },
        Door { row: "UdpHeader", name: "UdpSlice(lax)::to_header", run: |b| Ok(dec!(UdpSlice::from_slice_lax(b).map_err(|e| ob::nlen(&e))?.to_header())) },
        Door { row: "TcpHeader", name: "TcpHeaderSlice::to_header", run: |b| Ok(dec!(TcpHeaderSlice::from_slice(b).map_err(|e| ob::n_tcp_slice_error(&e))?.to_header())) },
        Door { row: "TcpHeader", name: "TcpSlice::to_header", run: |b| Ok(dec!(TcpSlice::from_slice(b).map_err(|e| ob::n_tcp_slice_error(&e))?.to_header())) },
        Door { row: "Icmpv4Header", name: "Icmpv4Slice::header", run: |b| Ok(dec!(Icmpv4Slice::from_slice(b).map_err(|e| ob::nlen(&e))?.header())) },
        Door { row: "Icmpv6Header", name: "Icmpv6Slice::header", run: |b| Ok(dec!(Icmpv6Slice::from_slice(b).map_err(|e| ob::nlen(&e))?.header())) },
    ];
}

impl C08 {
    fn bytes_dir(&mut self, rep: &mut Report, rng: &mut Prng) {
        let (ti, forced_input) = match self.forced.take() {
            Some((ti, b)) => (ti, Some(b)),
            None => (rng.usize_below(HEADERS.len()), None),
        };
        let t = &HEADERS[ti];
        let mut input = match forced_input {
            Some(b) => b,
            None => (t.gen)(rng),
        };
        rep.evals += 1;
        shell::progress_entry(800 + ti as u64);
        let base_name = t.name.split('(').next().unwrap();
        // Ipv4Header::write / IpHeaders::write deliberately recompute the header checksum: compare
        // with write_raw, and give IpHeaders inputs a correct checksum to begin with
        let writer_name = if base_name == "Ipv4Header" { "Ipv4Header(write_raw)" } else { base_name };
        let writer = WRITERS.iter().find(|w| w.name == writer_name);
        if t.name == "IpHeaders" && input.len() >= 20 && input[0] >> 4 == 4 {
            let hl = 4 * (input[0] & 0x0f) as usize;
            if hl >= 20 && input.len() >= hl {
                // (the reserved flag bit is not kept by the struct, so it cannot be part of a
                // checksum the struct re-computes)
                input[6] &= 0x7f;
                let c = crate::refmodel::checksum::ipv4_header(&input[..hl]);
                input[10] = (c >> 8) as u8;
                input[11] = c as u8;
            }
        }
        // "any accepted byte string": accepted through the slice door or through the io::Read door
        let read_door = rng.chance(1, 3);
        // ... or through one of the slice types of this header
        let slice_door: Option<&slice_doors::Door> = if !read_door && rng.chance(1, 2) {
            let ds: Vec<&slice_doors::Door> = slice_doors::DOORS.iter().filter(|d| d.row == t.name).collect();
            if ds.is_empty() {
                None
            } else {
                Some(ds[rng.usize_below(ds.len())])
            }
        } else {
            None
        };
        let res = shell::guarded(|| {
            let d = if let Some(sd) = slice_door {
                match (sd.run)(&input) {
                    Ok(d) => d,
                    Err(_) => return None,
                }
            } else if read_door {
                let mut cur = Cursor::new(&input[..]);
                match (t.read)(&mut cur, &input) {
                    Ok(mut d) => {
                        d.consumed = cur.position() as usize;
                        d
                    }
                    Err(_) => return None,
                }
            } else {
                match (t.from_slice)(&input) {
                    Ok(d) => d,
                    Err(_) => return None,
                }
            };
            // second serialiser
            let written: Option<Vec<u8>> = writer.and_then(|w| {
                let mut v: Vec<u8> = Vec::new();
                match (w.write)(&input, &mut v) {
                    Some(WOut::Ok) => Some(v),
                    _ => None,
                }
            });
            // decode the re-encoded bytes again (parameter byte in front where the type needs one)
            let mut again_in: Vec<u8> = input[..t.param_bytes].to_vec();
            let enc = if d.reencoded.is_empty() { written.clone().unwrap_or_default() } else { d.reencoded.clone() };
            again_in.extend_from_slice(&enc);
            let header_end = again_in.len();
            if t.name == "IpHeaders" {
                // the decoder wants the announced payload behind the headers
                again_in.extend_from_slice(&input[d.consumed.min(input.len())..]);
            }
            let again = (t.from_slice)(&again_in);
            let (read, pos) = {
                let mut cur = Cursor::new(&again_in[..]);
                let read = (t.read)(&mut cur, &again_in);
                (read, cur.position() as usize)
            };
            Some((d, written, enc, again_in, again, read, pos, header_end))
        });
        let (d, written, enc, again_in, again, read, read_pos, header_end) = match res {
            Ok(Some(x)) => x,
            Ok(None) => {
                rep.count("bytes.rejected_inputs");
                return;
            }
            Err(p) => {
                super::common::note_abnormal(rep, t.name, &p);
                return;
            }
        };
        let door: String = match slice_door {
            Some(sd) => format!("[accepted by {}]", sd.name),
            None if read_door => "[accepted by read]".to_string(),
            None => String::new(),
        };
        let viol = |rep: &mut Report, what: &str, detail: String| {
            rep.violation(&format!("bytes|{}{}|{}", t.name, door, what), format!("{}{}: {}", t.name, door, detail), &input);
        };
        match slice_door {
            Some(sd) => rep.count(&format!("bytes.door.{}", sd.name)),
            None => rep.count(if read_door { "bytes.accepted_by_read" } else { "bytes.accepted_by_from_slice" }),
        }
        let header_part = &input[t.param_bytes..t.param_bytes + (d.consumed - t.param_bytes).min(input.len() - t.param_bytes)];
        if let Some(w) = &written {
            if !d.reencoded.is_empty() && w != &d.reencoded {
                viol(rep, "serialisers_differ", format!("to_bytes {} vs write {}", hex(&d.reencoded), hex(w)));
                return;
            }
            rep.count("bytes.two_serialisers_agree");
        }
        if enc.is_empty() && d.header_len != 0 {
            rep.count("bytes.no_serialiser_available");
            return;
        }
        if enc.len() != d.header_len {
            viol(rep, "len_vs_header_len", format!("encoded {} bytes, header_len() announces {}", enc.len(), d.header_len));
            return;
        }
        if enc.len() != d.consumed - t.param_bytes {
            viol(rep, "len_vs_consumed", format!("decoding consumed {} bytes, re-encoding gives {}", d.consumed - t.param_bytes, enc.len()));
            return;
        }
        if byte_exact(t.name) {
            let a = (t.mask)(&enc);
            let b = (t.mask)(header_part);
            if a != b {
                let first = a.iter().zip(b.iter()).position(|(x, y)| x != y);
                viol(
                    rep,
                    "reencoding_differs",
                    format!("re-encoding differs from the accepted bytes at offset {:?} (outside reserved bits): {} vs {}", first, hex(&enc), hex(header_part)),
                );
                return;
            }
            rep.count("bytes.reencoded_identical_under_mask");
        }
        match &again {
            Ok(d2) => {
                if d2.value != d.value {
                    viol(rep, "value_changed", format!("decode(encode(decode(b))) = {} but decode(b) = {}", d2.value, d.value));
                    return;
                }
                if d2.consumed != header_end {
                    viol(rep, "remainder_not_empty", format!("decoding the {} encoded bytes consumed {}", again_in.len(), d2.consumed));
                    return;
                }
            }
            Err(e) => {
                viol(rep, "reencoding_rejected", format!("the re-encoded bytes {} are rejected: {:?}", hex(&enc), e));
                return;
            }
        }
        match &read {
            Ok(r) => {
                if r.value != d.value || read_pos != header_end {
                    viol(rep, "read_differs", format!("read(encode(v)) = {} (cursor {}), v = {}", r.value, read_pos, d.value));
                    return;
                }
            }
            // `IpHeaders::from_slice` takes an IPv6 payload length of 0 as "the rest of the slice"
            // (documented); a reader has no slice length to fall back to, so the two doors
            // legitimately differ there
            Err(_) if t.name == "IpHeaders" && enc.len() >= 6 && enc[0] >> 4 == 6 && enc[4] == 0 && enc[5] == 0 => {
                rep.count("bytes.ipv6_zero_payload_len_read_not_comparable");
            }
            Err(e) => {
                viol(rep, "read_rejects_reencoding", format!("{:?}", e));
                return;
            }
        }
        rep.count("bytes.round_trips");
        rep.count(&format!("bytes.type.{}", t.name));
        rep.sig(&format!("b|{}|{}", t.name, enc.len()));
        if rep.want_sample() && enc.len() > 8 && enc.len() < 64 {
            rep.sample(format!("{{\"type\":{},\"accepted_bytes\":{},\"reencoded\":{},\"value\":{}}}", jstr(t.name), jstr(&hex(header_part)), jstr(&hex(&enc)), jstr(&d.value[..d.value.len().min(200)])));
        }
    }

    /// values constructed directly
    fn values(&mut self, rep: &mut Report, rng: &mut Prng) {
        macro_rules! rt {
            ($name:expr, $v:expr, $bytes:expr, $decode:expr) => {{
                rep.evals += 1;
                let v = $v;
                let bytes: Vec<u8> = $bytes;
                let mut with_trailer = bytes.clone();
                with_trailer.extend_from_slice(&[0xde, 0xad, 0xbe]);
                let dec = $decode(&bytes[..]);
                let dec2 = $decode(&with_trailer[..]);
                match (dec, dec2) {
                    (Some((d, rest)), Some((d2, rest2))) => {
                        if d != v || d2 != v {
                            rep.violation(&format!("values|{}|value_changed", $name), format!("{}: {:?} encodes to {} which decodes to {:?}", $name, v, hex(&bytes), d), &bytes);
                        } else if rest != 0 || rest2 != 3 {
                            rep.violation(&format!("values|{}|remainder", $name), format!("{}: remainder {} / {} (expected 0 / 3)", $name, rest, rest2), &bytes);
                        } else {
                            rep.count("values.round_trips");
                            rep.count(&format!("values.type.{}", $name));
                        }
                    }
                    _ => {
                        rep.violation(&format!("values|{}|rejected", $name), format!("{}: {:?} encodes to {} which is rejected", $name, v, hex(&bytes)), &bytes);
                    }
                }
                rep.sig(&format!("v|{}|{}", $name, bytes.len()));
            }};
        }
        let r = shell::guarded(|| {
            match rng.below(14) {
                0 => {
                    let h = Ethernet2Header {
                        source: rng.bytes(6).try_into().unwrap(),
                        destination: rng.bytes(6).try_into().unwrap(),
                        ether_type: EtherType(rng.u16_corner()),
                    };
                    let mut w = Vec::new();
                    h.write(&mut w).unwrap();
                    let mut s = [0u8; 20];
                    let rest = h.write_to_slice(&mut s).unwrap().len();
                    if w[..] != h.to_bytes()[..] || s[..14] != h.to_bytes()[..] || rest != 6 || h.header_len() != 14 {
                        rep.violation("values|Ethernet2Header|serialisers_differ", format!("{:?}", h), &w);
                    }
                    rt!("Ethernet2Header", h.clone(), h.to_bytes().to_vec(), |b| Ethernet2Header::from_slice(b).ok().map(|x| (x.0, x.1.len())));
                }
                1 => {
                    let h = SingleVlanHeader {
                        pcp: VlanPcp::try_new(rng.u8() & 7).unwrap(),
                        drop_eligible_indicator: rng.bool(),
                        vlan_id: VlanId::try_new(rng.u16_corner() & 0x0fff).unwrap(),
                        ether_type: EtherType(rng.u16_corner()),
                    };
                    rt!("SingleVlanHeader", h.clone(), h.to_bytes().to_vec(), |b| SingleVlanHeader::from_slice(b).ok().map(|x| (x.0, x.1.len())));
                }
                2 => {
                    let unmod = rng.chance(2, 3);
                    let h = MacsecHeader {
                        ptype: if unmod {
                            MacsecPType::Unmodified(EtherType(rng.u16_corner()))
                        } else {
                            *rng.pick(&[MacsecPType::Modified, MacsecPType::Encrypted, MacsecPType::EncryptedUnmodified])
                        },
                        endstation_id: rng.bool(),
                        scb: rng.bool(),
                        an: MacsecAn::try_new(rng.u8() & 3).unwrap(),
                        short_len: {
                            let mut v = rng.u8() & 0x3f;
                            if unmod && v == 1 {
                                v = 2;
                            }
                            MacsecShortLen::try_from_u8(v).unwrap()
                        },
                        packet_nr: rng.u32_corner(),
                        sci: if rng.bool() { Some(rng.next()) } else { None },
                    };
                    let mut w = Vec::new();
                    h.write(&mut w).unwrap();
                    if w[..] != h.to_bytes()[..] || w.len() != h.header_len() {
                        rep.violation("values|MacsecHeader|serialisers_differ", format!("{:?}", h), &w);
                    }
                    rt!("MacsecHeader", h.clone(), h.to_bytes().to_vec(), |b: &[u8]| MacsecHeader::from_slice(b).ok().map(|x| { let l = x.header_len(); (x, b.len() - l) }));
                }
                3 => {
                    // typed variants wherever a value has one, built from the public constants and
                    // an independent table of their numbers (linux/if_ether.h), never through the
                    // crate's own TryFrom
                    use etherparse::LinuxNonstandardEtherType as N;
                    const NONSTD: [(N, u16); 28] = [
                        (N::N802_3, 0x0001), (N::AX25, 0x0002), (N::ALL, 0x0003), (N::N802_2, 0x0004), (N::SNAP, 0x0005), (N::DDCMP, 0x0006),
                        (N::WAN_PPP, 0x0007), (N::PPP_MP, 0x0008), (N::LOCALTALK, 0x0009), (N::CAN, 0x000C), (N::CANFD, 0x000D), (N::CANXL, 0x000E),
                        (N::PPPTALK, 0x0010), (N::TR_802_2, 0x0011), (N::MOBITEX, 0x0015), (N::CONTROL, 0x0016), (N::IRDA, 0x0017), (N::ECONET, 0x0018),
                        (N::HDLC, 0x0019), (N::ARCNET, 0x001A), (N::DSA, 0x001B), (N::TRAILER, 0x001C), (N::PHONET, 0x00F5), (N::IEEE802154, 0x00F6),
                        (N::CAIF, 0x00F7), (N::XDSA, 0x00F8), (N::MAP, 0x00F9), (N::MCTP, 0x00FA),
                    ];
                    let v = match rng.below(4) {
                        0 => NONSTD[rng.usize_below(28)].1,
                        1 => *rng.pick(&[0u16, 0x000A, 0x000B, 0x000F, 0x0012, 0x0014, 0x001D, 0x00F4, 0x00FB, 0x0800, 0x86dd]),
                        _ => rng.u16_corner(),
                    };
                    let (hrd, protocol_type, hrd_no) = match rng.below(6) {
                        0 => (ArpHardwareId::NETLINK, LinuxSllProtocolType::NetlinkProtocolType(v), 824u16),
                        1 => (ArpHardwareId::IPGRE, LinuxSllProtocolType::GenericRoutingEncapsulationProtocolType(v), 778),
                        2 => (ArpHardwareId::IEEE80211_RADIOTAP, LinuxSllProtocolType::Ignored(v), 803),
                        3 => (ArpHardwareId::FRAD, LinuxSllProtocolType::Ignored(v), 770),
                        _ => (
                            ArpHardwareId::ETHERNET,
                            match NONSTD.iter().find(|x| x.1 == v) {
                                Some((c, _)) => LinuxSllProtocolType::LinuxNonstandardEtherType(*c),
                                None => LinuxSllProtocolType::EtherType(EtherType(v)),
                            },
                            1,
                        ),
                    };
                    // packet types 0..=7 (pcap LINKTYPE_LINUX_SLL): host, broadcast, multicast, otherhost, outgoing, loopback, user, kernel
                    const PT: [LinuxSllPacketType; 8] = [
                        LinuxSllPacketType::HOST, LinuxSllPacketType::BROADCAST, LinuxSllPacketType::MULTICAST, LinuxSllPacketType::OTHERHOST,
                        LinuxSllPacketType::OUTGOING, LinuxSllPacketType::LOOPBACK, LinuxSllPacketType::USER, LinuxSllPacketType::KERNEL,
                    ];
                    let ptn = rng.usize_below(8);
                    let h = LinuxSllHeader {
                        packet_type: PT[ptn],
                        arp_hrd_type: hrd,
                        sender_address_valid_length: rng.u16_corner(),
                        sender_address: rng.bytes(8).try_into().unwrap(),
                        protocol_type,
                    };
                    // the LINKTYPE_LINUX_SLL layout: ARPHRD at 2..4, protocol at 14..16, big endian
                    let hb = h.to_bytes();
                    if hb[0..2] != (ptn as u16).to_be_bytes() || hb[2..4] != hrd_no.to_be_bytes() || hb[14..16] != v.to_be_bytes() {
                        rep.violation("values|LinuxSllHeader|layout", format!("{:?} -> {}", h, hex(&hb)), &hb);
                    }
                    rep.count(&format!("values.sll_protocol_variant.{}", format!("{:?}", h.protocol_type).split('(').next().unwrap_or("")));
                    // the three serialisers: same bytes, exactly header_len() of them, the rest handed back starts behind them
                    {
                        let mut w = Vec::new();
                        h.write(&mut w).unwrap();
                        let mut s = [0xEEu8; 21];
                        let rest = h.write_to_slice(&mut s).map(|r| (r.len(), r.as_ptr() as usize)).unwrap();
                        let base = s.as_ptr() as usize;
                        if w[..] != hb[..] || s[..16] != hb[..] || s[16..] != [0xEEu8; 5] || rest != (5, base + 16) || h.header_len() != 16 {
                            rep.violation("values|LinuxSllHeader|serialisers_differ", format!("{:?}: write {} write_to_slice {} rest {:?} (slice of 21 at {:#x})", h, hex(&w), hex(&s), rest, base), &hb);
                        }
                    }
                    rt!("LinuxSllHeader", h.clone(), h.to_bytes().to_vec(), |b| LinuxSllHeader::from_slice(b).ok().map(|x| (x.0, x.1.len())));
                }
                4 => {
                    let (hl, pl) = match rng.below(4) {
                        0 => (0, 0),
                        1 => (255, 255),
                        2 => (6, 4),
                        _ => (rng.below(256) as usize, rng.below(256) as usize),
                    };
                    let h = ArpPacket::new(ArpHardwareId(rng.u16_corner()), EtherType(rng.u16_corner()), ArpOperation(rng.u16_corner()), &rng.bytes(hl), &rng.bytes(pl), &rng.bytes(hl), &rng.bytes(pl)).unwrap();
                    let mut w = Vec::new();
                    h.write(&mut w).unwrap();
                    if w[..] != h.to_bytes()[..] || w.len() != h.packet_len() {
                        rep.violation("values|ArpPacket|serialisers_differ", format!("{:?}", h), &w);
                    }
                    rt!("ArpPacket", h.clone(), h.to_bytes().to_vec(), |b: &[u8]| ArpPacket::from_slice(b).ok().map(|x| { let l = x.packet_len(); (x, b.len() - l) }));
                    if hl == 6 && pl == 4 {
                        if let Ok(e) = h.try_eth_ipv4() {
                            let back: ArpPacket = e.clone().into();
                            if e.to_bytes()[..] != h.to_bytes()[..] || back.to_bytes()[..] != h.to_bytes()[..] {
                                rep.violation("values|ArpEthIpv4Packet|bytes_differ", format!("{:?}", e), &w);
                            } else {
                                rep.count("values.type.ArpEthIpv4Packet");
                            }
                        }
                    }
                }
                5 => {
                    let mut h = match builder::rand_ip_headers(rng) {
                        IpHeaders::Ipv4(h, _) => h,
                        _ => Ipv4Header::new(0, 1, IpNumber(6), [1, 2, 3, 4], [4, 3, 2, 1]).unwrap(),
                    };
                    h.more_fragments = rng.bool();
                    h.fragment_offset = IpFragOffset::try_new(rng.u16_corner() & 0x1fff).unwrap();
                    h.protocol = IpNumber(rng.u8_corner());
                    let pl = rng.below(h.max_payload_len() as u64 + 1) as usize;
                    h.set_payload_len(if rng.chance(1, 4) { h.max_payload_len() as usize } else { pl }).unwrap();
                    // a correct header checksum belongs to a consistent value
                    h.header_checksum = h.calc_header_checksum();
                    let mut w = Vec::new();
                    h.write_raw(&mut w).unwrap();
                    let mut w2 = Vec::new();
                    h.write(&mut w2).unwrap();
                    if w[..] != h.to_bytes()[..] || w2 != w || w.len() != h.header_len() {
                        rep.violation("values|Ipv4Header|serialisers_differ", format!("{:?}", h), &w);
                    }
                    rt!("Ipv4Header", h.clone(), h.to_bytes().to_vec(), |b| Ipv4Header::from_slice(b).ok().map(|x| (x.0, x.1.len())));
                }
                6 => {
                    let h = Ipv6Header {
                        traffic_class: rng.u8_corner(),
                        flow_label: Ipv6FlowLabel::try_new(rng.u32_corner() & 0xfffff).unwrap(),
                        payload_length: rng.u16_corner(),
                        next_header: IpNumber(rng.u8_corner()),
                        hop_limit: rng.u8_corner(),
                        source: rng.bytes(16).try_into().unwrap(),
                        destination: rng.bytes(16).try_into().unwrap(),
                    };
                    let mut w = Vec::new();
                    h.write(&mut w).unwrap();
                    if w[..] != h.to_bytes()[..] {
                        rep.violation("values|Ipv6Header|serialisers_differ", format!("{:?}", h), &w);
                    }
                    rt!("Ipv6Header", h.clone(), h.to_bytes().to_vec(), |b| Ipv6Header::from_slice(b).ok().map(|x| (x.0, x.1.len())));
                }
                7 => {
                    let w = match rng.below(4) {
                        0 => 0,
                        1 => 254,
                        _ => rng.below(255) as usize,
                    };
                    let h = IpAuthHeader::new(IpNumber(rng.u8_corner()), rng.u32_corner(), rng.u32_corner(), &rng.bytes(4 * w)).unwrap();
                    let mut wr = Vec::new();
                    h.write(&mut wr).unwrap();
                    if wr[..] != h.to_bytes()[..] || wr.len() != h.header_len() {
                        rep.violation("values|IpAuthHeader|serialisers_differ", format!("{:?}", h), &wr);
                    }
                    rt!("IpAuthHeader", h.clone(), h.to_bytes().to_vec(), |b| IpAuthHeader::from_slice(b).ok().map(|x| (x.0, x.1.len())));
                }
                8 => {
                    let units = match rng.below(4) {
                        0 => 0,
                        1 => 255,
                        _ => rng.below(256) as usize,
                    };
                    let h = Ipv6RawExtHeader::new_raw(IpNumber(rng.u8_corner()), &rng.bytes(6 + 8 * units)).unwrap();
                    let mut wr = Vec::new();
                    h.write(&mut wr).unwrap();
                    if wr[..] != h.to_bytes()[..] || wr.len() != h.header_len() {
                        rep.violation("values|Ipv6RawExtHeader|serialisers_differ", format!("{:?}", h), &wr);
                    }
                    rt!("Ipv6RawExtHeader", h.clone(), h.to_bytes().to_vec(), |b| Ipv6RawExtHeader::from_slice(b).ok().map(|x| (x.0, x.1.len())));
                    let f = Ipv6FragmentHeader::new(IpNumber(rng.u8_corner()), IpFragOffset::try_new(rng.u16_corner() & 0x1fff).unwrap(), rng.bool(), rng.u32_corner());
                    rt!("Ipv6FragmentHeader", f.clone(), f.to_bytes().to_vec(), |b| Ipv6FragmentHeader::from_slice(b).ok().map(|x| (x.0, x.1.len())));
                }
                9 => {
                    let h = UdpHeader {
                        source_port: rng.u16_corner(),
                        destination_port: rng.u16_corner(),
                        length: rng.u16_corner(),
                        checksum: rng.u16_corner(),
                    };
                    rt!("UdpHeader", h.clone(), h.to_bytes().to_vec(), |b| UdpHeader::from_slice(b).ok().map(|x| (x.0, x.1.len())));
                }
                10 => {
                    let mut h = TcpHeader::new(rng.u16_corner(), rng.u16_corner(), rng.u32_corner(), rng.u16_corner());
                    h.acknowledgment_number = rng.u32_corner();
                    h.ns = rng.bool();
                    h.fin = rng.bool();
                    h.syn = rng.bool();
                    h.rst = rng.bool();
                    h.psh = rng.bool();
                    h.ack = rng.bool();
                    h.urg = rng.bool();
                    h.ece = rng.bool();
                    h.cwr = rng.bool();
                    h.checksum = rng.u16_corner();
                    h.urgent_pointer = rng.u16_corner();
                    if rng.bool() {
                        let n = rng.below(41) as usize;
                        h.set_options_raw(&rng.bytes(n)).unwrap();
                    } else {
                        let _ = h.set_options(&builder::rand_tcp_elements(rng));
                    }
                    let mut wr = Vec::new();
                    h.write(&mut wr).unwrap();
                    if wr[..] != h.to_bytes()[..] || wr.len() != h.header_len() {
                        rep.violation("values|TcpHeader|serialisers_differ", format!("{:?}", h), &wr);
                    }
                    rt!("TcpHeader", h.clone(), h.to_bytes().to_vec(), |b| TcpHeader::from_slice(b).ok().map(|x| (x.0, x.1.len())));
                }
                11 => {
                    use icmpv4::*;
                    let echo = IcmpEchoHeader { id: rng.u16_corner(), seq: rng.u16_corner() };
                    let ts = TimestampMessage {
                        id: rng.u16_corner(),
                        seq: rng.u16_corner(),
                        originate_timestamp: rng.u32_corner(),
                        receive_timestamp: rng.u32_corner(),
                        transmit_timestamp: rng.u32_corner(),
                    };
                    let du = [
                        DestUnreachableHeader::Network,
                        DestUnreachableHeader::Host,
                        DestUnreachableHeader::Protocol,
                        DestUnreachableHeader::Port,
                        DestUnreachableHeader::FragmentationNeeded { next_hop_mtu: rng.u16_corner() },
                        DestUnreachableHeader::SourceRouteFailed,
                        DestUnreachableHeader::NetworkUnknown,
                        DestUnreachableHeader::HostUnknown,
                        DestUnreachableHeader::Isolated,
                        DestUnreachableHeader::NetworkProhibited,
                        DestUnreachableHeader::HostProhibited,
                        DestUnreachableHeader::TosNetwork,
                        DestUnreachableHeader::TosHost,
                        DestUnreachableHeader::FilterProhibited,
                        DestUnreachableHeader::HostPrecedenceViolation,
                        DestUnreachableHeader::PrecedenceCutoff,
                    ];
                    let t = match rng.below(9) {
                        0 => Icmpv4Type::EchoReply(echo),
                        1 => Icmpv4Type::EchoRequest(echo),
                        2 => Icmpv4Type::DestinationUnreachable(rng.pick(&du).clone()),
                        3 => Icmpv4Type::Redirect(RedirectHeader {
                            code: *rng.pick(&[RedirectCode::RedirectForNetwork, RedirectCode::RedirectForHost, RedirectCode::RedirectForTypeOfServiceAndNetwork, RedirectCode::RedirectForTypeOfServiceAndHost]),
                            gateway_internet_address: rng.bytes(4).try_into().unwrap(),
                        }),
                        4 => Icmpv4Type::TimeExceeded(*rng.pick(&[TimeExceededCode::TtlExceededInTransit, TimeExceededCode::FragmentReassemblyTimeExceeded])),
                        5 => Icmpv4Type::ParameterProblem(match rng.below(3) {
                            0 => ParameterProblemHeader::PointerIndicatesError(rng.u8_corner()),
                            1 => ParameterProblemHeader::MissingRequiredOption,
                            _ => ParameterProblemHeader::BadLength,
                        }),
                        6 => Icmpv4Type::TimestampRequest(ts),
                        7 => Icmpv4Type::TimestampReply(ts),
                        _ => {
                            // an unassigned type (well-formed values use the typed variant wherever one exists)
                            let ty = *rng.pick(&[1u8, 2, 6, 7, 19, 40, 41, 100, 200, 255]);
                            Icmpv4Type::Unknown { type_u8: ty, code_u8: rng.u8_corner(), bytes5to8: rng.bytes(4).try_into().unwrap() }
                        }
                    };
                    let h = Icmpv4Header { icmp_type: t, checksum: rng.u16_corner() };
                    let mut wr = Vec::new();
                    h.write(&mut wr).unwrap();
                    if wr[..] != h.to_bytes()[..] || wr.len() != h.header_len() {
                        rep.violation("values|Icmpv4Header|serialisers_differ", format!("{:?}", h), &wr);
                    }
                    // (the slice decoder of timestamp messages demands the exact size: no trailer)
                    let is_ts = matches!(h.icmp_type, Icmpv4Type::TimestampRequest(_) | Icmpv4Type::TimestampReply(_));
                    if is_ts {
                        rep.evals += 1;
                        match Icmpv4Header::from_slice(&h.to_bytes()) {
                            Ok((d, rest)) if d == h && rest.is_empty() => rep.count("values.type.Icmpv4Header(timestamp)"),
                            other => rep.violation("values|Icmpv4Header|timestamp", format!("{:?} -> {:?}", h, other.map(|x| x.0)), &h.to_bytes()),
                        }
                    } else {
                        rt!("Icmpv4Header", h.clone(), h.to_bytes().to_vec(), |b| Icmpv4Header::from_slice(b).ok().map(|x| (x.0, x.1.len())));
                    }
                }
                12 => {
                    use icmpv6::*;
                    let echo = IcmpEchoHeader { id: rng.u16_corner(), seq: rng.u16_corner() };
                    let t = match rng.below(12) {
                        0 => Icmpv6Type::EchoRequest(echo),
                        1 => Icmpv6Type::EchoReply(echo),
                        2 => Icmpv6Type::DestinationUnreachable(*rng.pick(&[DestUnreachableCode::NoRoute, DestUnreachableCode::Prohibited, DestUnreachableCode::BeyondScope, DestUnreachableCode::Address, DestUnreachableCode::Port, DestUnreachableCode::SourceAddressFailedPolicy, DestUnreachableCode::RejectRoute])),
                        3 => Icmpv6Type::PacketTooBig { mtu: rng.u32_corner() },
                        4 => Icmpv6Type::TimeExceeded(*rng.pick(&[TimeExceededCode::HopLimitExceeded, TimeExceededCode::FragmentReassemblyTimeExceeded])),
                        5 => Icmpv6Type::ParameterProblem(ParameterProblemHeader {
                            code: *rng.pick(&[ParameterProblemCode::ErroneousHeaderField, ParameterProblemCode::UnrecognizedNextHeader, ParameterProblemCode::UnrecognizedIpv6Option]),
                            pointer: rng.u32_corner(),
                        }),
                        6 => Icmpv6Type::RouterSolicitation,
                        7 => Icmpv6Type::NeighborSolicitation,
                        8 => Icmpv6Type::Redirect,
                        9 => match Icmpv6Header::from_slice(&[134, 0, 0, 0, rng.u8(), rng.u8() & 0xc0, rng.u8(), rng.u8()]) {
                            Ok((h, _)) => h.icmp_type,
                            Err(_) => Icmpv6Type::RouterSolicitation,
                        },
                        10 => match Icmpv6Header::from_slice(&[136, 0, 0, 0, rng.u8() & 0xe0, 0, 0, 0]) {
                            Ok((h, _)) => h.icmp_type,
                            Err(_) => Icmpv6Type::NeighborSolicitation,
                        },
                        _ => {
                            let ty = *rng.pick(&[0u8, 5, 99, 102, 126, 140, 150, 200, 254]);
                            Icmpv6Type::Unknown { type_u8: ty, code_u8: rng.u8_corner(), bytes5to8: rng.bytes(4).try_into().unwrap() }
                        }
                    };
                    let h = Icmpv6Header { icmp_type: t, checksum: rng.u16_corner() };
                    let mut wr = Vec::new();
                    h.write(&mut wr).unwrap();
                    if wr[..] != h.to_bytes()[..] || wr.len() != h.header_len() {
                        rep.violation("values|Icmpv6Header|serialisers_differ", format!("{:?}", h), &wr);
                    }
                    rt!("Icmpv6Header", h.clone(), h.to_bytes().to_vec(), |b| Icmpv6Header::from_slice(b).ok().map(|x| (x.0, x.1.len())));
                }
                _ => {
                    // IpHeaders / extension sets linked consistently
                    let mut h = builder::rand_ip_headers(rng);
                    let n = *rng.pick(&[6u8, 17, 1, 58, 59, 253]);
                    h.set_next_headers(IpNumber(n));
                    let _ = h.set_payload_len(rng.below(1000) as usize);
                    if let IpHeaders::Ipv4(x, _) = &mut h {
                        x.header_checksum = x.calc_header_checksum();
                    }
                    let mut wr: Vec<u8> = Vec::new();
                    rep.evals += 1;
                    match h.write(&mut wr) {
                        Ok(()) => {
                            if wr.len() != h.header_len() {
                                rep.violation("values|IpHeaders|len_vs_header_len", format!("{:?}: {} vs {}", h, wr.len(), h.header_len()), &wr);
                            }
                            // decode needs the announced payload behind the headers
                            let pl = match &h {
                                IpHeaders::Ipv4(x, _) => x.total_len as usize - x.header_len(),
                                IpHeaders::Ipv6(x, _) => x.payload_length as usize,
                            };
                            let ext = h.header_len() - match &h {
                                IpHeaders::Ipv4(x, _) => x.header_len(),
                                _ => 40,
                            };
                            let mut full = wr.clone();
                            full.extend(std::iter::repeat(0x11u8).take(pl.saturating_sub(ext)));
                            match IpHeaders::from_slice(&full) {
                                Ok((d, p)) => {
                                    // a fragment header that does not fragment etc. is kept; the
                                    // payload protocol must be n
                                    if d != h || p.ip_number.0 != n {
                                        rep.violation("values|IpHeaders|value_changed", format!("{:?} -> {:?} / {}", h, d, p.ip_number.0), &full);
                                    } else {
                                        rep.count("values.round_trips");
                                        rep.count("values.type.IpHeaders");
                                    }
                                }
                                Err(e) => rep.violation("values|IpHeaders|rejected", format!("{:?} -> {:?}", h, e), &full),
                            }
                        }
                        Err(e) => rep.violation("values|IpHeaders|write_failed", format!("{:?} -> {:?}", h, e), &[]),
                    }
                    rep.sig(&format!("v|IpHeaders|{}", wr.len()));
                }
            }
        });
        if let Err(p) = r {
            if p.location().contains("etherparse/src/") {
                super::common::note_abnormal(rep, "value round trip", &p);
            } else {
                rep.selfcheck_fail(format!("harness panic: {}", p.0));
            }
        }
    }

    /// grow-then-shrink setter sequences: stale buffer bytes must not leak into encodings or equality
    fn setters(&mut self, rep: &mut Report, rng: &mut Prng) {
        let r = shell::guarded(|| {
            rep.evals += 4;
            // IpAuthHeader::set_raw_icv
            let n_big = 4 * rng.range(1, 254) as usize;
            let big = rng.bytes(n_big);
            let n_small = 4 * rng.below(big.len() as u64 / 4 + 1) as usize;
            let small = rng.bytes(n_small);
            let mut a = IpAuthHeader::new(IpNumber(6), 1, 2, &big).unwrap();
            a.set_raw_icv(&small).unwrap();
            let fresh = IpAuthHeader::new(IpNumber(6), 1, 2, &small).unwrap();
            if a != fresh || a.to_bytes() != fresh.to_bytes() || a.header_len() != fresh.header_len() || IpAuthHeader::from_slice(&a.to_bytes()).map(|x| x.0 != a).unwrap_or(true) {
                rep.violation("setters|IpAuthHeader::set_raw_icv|stale", format!("grow {} then shrink {}: differs from a fresh header", big.len(), small.len()), &a.to_bytes());
            } else {
                rep.count("setters.ok");
            }
            // Ipv6RawExtHeader::set_payload
            let n_big = 6 + 8 * rng.range(1, 255) as usize;
            let big = rng.bytes(n_big);
            let n_small = 6 + 8 * rng.below(((big.len() - 6) / 8) as u64 + 1) as usize;
            let small = rng.bytes(n_small);
            let mut e = Ipv6RawExtHeader::new_raw(IpNumber(6), &big).unwrap();
            e.set_payload(&small).unwrap();
            let fresh = Ipv6RawExtHeader::new_raw(IpNumber(6), &small).unwrap();
            if e != fresh || e.to_bytes() != fresh.to_bytes() || Ipv6RawExtHeader::from_slice(&e.to_bytes()).map(|x| x.0 != e).unwrap_or(true) {
                rep.violation("setters|Ipv6RawExtHeader::set_payload|stale", format!("grow {} then shrink {}", big.len(), small.len()), &e.to_bytes());
            } else {
                rep.count("setters.ok");
            }
            // Ipv4Header::set_options / TcpHeader::set_options_raw
            let n_big = 4 * rng.range(1, 10) as usize;
            let big = rng.bytes(n_big);
            let n_small = 4 * rng.below(big.len() as u64 / 4 + 1) as usize;
            let small = rng.bytes(n_small);
            let mut h = Ipv4Header::new(0, 1, IpNumber(6), [1; 4], [2; 4]).unwrap();
            h.set_options(&big).unwrap();
            h.set_options(&small).unwrap();
            let mut fresh = Ipv4Header::new(0, 1, IpNumber(6), [1; 4], [2; 4]).unwrap();
            fresh.set_options(&small).unwrap();
            // equal values hash and order alike (stale bytes behind the live options take no part)
            if h == fresh && (hash_of(&h) != hash_of(&fresh) || h.cmp(&fresh) != std::cmp::Ordering::Equal || hash_of(&h.options) != hash_of(&fresh.options) || h.options.cmp(&fresh.options) != std::cmp::Ordering::Equal) {
                rep.violation("setters|Ipv4Header|hash_or_ord_of_equal_values_differ", format!("grow {} then shrink {}", big.len(), small.len()), &h.to_bytes());
            }
            if h != fresh || h.to_bytes() != fresh.to_bytes() {
                rep.violation("setters|Ipv4Header::set_options|stale", format!("grow {} then shrink {}", big.len(), small.len()), &h.to_bytes());
            } else {
                rep.count("setters.ok");
            }
            let n_bigt = rng.range(1, 40) as usize;
            let bigt = rng.bytes(n_bigt);
            let n_smallt = rng.below(bigt.len() as u64 + 1) as usize;
            let smallt = rng.bytes(n_smallt);
            let mut t = TcpHeader::new(1, 2, 3, 4);
            t.set_options_raw(&bigt).unwrap();
            t.set_options_raw(&smallt).unwrap();
            let mut fresh = TcpHeader::new(1, 2, 3, 4);
            fresh.set_options_raw(&smallt).unwrap();
            if t == fresh && (hash_of(&t) != hash_of(&fresh) || t.cmp(&fresh) != std::cmp::Ordering::Equal) {
                rep.violation("setters|TcpHeader|hash_or_ord_of_equal_values_differ", format!("grow {} then shrink {}", bigt.len(), smallt.len()), &t.to_bytes());
            }
            if t != fresh || t.to_bytes() != fresh.to_bytes() || TcpHeader::from_slice(&t.to_bytes()).map(|x| x.0 != t).unwrap_or(true) {
                rep.violation("setters|TcpHeader::set_options_raw|stale", format!("grow {} then shrink {}", bigt.len(), smallt.len()), &t.to_bytes());
            } else {
                rep.count("setters.ok");
            }
            // ArpPacket::set_hw_addrs / set_protocol_addrs
            let hl = rng.range(1, 255) as usize;
            let hs = rng.below(hl as u64 + 1) as usize;
            let mut p = ArpPacket::new(ArpHardwareId(1), EtherType(0x0800), ArpOperation(1), &rng.bytes(hl), &[1, 2, 3, 4], &rng.bytes(hl), &[5, 6, 7, 8]).unwrap();
            let (s, t2) = (rng.bytes(hs), rng.bytes(hs));
            p.set_hw_addrs(&s, &t2).unwrap();
            let (ps, pt) = (rng.bytes(hs.min(9)), rng.bytes(hs.min(9)));
            p.set_protocol_addrs(&ps, &pt).unwrap();
            let fresh = ArpPacket::new(ArpHardwareId(1), EtherType(0x0800), ArpOperation(1), &s, &ps, &t2, &pt).unwrap();
            rep.evals += 1;
            if p == fresh && hash_of(&p) != hash_of(&fresh) {
                rep.violation("setters|ArpPacket|hash_of_equal_values_differ", format!("grow {} then shrink {}", hl, hs), &p.to_bytes());
            }
            if p != fresh || p.to_bytes() != fresh.to_bytes() || ArpPacket::from_slice(&p.to_bytes()).map(|x| x != p).unwrap_or(true) {
                rep.violation("setters|ArpPacket::set_hw_addrs|stale", format!("grow {} then shrink {}", hl, hs), &p.to_bytes());
            } else {
                rep.count("setters.ok");
            }
            rep.sig(&format!("s|{}|{}", small.len() / 64, hs / 32));
        });
        if let Err(p) = r {
            if p.location().contains("etherparse/src/") {
                super::common::note_abnormal(rep, "setter sequence", &p);
            } else {
                rep.selfcheck_fail(format!("harness panic: {}", p.0));
            }
        }
    }
}

impl Monitor for C08 {
    fn engines(&self, tier: Tier) -> Vec<(&'static str, u64)> {
        vec![
            ("bytes", tier.pick(3_000_000, 600_000_000)),
            ("values", tier.pick(1_500_000, 300_000_000)),
            ("setters", tier.pick(300_000, 60_000_000)),
            ("api", tier.pick(300_000, 60_000_000)),
            ("bytesweep", tier.pick(8_000, 1_000_000)),
        ]
    }

    fn run_case(&mut self, engine: &str, _idx: u64, rng: &mut Prng, rep: &mut Report) {
        match engine {
            "bytes" => self.bytes_dir(rep, rng),
            "values" => self.values(rep, rng),
            "setters" => self.setters(rep, rng),
            "api" => super::api::c08(rep, rng),
            "bytesweep" => {
                // one byte of one generated header through all 256 values
                let ti = rng.usize_below(HEADERS.len());
                let base = (HEADERS[ti].gen)(rng);
                if !base.is_empty() {
                    let pos = rng.usize_below(base.len().min(64));
                    for v in 0..=255u8 {
                        let mut b = base.clone();
                        b[pos] = v;
                        self.forced = Some((ti, b));
                        rep.count("bytesweep_cases");
                        self.bytes_dir(rep, rng);
                    }
                }
            }
            _ => {}
        }
    }
}
