//! C09 — checksums equal the RFC 1071 Internet checksum.
//!
//! Oracle: `crate::refmodel::checksum` (independent RFC 1071 sum with explicit end-around carry,
//! pseudo header composers per RFC 768 / 9293 / 8200 §8.1 / 4443 and own serialisers written
//! from the RFC layouts below). Nothing that forms an expectation calls etherparse.
//!
//! Engines
//! * `fold`        exhaustive over corner accumulators: `ones_complement(_with_no_zero)` of the
//!                 32 and 64 bit variants.
//! * `helper_exh`  exhaustive over length 0..=70 x alignment 0..7 x structured contents:
//!                 add_slice with many start accumulators (carries out of 32/64 bits), every
//!                 split at even offsets (short data) / all 1- and 2-cut splits + random ones
//!                 (longer data), the fixed size adders, 32 vs 64 bit agreement.
//! * `helper_rand` the same with random contents up to 64 KiB, random starts/splits.
//! * `ipv4` `udp` `tcp` `icmpv4` `icmpv6` `icmpv6_valid` `igmp` `transport` `builder`
//!                 header level: structs, slices, TransportHeader, PacketBuilder output.
//!
//! Convention of the helper level: the helpers sum native-endian words, their u16 result is the
//! checksum in *memory order* (`result.to_ne_bytes()` are the two octets as transmitted; every
//! caller in the crate applies `.to_be()`, the crate's unit tests pin `!u16::from_ne_bytes(..)`).
//! A start accumulator `s` therefore stands for the words `s.to_ne_bytes()`.

use super::common::note_abnormal;
use super::{Monitor, Tier};
use crate::prng::Prng;
use crate::refmodel::checksum as rf;
use crate::report::{hex, jstr, Report};
use crate::shell;
use etherparse::checksum::{u32_16bit_word as w32, u64_16bit_word as w64, Sum16BitWords};
use etherparse::{
    icmpv4, icmpv6, igmp, IcmpEchoHeader, Icmpv4Header, Icmpv4Type, Icmpv6Header, Icmpv6Slice, Icmpv6Type,
    IgmpHeader, IgmpType, IpAuthHeader, IpDscp, IpEcn, IpFragOffset, IpHeaders, IpNumber, Ipv4Extensions,
    Ipv4Header, Ipv4HeaderSlice, Ipv4Options, Ipv6Extensions, Ipv6FlowLabel, Ipv6Header, Ipv6HeaderSlice,
    Ipv6RawExtHeader, PacketBuilder, PacketBuilderStep, TcpHeader, TcpHeaderSlice, TcpOptions, TcpSlice,
    TransportHeader, UdpHeader, UdpHeaderSlice, UdpSlice, VlanId,
};

pub struct C09 {
    selfchecked: bool,
}

impl C09 {
    pub fn new() -> C09 {
        C09 { selfchecked: false }
    }
}

/// run an expression that calls into etherparse under the panic shell; a panic is C01/C02's
/// business: note it and give up on the case
macro_rules! guard {
    ($rep:expr, $what:expr, $e:expr) => {
        match shell::guarded(|| $e) {
            Ok(v) => v,
            Err(p) => {
                note_abnormal($rep, $what, &p);
                return;
            }
        }
    };
}

/// helper level result (memory order) -> numeric value of the transmitted field
#[inline]
fn wire(x: u16) -> u16 {
    u16::from_be_bytes(x.to_ne_bytes())
}

fn trim(b: &[u8]) -> &[u8] {
    if b.len() > 2048 {
        &b[..2048]
    } else {
        b
    }
}

fn short_hex(b: &[u8]) -> String {
    if b.len() > 64 {
        format!("{}..({} bytes)", hex(&b[..64]), b.len())
    } else {
        hex(b)
    }
}

fn len_class(n: usize) -> String {
    if n <= 70 {
        format!("{}", n)
    } else {
        format!("2^{}+{}{}", 63 - (n as u64).leading_zeros(), n % 8, if n > 65535 { "L" } else { "" })
    }
}

// ---------------------------------------------------------------------------------------------
// helper level
// ---------------------------------------------------------------------------------------------

#[derive(Clone, Copy, Debug)]
enum Mach {
    /// `Sum16BitWords` (starts at zero)
    S,
    /// `u32_16bit_word::*` with a start accumulator
    W32(u32),
    /// `u64_16bit_word::*` with a start accumulator
    W64(u64),
}

impl Mach {
    fn name(&self) -> &'static str {
        match self {
            Mach::S => "Sum16BitWords",
            Mach::W32(_) => "u32_16bit_word",
            Mach::W64(_) => "u64_16bit_word",
        }
    }
    /// the words the start accumulator stands for
    fn start_bytes(&self) -> Vec<u8> {
        match self {
            Mach::S => Vec::new(),
            Mach::W32(s) => s.to_ne_bytes().to_vec(),
            Mach::W64(s) => s.to_ne_bytes().to_vec(),
        }
    }
    fn describe(&self) -> String {
        match self {
            Mach::S => "Sum16BitWords::new()".to_string(),
            Mach::W32(s) => format!("u32 start {:#010x}", s),
            Mach::W64(s) => format!("u64 start {:#018x}", s),
        }
    }
}

#[derive(Clone, Copy)]
enum Op<'a> {
    Slice(&'a [u8]),
    B2([u8; 2]),
    B4([u8; 4]),
    B8([u8; 8]),
    B16([u8; 16]),
}

fn ops_text(ops: &[Op]) -> String {
    let mut s = String::new();
    for (i, o) in ops.iter().enumerate() {
        if i >= 40 {
            s.push_str(",..");
            break;
        }
        if i > 0 {
            s.push(',');
        }
        match o {
            Op::Slice(d) => s.push_str(&format!("slice{}", d.len())),
            Op::B2(_) => s.push_str("2b"),
            Op::B4(_) => s.push_str("4b"),
            Op::B8(_) => s.push_str("8b"),
            Op::B16(_) => s.push_str("16b"),
        }
    }
    s
}

fn b4(b: &[u8]) -> [u8; 4] {
    [b[0], b[1], b[2], b[3]]
}
fn b8(b: &[u8]) -> [u8; 8] {
    [b[0], b[1], b[2], b[3], b[4], b[5], b[6], b[7]]
}
fn b16(b: &[u8]) -> [u8; 16] {
    let mut r = [0u8; 16];
    r.copy_from_slice(&b[..16]);
    r
}

thread_local! {
    static RECEIVER_FAULT: std::cell::Cell<bool> = const { std::cell::Cell::new(false) };
    static RECEIVER_CHECKS: std::cell::Cell<u64> = const { std::cell::Cell::new(0) };
}

/// feeds the operations into the machine; returns (ones_complement, .._with_no_zero) in wire
/// order. Calls etherparse: use under `guard!`.
fn run_ops(m: Mach, ops: &[Op]) -> (u16, u16) {
    match m {
        Mach::S => {
            let mut s = Sum16BitWords::new();
            for op in ops {
                // `add_{4,8,16}bytes` take `&mut self` and return the new sum. Whichever way that is
                // read, the receiver afterwards holds the old sum or the returned one - anything
                // else makes a second continuation from the same accumulator wrong.
                let before = s.clone();
                let r = match *op {
                    Op::Slice(d) => s.clone().add_slice(d),
                    Op::B2(b) => s.clone().add_2bytes(b),
                    Op::B4(b) => s.add_4bytes(b),
                    Op::B8(b) => s.add_8bytes(b),
                    Op::B16(b) => s.add_16bytes(b),
                };
                if s != before && s != r {
                    RECEIVER_FAULT.with(|c| c.set(true));
                }
                RECEIVER_CHECKS.with(|c| c.set(c.get() + 1));
                s = r;
            }
            (wire(s.ones_complement()), wire(s.to_ones_complement_with_no_zero()))
        }
        Mach::W32(st) => {
            let mut a = st;
            for op in ops {
                a = match *op {
                    Op::Slice(d) => w32::add_slice(a, d),
                    Op::B2(b) => w32::add_2bytes(a, b),
                    Op::B4(b) => w32::add_4bytes(a, b),
                    Op::B8(b) => w32::add_4bytes(w32::add_4bytes(a, b4(&b[..4])), b4(&b[4..])),
                    Op::B16(b) => {
                        let mut x = a;
                        for k in 0..4 {
                            x = w32::add_4bytes(x, b4(&b[4 * k..]));
                        }
                        x
                    }
                };
            }
            (wire(w32::ones_complement(a)), wire(w32::ones_complement_with_no_zero(a)))
        }
        Mach::W64(st) => {
            let mut a = st;
            for op in ops {
                a = match *op {
                    Op::Slice(d) => w64::add_slice(a, d),
                    Op::B2(b) => w64::add_2bytes(a, b),
                    Op::B4(b) => w64::add_4bytes(a, b),
                    Op::B8(b) => w64::add_8bytes(a, b),
                    Op::B16(b) => w64::add_8bytes(w64::add_8bytes(a, b8(&b[..8])), b8(&b[8..])),
                };
            }
            (wire(w64::ones_complement(a)), wire(w64::ones_complement_with_no_zero(a)))
        }
    }
}

const START32: [u32; 12] = [
    0,
    1,
    0xffff,
    0x0001_0000,
    0xffff_0000,
    0xffff_ffff,
    0xffff_fffe,
    0xfffe_ffff,
    0x8000_0000,
    0x7fff_ffff,
    0xfffe_fffe,
    0x0001_ffff,
];

const START64: [u64; 12] = [
    u64::MAX,
    u64::MAX - 1,
    0xffff_ffff_ffff_0000,
    0xffff_ffff_0000_0000,
    0xffff_0000_0000_0000,
    0x8000_0000_0000_0000,
    0x7fff_ffff_ffff_ffff,
    0x0000_0001_0000_0000,
    0xfffe_ffff_fffe_ffff,
    0xffff_fffe_ffff_ffff,
    0x0000_ffff_ffff_ffff,
    0xffff_ffff_fffe_ffff,
];

fn rand_start32(rng: &mut Prng) -> u32 {
    match rng.below(6) {
        0 => *rng.pick(&START32),
        1 | 2 => u32::MAX - rng.below(0x2_0000) as u32,
        3 => rng.u32_corner(),
        _ => rng.u32(),
    }
}

fn rand_start64(rng: &mut Prng) -> u64 {
    match rng.below(6) {
        0 => *rng.pick(&START64),
        1 | 2 => u64::MAX - rng.below(0x2_0000),
        3 => ((rng.u32_corner() as u64) << 32) | rng.u32_corner() as u64,
        _ => rng.next(),
    }
}

/// would a 32 / 64 bit accumulator wrap while summing `start` and `data` in 4 / 8 byte native
/// words (exact: the unwrapped total exceeds the type <=> at least one carry out happened)?
/// Only used to classify coverage, never to judge.
fn wide_carry(start: u64, data: &[u8], width: usize) -> bool {
    let mut total: u128 = start as u128;
    let mut i = 0;
    while i + width <= data.len() {
        let mut v: u128 = 0;
        if cfg!(target_endian = "little") {
            for k in (0..width).rev() {
                v = (v << 8) | data[i + k] as u128;
            }
        } else {
            for k in 0..width {
                v = (v << 8) | data[i + k] as u128;
            }
        }
        total += v;
        i += width;
    }
    // the tail adds less than one more wide word
    while i < data.len() {
        let hi = data[i] as u128;
        let lo = if i + 1 < data.len() { data[i + 1] as u128 } else { 0 };
        total += if cfg!(target_endian = "little") { (lo << 8) | hi } else { (hi << 8) | lo };
        i += 2;
    }
    let max: u128 = if width == 4 { u32::MAX as u128 } else { u64::MAX as u128 };
    total > max
}

/// decomposition of `data` into fixed size additions; strategy 0..3 = greedy 2/4/8/16 bytes,
/// otherwise a random mix that also contains add_slice pieces of even (possibly zero) length
fn ops_fixed<'a>(data: &'a [u8], strategy: u8, rng: &mut Prng) -> Vec<Op<'a>> {
    let mut ops = Vec::new();
    let mut i = 0usize;
    loop {
        let left = data.len() - i;
        if left == 0 {
            break;
        }
        if left == 1 {
            // the odd trailing octet can only go through add_slice
            ops.push(Op::Slice(&data[i..]));
            break;
        }
        let mut n: usize = match strategy {
            0 => 2,
            1 => 4,
            2 => 8,
            3 => 16,
            _ => *rng.pick(&[2usize, 4, 8, 16, 0]),
        };
        if n == 0 {
            let l = ((2 * rng.range(0, 16)) as usize).min(left & !1);
            ops.push(Op::Slice(&data[i..i + l]));
            i += l;
            if l != 0 {
                continue;
            }
            n = 2;
        }
        while n > left {
            n /= 2;
        }
        let p = &data[i..i + n];
        ops.push(match n {
            2 => Op::B2([p[0], p[1]]),
            4 => Op::B4(b4(p)),
            8 => Op::B8(b8(p)),
            _ => Op::B16(b16(p)),
        });
        i += n;
    }
    ops
}

/// successive add_slice calls on the pieces between the (sorted, even) cut offsets
fn ops_split<'a>(data: &'a [u8], cuts: &[usize]) -> Vec<Op<'a>> {
    let mut ops = Vec::with_capacity(cuts.len() + 1);
    let mut last = 0usize;
    for &c in cuts {
        ops.push(Op::Slice(&data[last..c]));
        last = c;
    }
    ops.push(Op::Slice(&data[last..]));
    ops
}

struct HelperCtx<'a> {
    data: &'a [u8],
    /// exact word sum of data (reference)
    ws: u64,
    lenc: String,
    align: usize,
}

impl C09 {
    /// one machine run judged against the reference over {start words} u {data words}
    fn judge_ops(&mut self, rep: &mut Report, cx: &HelperCtx, m: Mach, ops: &[Op], routine: &str) -> bool {
        let got = guard_val(rep, routine, || run_ops(m, ops));
        let got = match got {
            Some(g) => g,
            None => return false,
        };
        rep.evals += 2;
        let exp = !rf::fold(rf::word_sum(&m.start_bytes()) + cx.ws);
        let expnz = rf::no_zero(exp);
        let parity = if cx.data.len() % 2 == 1 { "odd" } else { "even" };
        if got.0 != exp {
            rep.violation(
                &format!("helper|{}|{}|ones_complement|{}", m.name(), routine, parity),
                format!(
                    "{} [{}] over {} data bytes (ops {}): ones_complement gives wire value {:04x}, RFC 1071 over the same words gives {:04x}; data={}",
                    routine,
                    m.describe(),
                    cx.data.len(),
                    ops_text(ops),
                    got.0,
                    exp,
                    short_hex(cx.data)
                ),
                trim(cx.data),
            );
            return false;
        }
        if got.1 != expnz {
            rep.violation(
                &format!("helper|{}|{}|ones_complement_with_no_zero|{}", m.name(), routine, parity),
                format!(
                    "{} [{}] over {} data bytes (ops {}): no-zero complement gives {:04x}, expected {:04x}; data={}",
                    routine,
                    m.describe(),
                    cx.data.len(),
                    ops_text(ops),
                    got.1,
                    expnz,
                    short_hex(cx.data)
                ),
                trim(cx.data),
            );
            return false;
        }
        if exp == 0 {
            rep.count("helper.complement_zero_seen");
        }
        true
    }

    /// all helper level checks for one byte string at its current address
    fn helper_case(&mut self, rep: &mut Report, rng: &mut Prng, data: &[u8], exhaustive: bool) {
        let cx = HelperCtx {
            data,
            ws: rf::word_sum(data),
            lenc: len_class(data.len()),
            align: data.as_ptr() as usize % 8,
        };
        let whole = [Op::Slice(data)];
        let c16 = cx.ws >= 0x1_0000;
        if c16 {
            rep.count("carry.16bit_fold");
        }

        // (a) unsplit add_slice: Sum16BitWords, all start accumulators
        let mut starts32: Vec<u32> = Vec::new();
        let mut starts64: Vec<u64> = Vec::new();
        if exhaustive {
            starts32.extend_from_slice(&START32);
            starts64.extend_from_slice(&START64);
        } else {
            starts32.push(0);
            for _ in 0..3 {
                starts32.push(rand_start32(rng));
            }
            for _ in 0..3 {
                starts64.push(rand_start64(rng));
            }
        }
        self.judge_ops(rep, &cx, Mach::S, &whole, "add_slice");
        rep.count("checked.Sum16BitWords.add_slice");
        rep.sig(&format!("S.add_slice|{}|a{}|c{}", cx.lenc, cx.align, c16 as u8));
        for &s in &starts32 {
            let wc32 = wide_carry(s as u64, data, 4);
            let wc64 = wide_carry(s as u64, data, 8);
            if wc32 {
                rep.count("carry.out_of_32bit");
            }
            let ok32 = self.judge_ops(rep, &cx, Mach::W32(s), &whole, "add_slice");
            // the same start in the 64 bit variant: identical multiset of words
            let ok64 = self.judge_ops(rep, &cx, Mach::W64(s as u64), &whole, "add_slice");
            rep.count("checked.u32_16bit_word.add_slice");
            rep.count("checked.u64_16bit_word.add_slice");
            if ok32 && ok64 {
                // both equal the reference, hence each other
                rep.count("agree.32_vs_64");
            } else if ok32 != ok64 {
                rep.violation(
                    &format!("helper|32_vs_64|add_slice|{}", if data.len() % 2 == 1 { "odd" } else { "even" }),
                    format!(
                        "u32 and u64 accumulators started with {:#x} disagree over {} bytes; data={}",
                        s,
                        data.len(),
                        short_hex(data)
                    ),
                    trim(data),
                );
            }
            rep.sig(&format!("w32.add_slice|{}|a{}|c{}{}", cx.lenc, cx.align, c16 as u8, wc32 as u8));
            rep.sig(&format!("w64.add_slice|{}|a{}|c{}{}", cx.lenc, cx.align, c16 as u8, wc64 as u8));
        }
        for &s in &starts64 {
            let wc64 = wide_carry(s, data, 8);
            if wc64 {
                rep.count("carry.out_of_64bit");
            }
            self.judge_ops(rep, &cx, Mach::W64(s), &whole, "add_slice");
            rep.count("checked.u64_16bit_word.add_slice");
            rep.sig(&format!("w64.add_slice|{}|a{}|c{}{}", cx.lenc, cx.align, c16 as u8, wc64 as u8));
        }

        // (b) splits at even offsets into successive add_slice calls
        let near32 = if exhaustive { 0xffff_fffe } else { rand_start32(rng) };
        let near64 = if exhaustive { u64::MAX - 1 } else { rand_start64(rng) };
        let machines = [Mach::S, Mach::W32(0), Mach::W32(near32), Mach::W64(0), Mach::W64(near64)];
        let cut_points: Vec<usize> = (1..=data.len() / 2).map(|k| 2 * k).filter(|&c| c < data.len()).collect();
        let mut splits: Vec<Vec<usize>> = Vec::new();
        if exhaustive && cut_points.len() <= 10 {
            for mask in 1u32..(1u32 << cut_points.len()) {
                splits.push(
                    cut_points
                        .iter()
                        .enumerate()
                        .filter(|(i, _)| mask & (1 << i) != 0)
                        .map(|(_, c)| *c)
                        .collect(),
                );
            }
            rep.count("splits.all_subsets_cases");
        } else if exhaustive {
            for i in 0..cut_points.len() {
                splits.push(vec![cut_points[i]]);
                for j in i + 1..cut_points.len() {
                    splits.push(vec![cut_points[i], cut_points[j]]);
                }
            }
        }
        // random multi-cut splits, incl. empty pieces (cut at 0, at the end, repeated cuts)
        let nrand = if exhaustive { 24 } else { 4 };
        for _ in 0..nrand {
            let n = 1 + rng.usize_below(8);
            let mut c: Vec<usize> = (0..n).map(|_| 2 * rng.usize_below(data.len() / 2 + 1)).collect();
            c.sort();
            splits.push(c);
        }
        for sp in &splits {
            let ops = ops_split(data, sp);
            for m in machines {
                self.judge_ops(rep, &cx, m, &ops, "add_slice(split)");
            }
            rep.add("checked.split_sequences", machines.len() as u64);
        }
        rep.sig(&format!("split|{}|a{}|n{}", cx.lenc, cx.align, splits.len().min(9)));

        // (c) the fixed size adders
        let strategies: &[u8] = if exhaustive { &[0, 1, 2, 3, 9, 9, 9, 9] } else { &[0, 1, 2, 3, 9, 9] };
        let strategies: &[u8] = if data.len() > 4096 { &[2, 9] } else { strategies };
        for &st in strategies {
            let ops = ops_fixed(data, st, rng);
            let ms = [
                Mach::S,
                Mach::W32(if exhaustive { *rng.pick(&START32) } else { rand_start32(rng) }),
                Mach::W64(if exhaustive { *rng.pick(&START64) } else { rand_start64(rng) }),
            ];
            for m in ms {
                self.judge_ops(rep, &cx, m, &ops, "add_Nbytes");
            }
            for o in &ops {
                match o {
                    Op::B2(_) => rep.add("checked.add_2bytes", 3),
                    Op::B4(_) => rep.add("checked.add_4bytes", 3),
                    Op::B8(_) => rep.add("checked.add_8bytes", 2),
                    Op::B16(_) => rep.add("checked.add_16bytes", 1),
                    Op::Slice(_) => {}
                }
            }
        }
        rep.sig(&format!("fixed|{}|a{}|c{}", cx.lenc, cx.align, c16 as u8));

        if rep.samples.is_empty() && !exhaustive && data.len() >= 3 && data.len() <= 48 && c16 {
            let exp = !rf::fold(cx.ws);
            rep.sample(format!(
                "{{\"routine\":\"Sum16BitWords/u32/u64 add_slice, splits, add_Nbytes\",\"len\":{},\"align\":{},\"data_hex\":{},\"rfc1071_checksum\":\"{:04x}\",\"split_sequences\":{},\"result\":\"all equal\"}}",
                data.len(),
                cx.align,
                jstr(&hex(data)),
                exp,
                splits.len()
            ));
        }
    }

    /// `ones_complement` / `ones_complement_with_no_zero` on raw accumulators
    fn fold_case(&mut self, rep: &mut Report, idx: u64) {
        const C: [u16; 12] = [
            0, 1, 2, 0x00ff, 0x0100, 0x7fff, 0x8000, 0x8001, 0xff00, 0xfffd, 0xfffe, 0xffff,
        ];
        let n = C.len() as u64;
        let q = [
            C[(idx % n) as usize],
            C[(idx / n % n) as usize],
            C[(idx / (n * n) % n) as usize],
            C[(idx / (n * n * n) % n) as usize],
        ];
        let s64 = (q[0] as u64) | (q[1] as u64) << 16 | (q[2] as u64) << 32 | (q[3] as u64) << 48;
        let exp64 = rf::checksum(&s64.to_ne_bytes());
        let got = guard!(rep, "u64_16bit_word::ones_complement", {
            (wire(w64::ones_complement(s64)), wire(w64::ones_complement_with_no_zero(s64)))
        });
        rep.evals += 2;
        rep.count("checked.u64_16bit_word.ones_complement");
        if got.0 != exp64 || got.1 != rf::no_zero(exp64) {
            rep.violation(
                "helper|u64_16bit_word|ones_complement|raw_accumulator",
                format!(
                    "ones_complement({:#018x}) -> {:04x} / no zero {:04x}; RFC 1071 over its four words: {:04x} / {:04x}",
                    s64,
                    got.0,
                    got.1,
                    exp64,
                    rf::no_zero(exp64)
                ),
                &s64.to_ne_bytes(),
            );
        }
        rep.sig(&format!("fold64|{:x}", s64));
        if idx < n * n {
            let s32 = (q[0] as u32) | (q[1] as u32) << 16;
            let exp32 = rf::checksum(&s32.to_ne_bytes());
            let got = guard!(rep, "u32_16bit_word::ones_complement", {
                (wire(w32::ones_complement(s32)), wire(w32::ones_complement_with_no_zero(s32)))
            });
            rep.evals += 2;
            rep.count("checked.u32_16bit_word.ones_complement");
            if got.0 != exp32 || got.1 != rf::no_zero(exp32) {
                rep.violation(
                    "helper|u32_16bit_word|ones_complement|raw_accumulator",
                    format!(
                        "ones_complement({:#010x}) -> {:04x} / no zero {:04x}; RFC 1071 over its two words: {:04x} / {:04x}",
                        s32,
                        got.0,
                        got.1,
                        exp32,
                        rf::no_zero(exp32)
                    ),
                    &s32.to_ne_bytes(),
                );
            }
            rep.sig(&format!("fold32|{:x}", s32));
        }
    }
}

/// like `guard!` but as a function returning an Option (for helpers that must not return early)
fn guard_val<R>(rep: &mut Report, what: &str, f: impl FnOnce() -> R) -> Option<R> {
    match shell::guarded(f) {
        Ok(v) => Some(v),
        Err(p) => {
            note_abnormal(rep, what, &p);
            None
        }
    }
}

/// structured contents of the exhaustive helper engine
fn pattern(kind: u64, len: usize, rng: &mut Prng) -> Vec<u8> {
    match kind {
        0 => vec![0u8; len],
        1 => vec![0xffu8; len],
        2 => (0..len).map(|i| if i % 2 == 0 { 0x00 } else { 0xff }).collect(),
        3 => (0..len).map(|i| if i % 2 == 0 { 0xff } else { 0x00 }).collect(),
        4 => (0..len).map(|i| (i as u8).wrapping_add(1)).collect(),
        5 => (0..len).map(|i| 0xffu8.wrapping_sub(i as u8)).collect(),
        // carry stress: every 4 (7) / 8 (8) octet word is all ones or a small number (in either
        // byte order). Sums of such words sit right at the multiples of 2^32 / 2^64, where an
        // accumulator that folds its carries late, once, or into a narrower type loses one.
        7 | 8 => carry_stress(if kind == 7 { 4 } else { 8 }, len, rng),
        _ => rng.bytes(len),
    }
}
const PATTERNS: u64 = 9;

pub fn carry_stress(word: usize, len: usize, rng: &mut Prng) -> Vec<u8> {
    let mut v = vec![0xffu8; len];
    let words = len / word;
    let lead = if rng.bool() { 0 } else { rng.usize_below(word) };
    let mut ones_run = 0usize;
    for w in 0..words {
        let at = lead + w * word;
        if at + word > len {
            break;
        }
        if rng.chance(2, 5) {
            // a small number: near the count of all-ones words seen so far, or 0..3
            let n = match rng.below(3) {
                0 => ones_run as u64,
                1 => (ones_run as u64).saturating_sub(1),
                _ => rng.below(4),
            };
            let b = n.to_le_bytes();
            for i in 0..word {
                v[at + i] = 0;
            }
            if rng.bool() {
                v[at..at + word.min(8)].copy_from_slice(&b[..word.min(8)]);
            } else {
                for i in 0..word.min(8) {
                    v[at + word - 1 - i] = b[i];
                }
            }
        } else {
            ones_run += 1;
        }
    }
    v
}

/// places `data` at offset `align` (0..7) of an 8-aligned buffer; returns (buffer, start)
fn place(data: &[u8], align: usize) -> (Vec<u64>, usize) {
    let words = (data.len() + align + 8) / 8 + 1;
    let mut buf = vec![0xa5a5_a5a5_a5a5_a5a5u64; words];
    // SAFETY-free copy through a byte view
    let bytes: &mut [u8] = unsafe { std::slice::from_raw_parts_mut(buf.as_mut_ptr() as *mut u8, words * 8) };
    bytes[align..align + data.len()].copy_from_slice(data);
    (buf, align)
}

fn placed<'a>(buf: &'a [u64], start: usize, len: usize) -> &'a [u8] {
    let bytes: &[u8] = unsafe { std::slice::from_raw_parts(buf.as_ptr() as *const u8, buf.len() * 8) };
    &bytes[start..start + len]
}

// ---------------------------------------------------------------------------------------------
// header level: plain specifications + own serialisers (RFC layouts), conversions to etherparse
// ---------------------------------------------------------------------------------------------

fn put16(v: &mut Vec<u8>, x: u16) {
    v.push((x >> 8) as u8);
    v.push((x & 0xff) as u8);
}
fn put32(v: &mut Vec<u8>, x: u32) {
    v.push((x >> 24) as u8);
    v.push(((x >> 16) & 0xff) as u8);
    v.push(((x >> 8) & 0xff) as u8);
    v.push((x & 0xff) as u8);
}
fn get16(b: &[u8], at: usize) -> u16 {
    ((b[at] as u16) << 8) | b[at + 1] as u16
}

fn addr4(rng: &mut Prng) -> [u8; 4] {
    match rng.below(10) {
        0 => [0; 4],
        1 => [0xff; 4],
        _ => {
            let mut a = [0u8; 4];
            rng.fill(&mut a);
            a
        }
    }
}

fn addr6(rng: &mut Prng) -> [u8; 16] {
    match rng.below(10) {
        0 => [0; 16],
        1 => [0xff; 16],
        _ => {
            let mut a = [0u8; 16];
            rng.fill(&mut a);
            a
        }
    }
}

/// payload lengths 0..~1500, odd and even, a few longer ones
fn payload_len(rng: &mut Prng) -> usize {
    (match rng.below(100) {
        0..=29 => rng.range(0, 64),
        30..=69 => rng.range(0, 1500),
        70..=89 => rng.range(1400, 1500),
        90..=97 => rng.range(0, 300),
        _ => rng.range(1501, 9000),
    }) as usize
}

fn payload(rng: &mut Prng, n: usize) -> Vec<u8> {
    match rng.below(10) {
        0 => vec![0u8; n],
        1 => vec![0xffu8; n],
        2 => {
            let mut v = vec![0u8; n];
            for _ in 0..n / 16 {
                let i = rng.usize_below(n);
                v[i] = rng.u8();
            }
            v
        }
        _ => rng.bytes(n),
    }
}

fn len_parity_class(n: usize) -> String {
    let c = match n {
        0 => "0",
        1 => "1",
        2..=7 => "2-7",
        8..=63 => "8-63",
        64..=511 => "64-511",
        512..=1399 => "512-1399",
        1400..=1500 => "1400-1500",
        1501..=65535 => "big",
        _ => "huge",
    };
    format!("{}{}", c, if n % 2 == 1 { "o" } else { "e" })
}

/// the two octets that make the one's complement sum of a message come out as 0xffff (computed
/// checksum 0), given the exact word sum of everything else (the two octets counted as zero)
fn solve_zero(sum_without: u64) -> [u8; 2] {
    let s = rf::fold(sum_without);
    let w = 0xffffu16 - s;
    [(w >> 8) as u8, (w & 0xff) as u8]
}

#[derive(Clone, Debug)]
struct V4 {
    dscp: u8,
    ecn: u8,
    total_len: u16,
    id: u16,
    df: bool,
    mf: bool,
    frag: u16,
    ttl: u8,
    proto: u8,
    src: [u8; 4],
    dst: [u8; 4],
    opts: Vec<u8>,
}

impl V4 {
    fn gen(rng: &mut Prng) -> V4 {
        let nopt = if rng.chance(1, 2) { 0 } else { 4 * rng.usize_below(11) };
        V4 {
            dscp: rng.u8_corner() & 0x3f,
            ecn: rng.u8() & 3,
            total_len: rng.u16_corner(),
            id: rng.u16_corner(),
            df: rng.bool(),
            mf: rng.bool(),
            frag: rng.u16_corner() & 0x1fff,
            ttl: rng.u8_corner(),
            proto: rng.u8_corner(),
            src: addr4(rng),
            dst: addr4(rng),
            opts: if rng.chance(1, 6) { vec![0xff; nopt] } else { rng.bytes(nopt) },
        }
    }
    /// RFC 791 §3.1 layout (TOS octet split per RFC 2474 / RFC 3168)
    fn bytes(&self, checksum: u16) -> Vec<u8> {
        let mut v = Vec::with_capacity(20 + self.opts.len());
        v.push(0x40 | (5 + self.opts.len() / 4) as u8);
        v.push((self.dscp << 2) | self.ecn);
        put16(&mut v, self.total_len);
        put16(&mut v, self.id);
        let flags = ((self.df as u16) << 14) | ((self.mf as u16) << 13);
        put16(&mut v, flags | self.frag);
        v.push(self.ttl);
        v.push(self.proto);
        put16(&mut v, checksum);
        v.extend_from_slice(&self.src);
        v.extend_from_slice(&self.dst);
        v.extend_from_slice(&self.opts);
        v
    }
    fn to_ep(&self, stored_checksum: u16) -> Ipv4Header {
        Ipv4Header {
            dscp: IpDscp::try_new(self.dscp).unwrap(),
            ecn: IpEcn::try_new(self.ecn).unwrap(),
            total_len: self.total_len,
            identification: self.id,
            dont_fragment: self.df,
            more_fragments: self.mf,
            fragment_offset: IpFragOffset::try_new(self.frag).unwrap(),
            time_to_live: self.ttl,
            protocol: IpNumber(self.proto),
            header_checksum: stored_checksum,
            source: self.src,
            destination: self.dst,
            options: Ipv4Options::try_from(&self.opts[..]).unwrap(),
        }
    }
}

#[derive(Clone, Debug)]
struct V6 {
    tc: u8,
    flow: u32,
    plen: u16,
    nh: u8,
    hop: u8,
    src: [u8; 16],
    dst: [u8; 16],
}

impl V6 {
    fn gen(rng: &mut Prng) -> V6 {
        V6 {
            tc: rng.u8_corner(),
            flow: rng.u32_corner() & 0xf_ffff,
            plen: rng.u16_corner(),
            nh: rng.u8_corner(),
            hop: rng.u8_corner(),
            src: addr6(rng),
            dst: addr6(rng),
        }
    }
    /// RFC 8200 §3 layout
    fn bytes(&self) -> Vec<u8> {
        let mut v = Vec::with_capacity(40);
        put32(&mut v, (6u32 << 28) | ((self.tc as u32) << 20) | self.flow);
        put16(&mut v, self.plen);
        v.push(self.nh);
        v.push(self.hop);
        v.extend_from_slice(&self.src);
        v.extend_from_slice(&self.dst);
        v
    }
    fn to_ep(&self) -> Ipv6Header {
        Ipv6Header {
            traffic_class: self.tc,
            flow_label: Ipv6FlowLabel::try_new(self.flow).unwrap(),
            payload_length: self.plen,
            next_header: IpNumber(self.nh),
            hop_limit: self.hop,
            source: self.src,
            destination: self.dst,
        }
    }
}

/// RFC 768 header
fn udp_bytes(sp: u16, dp: u16, len: u16, checksum: u16) -> Vec<u8> {
    let mut v = Vec::with_capacity(8);
    put16(&mut v, sp);
    put16(&mut v, dp);
    put16(&mut v, len);
    put16(&mut v, checksum);
    v
}

#[derive(Clone, Debug)]
struct TcpSpec {
    sp: u16,
    dp: u16,
    seq: u32,
    ack: u32,
    /// bit 8 = NS (RFC 3540, lowest bit of octet 12), bits 7..0 = CWR ECE URG ACK PSH RST SYN FIN
    flags: u16,
    win: u16,
    urg_ptr: u16,
    /// already padded to a multiple of 4 (<= 40)
    opts: Vec<u8>,
}

impl TcpSpec {
    fn gen(rng: &mut Prng) -> TcpSpec {
        let nopt = if rng.chance(1, 2) { 0 } else { 4 * rng.usize_below(11) };
        TcpSpec {
            sp: rng.u16_corner(),
            dp: rng.u16_corner(),
            seq: rng.u32_corner(),
            ack: rng.u32_corner(),
            flags: (rng.u16() & 0x1ff) | if rng.chance(1, 8) { 0x1ff } else { 0 },
            win: rng.u16_corner(),
            urg_ptr: rng.u16_corner(),
            opts: if rng.chance(1, 6) { vec![0xff; nopt] } else { rng.bytes(nopt) },
        }
    }
    /// RFC 9293 §3.1 layout; `reserved` = the three reserved bits between data offset and NS
    fn bytes(&self, checksum: u16, reserved: u8) -> Vec<u8> {
        let mut v = Vec::with_capacity(20 + self.opts.len());
        put16(&mut v, self.sp);
        put16(&mut v, self.dp);
        put32(&mut v, self.seq);
        put32(&mut v, self.ack);
        let doff = (5 + self.opts.len() / 4) as u8;
        v.push((doff << 4) | ((reserved & 7) << 1) | ((self.flags >> 8) & 1) as u8);
        v.push((self.flags & 0xff) as u8);
        put16(&mut v, self.win);
        put16(&mut v, checksum);
        put16(&mut v, self.urg_ptr);
        v.extend_from_slice(&self.opts);
        v
    }
    fn to_ep(&self, stored_checksum: u16) -> TcpHeader {
        let mut h = self.to_ep_fresh(stored_checksum);
        if self.seq & 1 == 1 {
            // a reused header: it carried a full, non-zero option area before it got these options
            // (what is no longer part of the header is no longer part of any checksum)
            let _ = h.set_options_raw(&[0xa7u8; 40]);
            let _ = h.set_options_raw(&self.opts);
        }
        h
    }
    fn to_ep_fresh(&self, stored_checksum: u16) -> TcpHeader {
        let f = self.flags;
        TcpHeader {
            source_port: self.sp,
            destination_port: self.dp,
            sequence_number: self.seq,
            acknowledgment_number: self.ack,
            ns: f & 0x100 != 0,
            fin: f & 0x01 != 0,
            syn: f & 0x02 != 0,
            rst: f & 0x04 != 0,
            psh: f & 0x08 != 0,
            ack: f & 0x10 != 0,
            urg: f & 0x20 != 0,
            ece: f & 0x40 != 0,
            cwr: f & 0x80 != 0,
            window_size: self.win,
            checksum: stored_checksum,
            urgent_pointer: self.urg_ptr,
            options: TcpOptions::try_from_slice(&self.opts).unwrap(),
        }
    }
}

/// (typed value, own serialisation of its header with a zero checksum, name, canonical)
/// `canonical`: re-parsing the bytes keeps every octet (no non-zero "unused" fields)
fn gen_icmpv4(rng: &mut Prng) -> (Icmpv4Type, Vec<u8>, &'static str, bool) {
    use icmpv4::*;
    let id = rng.u16_corner();
    let seq = rng.u16_corner();
    let mut echo = vec![0u8, 0, 0, 0];
    put16(&mut echo, id);
    put16(&mut echo, seq);
    match rng.below(10) {
        0 => {
            let t = rng.u8_corner();
            let c = rng.u8_corner();
            let mut b = [0u8; 4];
            rng.fill(&mut b);
            let known = [0u8, 3, 5, 8, 11, 12, 13, 14].contains(&t);
            (
                Icmpv4Type::Unknown {
                    type_u8: t,
                    code_u8: c,
                    bytes5to8: b,
                },
                vec![t, c, 0, 0, b[0], b[1], b[2], b[3]],
                "Unknown",
                !known,
            )
        }
        1 => {
            // RFC 792 echo reply: type 0
            echo[0] = 0;
            (Icmpv4Type::EchoReply(IcmpEchoHeader { id, seq }), echo, "EchoReply", true)
        }
        2 => {
            // RFC 792 echo: type 8
            echo[0] = 8;
            (Icmpv4Type::EchoRequest(IcmpEchoHeader { id, seq }), echo, "EchoRequest", true)
        }
        3 => {
            // RFC 792 / RFC 1122 / RFC 1812 destination unreachable: type 3, codes 0..15;
            // code 4 carries the next hop MTU in octets 6,7 (RFC 1191)
            use DestUnreachableHeader::*;
            let mtu = rng.u16_corner();
            let all = [
                Network,
                Host,
                Protocol,
                Port,
                FragmentationNeeded { next_hop_mtu: mtu },
                SourceRouteFailed,
                NetworkUnknown,
                HostUnknown,
                Isolated,
                NetworkProhibited,
                HostProhibited,
                TosNetwork,
                TosHost,
                FilterProhibited,
                HostPrecedenceViolation,
                PrecedenceCutoff,
            ];
            let code = rng.usize_below(16);
            let mut b = vec![3u8, code as u8, 0, 0, 0, 0, 0, 0];
            if code == 4 {
                b[6] = (mtu >> 8) as u8;
                b[7] = (mtu & 0xff) as u8;
            }
            (Icmpv4Type::DestinationUnreachable(all[code].clone()), b, "DestinationUnreachable", true)
        }
        4 => {
            // RFC 792 redirect: type 5, codes 0..3, gateway address
            use RedirectCode::*;
            let all = [
                RedirectForNetwork,
                RedirectForHost,
                RedirectForTypeOfServiceAndNetwork,
                RedirectForTypeOfServiceAndHost,
            ];
            let code = rng.usize_below(4);
            let gw = addr4(rng);
            (
                Icmpv4Type::Redirect(RedirectHeader {
                    code: all[code].clone(),
                    gateway_internet_address: gw,
                }),
                vec![5, code as u8, 0, 0, gw[0], gw[1], gw[2], gw[3]],
                "Redirect",
                true,
            )
        }
        5 => {
            // RFC 792 time exceeded: type 11, codes 0,1
            let code = rng.usize_below(2);
            let all = [
                TimeExceededCode::TtlExceededInTransit,
                TimeExceededCode::FragmentReassemblyTimeExceeded,
            ];
            (
                Icmpv4Type::TimeExceeded(all[code].clone()),
                vec![11, code as u8, 0, 0, 0, 0, 0, 0],
                "TimeExceeded",
                true,
            )
        }
        6 => {
            // RFC 792 / RFC 1122 parameter problem: type 12; code 0 has the pointer in octet 4
            use ParameterProblemHeader::*;
            let p = rng.u8_corner();
            match rng.below(3) {
                0 => (
                    Icmpv4Type::ParameterProblem(PointerIndicatesError(p)),
                    vec![12, 0, 0, 0, p, 0, 0, 0],
                    "ParameterProblem",
                    true,
                ),
                1 => (
                    Icmpv4Type::ParameterProblem(MissingRequiredOption),
                    vec![12, 1, 0, 0, 0, 0, 0, 0],
                    "ParameterProblem",
                    true,
                ),
                _ => (
                    Icmpv4Type::ParameterProblem(BadLength),
                    vec![12, 2, 0, 0, 0, 0, 0, 0],
                    "ParameterProblem",
                    true,
                ),
            }
        }
        n => {
            // RFC 792 timestamp (13) / timestamp reply (14): id, seq, three 32 bit timestamps
            let msg = TimestampMessage {
                id,
                seq,
                originate_timestamp: rng.u32_corner(),
                receive_timestamp: rng.u32_corner(),
                transmit_timestamp: rng.u32_corner(),
            };
            let reply = n % 2 == 0;
            let mut b = vec![if reply { 14u8 } else { 13u8 }, 0, 0, 0];
            put16(&mut b, id);
            put16(&mut b, seq);
            put32(&mut b, msg.originate_timestamp);
            put32(&mut b, msg.receive_timestamp);
            put32(&mut b, msg.transmit_timestamp);
            if reply {
                (Icmpv4Type::TimestampReply(msg), b, "TimestampReply", true)
            } else {
                (Icmpv4Type::TimestampRequest(msg), b, "TimestampRequest", true)
            }
        }
    }
}

/// RFC 4443 / RFC 4861 message headers (first 8 octets), checksum zero
fn gen_icmpv6(rng: &mut Prng) -> (Icmpv6Type, Vec<u8>, &'static str) {
    use icmpv6::*;
    let id = rng.u16_corner();
    let seq = rng.u16_corner();
    match rng.below(13) {
        0 | 1 => {
            let t = rng.u8_corner();
            let c = rng.u8_corner();
            let mut b = [0u8; 4];
            rng.fill(&mut b);
            (
                Icmpv6Type::Unknown {
                    type_u8: t,
                    code_u8: c,
                    bytes5to8: b,
                },
                vec![t, c, 0, 0, b[0], b[1], b[2], b[3]],
                "Unknown",
            )
        }
        2 => {
            // RFC 4443 §3.1: type 1, codes 0..6, unused
            use DestUnreachableCode::*;
            let all = [
                NoRoute,
                Prohibited,
                BeyondScope,
                Address,
                Port,
                SourceAddressFailedPolicy,
                RejectRoute,
            ];
            let code = rng.usize_below(7);
            (
                Icmpv6Type::DestinationUnreachable(all[code]),
                vec![1, code as u8, 0, 0, 0, 0, 0, 0],
                "DestinationUnreachable",
            )
        }
        3 => {
            // RFC 4443 §3.2: type 2, code 0, MTU
            let mtu = rng.u32_corner();
            let mut b = vec![2u8, 0, 0, 0];
            put32(&mut b, mtu);
            (Icmpv6Type::PacketTooBig { mtu }, b, "PacketTooBig")
        }
        4 => {
            // RFC 4443 §3.3: type 3, codes 0,1
            let code = rng.usize_below(2);
            let all = [
                TimeExceededCode::HopLimitExceeded,
                TimeExceededCode::FragmentReassemblyTimeExceeded,
            ];
            (
                Icmpv6Type::TimeExceeded(all[code]),
                vec![3, code as u8, 0, 0, 0, 0, 0, 0],
                "TimeExceeded",
            )
        }
        5 => {
            // RFC 4443 §3.4 (+ IANA codes up to 10): type 4, pointer
            use ParameterProblemCode::*;
            let all = [
                ErroneousHeaderField,
                UnrecognizedNextHeader,
                UnrecognizedIpv6Option,
                Ipv6FirstFragmentIncompleteHeaderChain,
                SrUpperLayerHeaderError,
                UnrecognizedNextHeaderByIntermediateNode,
                ExtensionHeaderTooBig,
                ExtensionHeaderChainTooLong,
                TooManyExtensionHeaders,
                TooManyOptionsInExtensionHeader,
                OptionTooBig,
            ];
            let code = rng.usize_below(11);
            let pointer = rng.u32_corner();
            let mut b = vec![4u8, code as u8, 0, 0];
            put32(&mut b, pointer);
            (
                Icmpv6Type::ParameterProblem(ParameterProblemHeader {
                    code: all[code],
                    pointer,
                }),
                b,
                "ParameterProblem",
            )
        }
        6 => {
            let mut b = vec![128u8, 0, 0, 0];
            put16(&mut b, id);
            put16(&mut b, seq);
            (Icmpv6Type::EchoRequest(IcmpEchoHeader { id, seq }), b, "EchoRequest")
        }
        7 => {
            let mut b = vec![129u8, 0, 0, 0];
            put16(&mut b, id);
            put16(&mut b, seq);
            (Icmpv6Type::EchoReply(IcmpEchoHeader { id, seq }), b, "EchoReply")
        }
        // RFC 4861 §4.1: type 133, reserved
        8 => (Icmpv6Type::RouterSolicitation, vec![133, 0, 0, 0, 0, 0, 0, 0], "RouterSolicitation"),
        9 => {
            // RFC 4861 §4.2: type 134: cur hop limit, M|O|reserved, router lifetime
            let h = RouterAdvertisementHeader {
                cur_hop_limit: rng.u8_corner(),
                managed_address_config: rng.bool(),
                other_config: rng.bool(),
                router_lifetime: rng.u16_corner(),
            };
            let mut b = vec![
                134u8,
                0,
                0,
                0,
                h.cur_hop_limit,
                ((h.managed_address_config as u8) << 7) | ((h.other_config as u8) << 6),
            ];
            put16(&mut b, h.router_lifetime);
            (Icmpv6Type::RouterAdvertisement(h), b, "RouterAdvertisement")
        }
        // RFC 4861 §4.3: type 135, reserved
        10 => (
            Icmpv6Type::NeighborSolicitation,
            vec![135, 0, 0, 0, 0, 0, 0, 0],
            "NeighborSolicitation",
        ),
        11 => {
            // RFC 4861 §4.4: type 136: R|S|O|reserved
            let h = NeighborAdvertisementHeader {
                router: rng.bool(),
                solicited: rng.bool(),
                r#override: rng.bool(),
            };
            let f = ((h.router as u8) << 7) | ((h.solicited as u8) << 6) | ((h.r#override as u8) << 5);
            (
                Icmpv6Type::NeighborAdvertisement(h),
                vec![136, 0, 0, 0, f, 0, 0, 0],
                "NeighborAdvertisement",
            )
        }
        // RFC 4861 §4.5: type 137, reserved
        _ => (Icmpv6Type::Redirect, vec![137, 0, 0, 0, 0, 0, 0, 0], "Redirect"),
    }
}

/// RFC 1112 / RFC 2236 / RFC 3376 (RFC 9776) headers, checksum zero
fn gen_igmp(rng: &mut Prng) -> (IgmpType, Vec<u8>, &'static str) {
    use igmp::*;
    let g = addr4(rng);
    let ga = GroupAddress { octets: g };
    match rng.below(7) {
        0 => {
            let t = rng.u8_corner();
            (
                IgmpType::MembershipQuery(MembershipQueryType {
                    max_response_time: t,
                    group_address: ga,
                }),
                vec![0x11, t, 0, 0, g[0], g[1], g[2], g[3]],
                "MembershipQuery",
            )
        }
        1 => {
            // RFC 3376 §4.1: max resp code, group, Resv|S|QRV, QQIC, number of sources
            let code = rng.u8_corner();
            let raw8 = rng.u8_corner();
            let qqic = rng.u8_corner();
            let n = rng.u16_corner();
            let mut b = vec![0x11, code, 0, 0, g[0], g[1], g[2], g[3], raw8, qqic];
            put16(&mut b, n);
            (
                IgmpType::MembershipQueryWithSources(MembershipQueryWithSourcesHeader {
                    max_response_code: MaxResponseCode(code),
                    group_address: ga,
                    raw_byte_8: raw8,
                    qqic,
                    num_of_sources: n,
                }),
                b,
                "MembershipQueryWithSources",
            )
        }
        2 => (
            IgmpType::MembershipReportV1(MembershipReportV1Type { group_address: ga }),
            vec![0x12, 0, 0, 0, g[0], g[1], g[2], g[3]],
            "MembershipReportV1",
        ),
        3 => (
            IgmpType::MembershipReportV2(MembershipReportV2Type { group_address: ga }),
            vec![0x16, 0, 0, 0, g[0], g[1], g[2], g[3]],
            "MembershipReportV2",
        ),
        4 => {
            // RFC 3376 §4.2 / RFC 9776: reserved, checksum, flags (2), number of group records
            let flags = [rng.u8_corner(), rng.u8_corner()];
            let n = rng.u16_corner();
            let mut b = vec![0x22, 0, 0, 0, flags[0], flags[1]];
            put16(&mut b, n);
            (
                IgmpType::MembershipReportV3(MembershipReportV3Header {
                    flags,
                    num_of_records: n,
                }),
                b,
                "MembershipReportV3",
            )
        }
        5 => (
            IgmpType::LeaveGroup(LeaveGroupType { group_address: ga }),
            vec![0x17, 0, 0, 0, g[0], g[1], g[2], g[3]],
            "LeaveGroup",
        ),
        _ => {
            let t = rng.u8_corner();
            let b1 = rng.u8_corner();
            (
                IgmpType::Unknown(UnknownHeader {
                    igmp_type: t,
                    raw_byte_1: b1,
                    raw_bytes_4_7: g,
                }),
                vec![t, b1, 0, 0, g[0], g[1], g[2], g[3]],
                "Unknown",
            )
        }
    }
}

// ---------------------------------------------------------------------------------------------
// header level engines
// ---------------------------------------------------------------------------------------------

impl C09 {
    /// one observed checksum against the RFC value
    fn judge(&mut self, rep: &mut Report, routine: &str, got: u16, exp: u16, input: &[u8], ctx: &str) -> bool {
        rep.evals += 1;
        rep.count(&format!("checked.{}", routine));
        if got != exp {
            rep.violation(
                &format!("{}|wrong_checksum", routine),
                format!(
                    "{}: observed {:04x}, the RFC prescribes {:04x}; {} ; summed message (without pseudo header) = {}",
                    routine,
                    got,
                    exp,
                    ctx,
                    short_hex(input)
                ),
                trim(input),
            );
            return false;
        }
        true
    }

    /// like judge for `Result<u16, _>`: an error for a representable length is only counted
    fn judge_res<E: std::fmt::Debug>(
        &mut self,
        rep: &mut Report,
        routine: &str,
        got: Result<u16, E>,
        exp: u16,
        input: &[u8],
        ctx: &str,
    ) -> bool {
        match got {
            Ok(g) => self.judge(rep, routine, g, exp, input, ctx),
            Err(e) => {
                rep.count(&format!("refused.{}", routine));
                rep.note(&format!("NOTE {} returned {:?} for a payload the RFC length fields can carry", routine, e));
                false
            }
        }
    }

    /// emitted bytes must verify: the complete sum (with pseudo header) folds to 0xffff
    fn judge_emitted(&mut self, rep: &mut Report, routine: &str, parts: &[&[u8]], ctx: &str) {
        rep.evals += 1;
        rep.count(&format!("checked.{}", routine));
        let f = rf::folded_parts(parts);
        if f != 0xffff {
            let all: Vec<u8> = parts.iter().flat_map(|p| p.iter().copied()).collect();
            rep.violation(
                &format!("{}|emitted_bytes_do_not_verify", routine),
                format!(
                    "{}: complete one's complement sum of the emitted octets is {:04x}, not ffff; {} ; octets (incl. pseudo header) = {}",
                    routine,
                    f,
                    ctx,
                    short_hex(&all)
                ),
                trim(&all),
            );
        }
    }

    fn ipv4_case(&mut self, rep: &mut Report, rng: &mut Prng) {
        let spec = V4::gen(rng);
        let stored = rng.u16_corner();
        let zero_ck = spec.bytes(0);
        let exp = rf::ipv4_header(&zero_ck);
        let ctx = format!("{:?} stored header_checksum={:04x}", spec, stored);
        let h = guard!(rep, "Ipv4Header(construct)", spec.to_ep(stored));

        let c = guard!(rep, "Ipv4Header::calc_header_checksum", h.calc_header_checksum());
        self.judge(rep, "Ipv4Header::calc_header_checksum", c, exp, &zero_ck, &ctx);

        // write(): documented to calculate the checksum
        let w = guard!(rep, "Ipv4Header::write", {
            let mut v: Vec<u8> = Vec::new();
            h.write(&mut v).map(|_| v)
        });
        if let Ok(v) = w {
            if v.len() >= 20 {
                self.judge(rep, "Ipv4Header::write", get16(&v, 10), exp, &zero_ck, &ctx);
                self.judge_emitted(rep, "Ipv4Header::write(sum)", &[&v], &ctx);
            }
        }
        // to_bytes()/write_raw() emit the stored field: with the computed value stored they verify
        let mut h2 = h.clone();
        h2.header_checksum = c;
        let tb = guard!(rep, "Ipv4Header::to_bytes", h2.to_bytes());
        if c == exp {
            self.judge_emitted(rep, "Ipv4Header::to_bytes(after calc)", &[&tb[..]], &ctx);
        }
        let wr = guard!(rep, "Ipv4Header::write_raw", {
            let mut v: Vec<u8> = Vec::new();
            h2.write_raw(&mut v).map(|_| v)
        });
        if let (Ok(v), true) = (wr, c == exp) {
            self.judge_emitted(rep, "Ipv4Header::write_raw(after calc)", &[&v], &ctx);
        }
        // from a slice
        let wire_bytes = spec.bytes(stored);
        let parsed = guard!(rep, "Ipv4Header::from_slice", {
            Ipv4Header::from_slice(&wire_bytes).ok().map(|(p, _)| p.calc_header_checksum())
        });
        if let Some(pc) = parsed {
            self.judge(rep, "Ipv4Header::from_slice.calc_header_checksum", pc, exp, &zero_ck, &ctx);
        }
        let carry = rf::word_sum(&zero_ck) >= 0x1_0000;
        if carry {
            rep.count("carry.16bit_fold");
        }
        rep.sig(&format!("ipv4|opts{}|c{}|z{}", spec.opts.len(), carry as u8, (exp == 0) as u8));
        if rep.samples.len() < 2 && rng.chance(1, 50) {
            rep.sample(format!(
                "{{\"routine\":\"Ipv4Header::calc_header_checksum\",\"header_hex\":{},\"rfc\":\"{:04x}\",\"observed\":\"{:04x}\"}}",
                jstr(&hex(&zero_ck)),
                exp,
                c
            ));
        }
    }

    fn udp_case(&mut self, rep: &mut Report, rng: &mut Prng) {
        let v6 = rng.bool();
        let ip4 = V4::gen(rng);
        let ip6 = V6::gen(rng);
        let sp = rng.u16_corner();
        let dp = rng.u16_corner();
        let mut n = payload_len(rng);
        if rng.chance(1, 400) {
            n = 65527 - rng.usize_below(3);
        }
        let mut pay = payload(rng, n);
        let len = (8 + n) as u16;
        let garbage = rng.u16_corner();
        let fam = if v6 { "ipv6" } else { "ipv4" };
        let word_sum_all = |hdr: &[u8], pay: &[u8]| -> u64 {
            let mut z = hdr.to_vec();
            z[6] = 0;
            z[7] = 0;
            let ps = if v6 {
                rf::word_sum(&rf::pseudo_v6(ip6.src, ip6.dst, get16(hdr, 4) as u32, 17))
            } else {
                rf::word_sum(&rf::pseudo_v4(ip4.src, ip4.dst, 17, get16(hdr, 4)))
            };
            ps + rf::word_sum(&z) + rf::word_sum(pay)
        };
        // a computed checksum of zero: solve for two payload octets at an even offset
        let zero_case = n >= 2 && rng.chance(1, 4);
        if zero_case {
            let at = 2 * rng.usize_below(n / 2);
            pay[at] = 0;
            pay[at + 1] = 0;
            let fix = solve_zero(word_sum_all(&udp_bytes(sp, dp, len, 0), &pay));
            pay[at] = fix[0];
            pay[at + 1] = fix[1];
        }
        let hdr0 = udp_bytes(sp, dp, len, 0);
        let (exp, computed) = if v6 {
            (rf::udp_v6(ip6.src, ip6.dst, &hdr0, &pay), rf::udp_v6_computed(ip6.src, ip6.dst, &hdr0, &pay))
        } else {
            (rf::udp_v4(ip4.src, ip4.dst, &hdr0, &pay), rf::udp_v4_computed(ip4.src, ip4.dst, &hdr0, &pay))
        };
        if zero_case && computed != 0 {
            rep.selfcheck_fail(format!("solve_zero did not produce a zero UDP checksum ({:04x})", computed));
        }
        if computed == 0 {
            rep.count("udp.computed_zero_cases");
            if exp != 0xffff {
                rep.selfcheck_fail("reference UDP zero rule".to_string());
            }
        }
        let mut msg = hdr0.clone();
        msg.extend_from_slice(&pay);
        let ctx = format!(
            "UDP over {} src={} dst={} sp={} dp={} length={} payload_len={} computed_before_zero_rule={:04x}",
            fam,
            if v6 { hex(&ip6.src) } else { hex(&ip4.src) },
            if v6 { hex(&ip6.dst) } else { hex(&ip4.dst) },
            sp,
            dp,
            len,
            n,
            computed
        );
        let h4 = guard!(rep, "Ipv4Header(construct)", ip4.to_ep(0));
        let h6 = guard!(rep, "Ipv6Header(construct)", ip6.to_ep());
        let stale = UdpHeader {
            source_port: sp,
            destination_port: dp,
            length: len,
            checksum: garbage,
        };
        let mut wire_bytes = udp_bytes(sp, dp, len, garbage);
        wire_bytes.extend_from_slice(&pay);

        if v6 {
            let r = guard!(rep, "UdpHeader::with_ipv6_checksum", UdpHeader::with_ipv6_checksum(sp, dp, &h6, &pay));
            match r {
                Ok(h) => {
                    self.judge(rep, "UdpHeader::with_ipv6_checksum", h.checksum, exp, &msg, &ctx);
                    if h.length != len || h.source_port != sp || h.destination_port != dp {
                        rep.note("NOTE UdpHeader::with_ipv6_checksum returned other port/length fields than given");
                    }
                }
                Err(_) => rep.count("refused.UdpHeader::with_ipv6_checksum"),
            }
            let r = guard!(rep, "UdpHeader::calc_checksum_ipv6", stale.calc_checksum_ipv6(&h6, &pay));
            self.judge_res(rep, "UdpHeader::calc_checksum_ipv6", r, exp, &msg, &ctx);
            let r = guard!(rep, "UdpHeader::calc_checksum_ipv6_raw", stale.calc_checksum_ipv6_raw(ip6.src, ip6.dst, &pay));
            self.judge_res(rep, "UdpHeader::calc_checksum_ipv6_raw", r, exp, &msg, &ctx);
            let r = guard!(rep, "UdpHeaderSlice.to_header.calc_checksum_ipv6_raw", {
                UdpHeaderSlice::from_slice(&wire_bytes)
                    .ok()
                    .map(|s| s.to_header().calc_checksum_ipv6_raw(ip6.src, ip6.dst, &wire_bytes[8..]))
            });
            if let Some(r) = r {
                self.judge_res(rep, "UdpHeaderSlice.to_header.calc_checksum_ipv6_raw", r, exp, &msg, &ctx);
            }
            let r = guard!(rep, "UdpSlice.to_header.calc_checksum_ipv6_raw", {
                UdpSlice::from_slice(&wire_bytes)
                    .ok()
                    .map(|s| s.to_header().calc_checksum_ipv6_raw(ip6.src, ip6.dst, s.payload()))
            });
            if let Some(r) = r {
                self.judge_res(rep, "UdpSlice.to_header.calc_checksum_ipv6_raw", r, exp, &msg, &ctx);
            }
        } else {
            let r = guard!(rep, "UdpHeader::with_ipv4_checksum", UdpHeader::with_ipv4_checksum(sp, dp, &h4, &pay));
            match r {
                Ok(h) => {
                    self.judge(rep, "UdpHeader::with_ipv4_checksum", h.checksum, exp, &msg, &ctx);
                    if h.length != len || h.source_port != sp || h.destination_port != dp {
                        rep.note("NOTE UdpHeader::with_ipv4_checksum returned other port/length fields than given");
                    }
                }
                Err(_) => rep.count("refused.UdpHeader::with_ipv4_checksum"),
            }
            let r = guard!(rep, "UdpHeader::calc_checksum_ipv4", stale.calc_checksum_ipv4(&h4, &pay));
            self.judge_res(rep, "UdpHeader::calc_checksum_ipv4", r, exp, &msg, &ctx);
            let r = guard!(rep, "UdpHeader::calc_checksum_ipv4_raw", stale.calc_checksum_ipv4_raw(ip4.src, ip4.dst, &pay));
            self.judge_res(rep, "UdpHeader::calc_checksum_ipv4_raw", r, exp, &msg, &ctx);
            let r = guard!(rep, "UdpHeaderSlice.to_header.calc_checksum_ipv4_raw", {
                UdpHeaderSlice::from_slice(&wire_bytes)
                    .ok()
                    .map(|s| s.to_header().calc_checksum_ipv4_raw(ip4.src, ip4.dst, &wire_bytes[8..]))
            });
            if let Some(r) = r {
                self.judge_res(rep, "UdpHeaderSlice.to_header.calc_checksum_ipv4_raw", r, exp, &msg, &ctx);
            }
            let r = guard!(rep, "UdpSlice.to_header.calc_checksum_ipv4_raw", {
                UdpSlice::from_slice(&wire_bytes)
                    .ok()
                    .map(|s| s.to_header().calc_checksum_ipv4_raw(ip4.src, ip4.dst, s.payload()))
            });
            if let Some(r) = r {
                self.judge_res(rep, "UdpSlice.to_header.calc_checksum_ipv4_raw", r, exp, &msg, &ctx);
            }
        }
        // the transmitted value is never 0
        if exp == 0 {
            rep.selfcheck_fail("reference produced a zero UDP checksum".to_string());
        }

        // a length field that differs from 8 + payload: the pseudo header carries the field
        // (RFC 768 "UDP length", RFC 8200 §8.1)
        if rng.chance(1, 6) {
            let odd_len = rng.u16_corner();
            let hdr_b = udp_bytes(sp, dp, odd_len, 0);
            let h = UdpHeader {
                source_port: sp,
                destination_port: dp,
                length: odd_len,
                checksum: garbage,
            };
            let mut m2 = hdr_b.clone();
            m2.extend_from_slice(&pay);
            let ctx2 = format!("{} ; length field set to {}", ctx, odd_len);
            if v6 {
                let e = rf::udp_v6(ip6.src, ip6.dst, &hdr_b, &pay);
                let r = guard!(rep, "UdpHeader::calc_checksum_ipv6_raw", h.calc_checksum_ipv6_raw(ip6.src, ip6.dst, &pay));
                self.judge_res(rep, "UdpHeader::calc_checksum_ipv6_raw(length field)", r, e, &m2, &ctx2);
            } else {
                let e = rf::udp_v4(ip4.src, ip4.dst, &hdr_b, &pay);
                let r = guard!(rep, "UdpHeader::calc_checksum_ipv4_raw", h.calc_checksum_ipv4_raw(ip4.src, ip4.dst, &pay));
                self.judge_res(rep, "UdpHeader::calc_checksum_ipv4_raw(length field)", r, e, &m2, &ctx2);
            }
        }
        let carry = word_sum_all(&hdr0, &pay) >= 0x1_0000;
        if carry {
            rep.count("carry.16bit_fold");
        }
        rep.sig(&format!(
            "udp|{}|{}|a{}|c{}|z{}",
            fam,
            len_parity_class(n),
            pay.as_ptr() as usize % 8,
            carry as u8,
            (computed == 0) as u8
        ));
        if rep.samples.len() < 3 && n < 24 && computed == 0 {
            rep.sample(format!(
                "{{\"routine\":\"UdpHeader::with_{}_checksum (computed 0)\",\"udp_header_and_payload_hex\":{},\"rfc\":\"{:04x}\",\"context\":{}}}",
                fam,
                jstr(&hex(&msg)),
                exp,
                jstr(&ctx)
            ));
        }
    }
}

impl C09 {
    fn tcp_case(&mut self, rep: &mut Report, rng: &mut Prng) {
        let v6 = rng.bool();
        let ip4 = V4::gen(rng);
        let ip6 = V6::gen(rng);
        let spec = TcpSpec::gen(rng);
        let hl = 20 + spec.opts.len();
        let mut n = payload_len(rng);
        if rng.chance(1, 120) {
            // IPv6: the 32 bit upper-layer length has non-zero upper half; IPv4: the largest segment
            n = if v6 { rng.range(65536 - 60, 70000) as usize } else { 65535 - hl - rng.usize_below(2) };
        }
        let mut pay = payload(rng, n);
        let garbage = rng.u16_corner();
        let reserved = if rng.chance(1, 2) { 0 } else { rng.u8() & 7 };
        let fam = if v6 { "ipv6" } else { "ipv4" };
        let total = hl + n;
        let pseudo_sum = if v6 {
            rf::word_sum(&rf::pseudo_v6(ip6.src, ip6.dst, total as u32, 6))
        } else {
            rf::word_sum(&rf::pseudo_v4(ip4.src, ip4.dst, 6, total as u16))
        };
        // computed checksum 0 (TCP transmits it as it is): solve two payload octets (struct path)
        let zero_case = n >= 2 && rng.chance(1, 8);
        if zero_case {
            let at = 2 * rng.usize_below(n / 2);
            pay[at] = 0;
            pay[at + 1] = 0;
            let fix = solve_zero(pseudo_sum + rf::word_sum(&spec.bytes(0, 0)) + rf::word_sum(&pay));
            pay[at] = fix[0];
            pay[at + 1] = fix[1];
        }
        let hdr_plain = spec.bytes(0, 0);
        let hdr_res = spec.bytes(0, reserved);
        let refsum = |hdr: &[u8]| -> Option<u16> {
            if v6 {
                rf::tcp_v6(ip6.src, ip6.dst, hdr, &pay)
            } else {
                rf::tcp_v4(ip4.src, ip4.dst, hdr, &pay)
            }
        };
        let (exp, exp_res) = match (refsum(&hdr_plain), refsum(&hdr_res)) {
            (Some(a), Some(b)) => (a, b),
            _ => return,
        };
        if zero_case {
            if exp != 0 {
                rep.selfcheck_fail(format!("solve_zero did not produce a zero TCP checksum ({:04x})", exp));
            }
            rep.count("tcp.computed_zero_cases");
        }
        let mut msg = hdr_plain.clone();
        msg.extend_from_slice(&pay);
        let mut msg_res = hdr_res.clone();
        msg_res.extend_from_slice(&pay);
        let ctx = format!(
            "TCP over {} src={} dst={} header_len={} payload_len={} reserved_bits={}",
            fam,
            if v6 { hex(&ip6.src) } else { hex(&ip4.src) },
            if v6 { hex(&ip6.dst) } else { hex(&ip4.dst) },
            hl,
            n,
            reserved
        );
        let h = guard!(rep, "TcpHeader(construct)", spec.to_ep(garbage));
        let hlen = guard!(rep, "TcpHeader::header_len", h.header_len());
        if hlen != hl {
            rep.note("NOTE TcpHeader::header_len differs from 20 + options: case skipped");
            return;
        }
        let h4 = guard!(rep, "Ipv4Header(construct)", ip4.to_ep(0));
        let h6 = guard!(rep, "Ipv6Header(construct)", ip6.to_ep());
        // bytes as a receiver sees them: stale checksum field, reserved bits
        let mut wire_hdr = spec.bytes(garbage, reserved);
        let ip4_bytes = ip4.bytes(0);
        let ip6_bytes = ip6.bytes();

        if v6 {
            let r = guard!(rep, "TcpHeader::calc_checksum_ipv6", h.calc_checksum_ipv6(&h6, &pay));
            self.judge_res(rep, "TcpHeader::calc_checksum_ipv6", r, exp, &msg, &ctx);
            let r = guard!(rep, "TcpHeader::calc_checksum_ipv6_raw", h.calc_checksum_ipv6_raw(ip6.src, ip6.dst, &pay));
            self.judge_res(rep, "TcpHeader::calc_checksum_ipv6_raw", r, exp, &msg, &ctx);
            let r = guard!(rep, "TcpHeaderSlice::calc_checksum_ipv6", {
                match (TcpHeaderSlice::from_slice(&wire_hdr), Ipv6HeaderSlice::from_slice(&ip6_bytes)) {
                    (Ok(s), Ok(i)) => Some((
                        s.calc_checksum_ipv6(&i, &pay),
                        s.calc_checksum_ipv6_raw(ip6.src, ip6.dst, &pay),
                        s.to_header().calc_checksum_ipv6_raw(ip6.src, ip6.dst, &pay),
                    )),
                    _ => None,
                }
            });
            if let Some((a, b, c)) = r {
                self.judge_res(rep, "TcpHeaderSlice::calc_checksum_ipv6", a, exp_res, &msg_res, &ctx);
                self.judge_res(rep, "TcpHeaderSlice::calc_checksum_ipv6_raw", b, exp_res, &msg_res, &ctx);
                // the struct has no reserved bits
                self.judge_res(rep, "TcpHeaderSlice.to_header.calc_checksum_ipv6_raw", c, exp, &msg, &ctx);
            }
        } else {
            let r = guard!(rep, "TcpHeader::calc_checksum_ipv4", h.calc_checksum_ipv4(&h4, &pay));
            self.judge_res(rep, "TcpHeader::calc_checksum_ipv4", r, exp, &msg, &ctx);
            let r = guard!(rep, "TcpHeader::calc_checksum_ipv4_raw", h.calc_checksum_ipv4_raw(ip4.src, ip4.dst, &pay));
            self.judge_res(rep, "TcpHeader::calc_checksum_ipv4_raw", r, exp, &msg, &ctx);
            let r = guard!(rep, "TcpHeaderSlice::calc_checksum_ipv4", {
                match (TcpHeaderSlice::from_slice(&wire_hdr), Ipv4HeaderSlice::from_slice(&ip4_bytes)) {
                    (Ok(s), Ok(i)) => Some((
                        s.calc_checksum_ipv4(&i, &pay),
                        s.calc_checksum_ipv4_raw(ip4.src, ip4.dst, &pay),
                        s.to_header().calc_checksum_ipv4_raw(ip4.src, ip4.dst, &pay),
                    )),
                    _ => None,
                }
            });
            if let Some((a, b, c)) = r {
                self.judge_res(rep, "TcpHeaderSlice::calc_checksum_ipv4", a, exp_res, &msg_res, &ctx);
                self.judge_res(rep, "TcpHeaderSlice::calc_checksum_ipv4_raw", b, exp_res, &msg_res, &ctx);
                self.judge_res(rep, "TcpHeaderSlice.to_header.calc_checksum_ipv4_raw", c, exp, &msg, &ctx);
            }
        }
        // TcpSlice: header and payload in one slice
        wire_hdr.extend_from_slice(&pay);
        let r = guard!(rep, "TcpSlice::calc_checksum", {
            TcpSlice::from_slice(&wire_hdr).ok().map(|s| {
                if v6 {
                    s.calc_checksum_ipv6(ip6.src, ip6.dst)
                } else {
                    s.calc_checksum_ipv4(ip4.src, ip4.dst)
                }
            })
        });
        if let Some(r) = r {
            let name = if v6 { "TcpSlice::calc_checksum_ipv6" } else { "TcpSlice::calc_checksum_ipv4" };
            self.judge_res(rep, name, r, exp_res, &msg_res, &ctx);
        }
        if n > 65535 {
            rep.count("tcp.ipv6_length_above_16bit");
        }
        let carry = pseudo_sum + rf::word_sum(&msg) >= 0x1_0000;
        if carry {
            rep.count("carry.16bit_fold");
        }
        rep.sig(&format!(
            "tcp|{}|{}|o{}|a{}|c{}|z{}",
            fam,
            len_parity_class(n),
            spec.opts.len(),
            pay.as_ptr() as usize % 8,
            carry as u8,
            (exp == 0) as u8
        ));
        if rep.want_sample() && n < 16 && rng.chance(1, 20) {
            rep.sample(format!(
                "{{\"routine\":\"TcpHeader/TcpHeaderSlice/TcpSlice::calc_checksum_{}\",\"tcp_header_and_payload_hex\":{},\"rfc\":\"{:04x}\",\"context\":{}}}",
                fam,
                jstr(&hex(&msg_res)),
                exp_res,
                jstr(&ctx)
            ));
        }
    }
}

impl C09 {
    fn icmpv4_case(&mut self, rep: &mut Report, rng: &mut Prng) {
        let (ty, hdr0, name, canonical) = gen_icmpv4(rng);
        let n = payload_len(rng);
        let mut pay = payload(rng, n);
        if n >= 2 && rng.chance(1, 10) {
            // computed checksum 0
            let at = 2 * rng.usize_below(n / 2);
            pay[at] = 0;
            pay[at + 1] = 0;
            let fix = solve_zero(rf::word_sum(&hdr0) + rf::word_sum(&pay));
            pay[at] = fix[0];
            pay[at + 1] = fix[1];
            rep.count("icmpv4.computed_zero_cases");
        }
        let mut msg = hdr0.clone();
        msg.extend_from_slice(&pay);
        let exp = rf::icmpv4(&msg);
        let ctx = format!("ICMPv4 {} {:?} payload_len={}", name, ty, n);
        let garbage = rng.u16_corner();

        let c = guard!(rep, "Icmpv4Type::calc_checksum", ty.calc_checksum(&pay));
        self.judge(rep, &format!("Icmpv4Type::calc_checksum[{}]", name), c, exp, &msg, &ctx);
        let h = guard!(rep, "Icmpv4Header::with_checksum", Icmpv4Header::with_checksum(ty.clone(), &pay));
        self.judge(rep, "Icmpv4Header::with_checksum", h.checksum, exp, &msg, &ctx);
        let mut h2 = Icmpv4Header {
            icmp_type: ty.clone(),
            checksum: garbage,
        };
        guard!(rep, "Icmpv4Header::update_checksum", h2.update_checksum(&pay));
        if self.judge(rep, "Icmpv4Header::update_checksum", h2.checksum, exp, &msg, &ctx) {
            // what is emitted with the filled in checksum verifies
            let tb = guard!(rep, "Icmpv4Header::to_bytes", h2.to_bytes());
            self.judge_emitted(rep, "Icmpv4Header::to_bytes(after update_checksum)", &[&tb[..], &pay], &ctx);
        }
        // from a slice (only where re-parsing keeps every octet)
        if canonical {
            let mut wire_bytes = msg.clone();
            wire_bytes[2] = (garbage >> 8) as u8;
            wire_bytes[3] = (garbage & 0xff) as u8;
            let r = guard!(rep, "Icmpv4Header::from_slice", {
                Icmpv4Header::from_slice(&wire_bytes)
                    .ok()
                    .map(|(p, rest)| p.icmp_type.calc_checksum(rest))
            });
            if let Some(pc) = r {
                self.judge(rep, "Icmpv4Header::from_slice.calc_checksum", pc, exp, &msg, &ctx);
            }
        }
        let carry = rf::word_sum(&msg) >= 0x1_0000;
        if carry {
            rep.count("carry.16bit_fold");
        }
        rep.sig(&format!(
            "icmpv4|{}|{}|a{}|c{}|z{}",
            name,
            len_parity_class(n),
            pay.as_ptr() as usize % 8,
            carry as u8,
            (exp == 0) as u8
        ));
        if rep.want_sample() && n < 12 && rng.chance(1, 20) {
            rep.sample(format!(
                "{{\"routine\":\"Icmpv4Type::calc_checksum\",\"message_hex\":{},\"rfc\":\"{:04x}\",\"observed\":\"{:04x}\"}}",
                jstr(&hex(&msg)),
                exp,
                c
            ));
        }
    }

    fn icmpv6_case(&mut self, rep: &mut Report, rng: &mut Prng) {
        let (ty, hdr0, name) = gen_icmpv6(rng);
        let src = addr6(rng);
        let dst = addr6(rng);
        let mut n = payload_len(rng);
        if rng.chance(1, 120) {
            n = rng.range(65536 - 8, 70000) as usize;
        }
        let mut pay = payload(rng, n);
        let total = 8 + n;
        if n >= 2 && rng.chance(1, 10) {
            let at = 2 * rng.usize_below(n / 2);
            pay[at] = 0;
            pay[at + 1] = 0;
            let ps = rf::word_sum(&rf::pseudo_v6(src, dst, total as u32, 58));
            let fix = solve_zero(ps + rf::word_sum(&hdr0) + rf::word_sum(&pay));
            pay[at] = fix[0];
            pay[at + 1] = fix[1];
            rep.count("icmpv6.computed_zero_cases");
        }
        let mut msg = hdr0.clone();
        msg.extend_from_slice(&pay);
        let exp = match rf::icmpv6(src, dst, &msg) {
            Some(e) => e,
            None => return,
        };
        let ctx = format!("ICMPv6 {} {:?} src={} dst={} payload_len={}", name, ty, hex(&src), hex(&dst), n);
        let garbage = rng.u16_corner();

        let r = guard!(rep, "Icmpv6Type::calc_checksum", ty.calc_checksum(src, dst, &pay));
        self.judge_res(rep, &format!("Icmpv6Type::calc_checksum[{}]", name), r, exp, &msg, &ctx);
        let r = guard!(rep, "Icmpv6Header::with_checksum", {
            Icmpv6Header::with_checksum(ty.clone(), src, dst, &pay).map(|h| h.checksum)
        });
        self.judge_res(rep, "Icmpv6Header::with_checksum", r, exp, &msg, &ctx);
        let r = guard!(rep, "Icmpv6Type::to_header", ty.clone().to_header(src, dst, &pay).map(|h| h.checksum));
        self.judge_res(rep, "Icmpv6Type::to_header", r, exp, &msg, &ctx);
        let mut h2 = Icmpv6Header {
            icmp_type: ty.clone(),
            checksum: garbage,
        };
        let r = guard!(rep, "Icmpv6Header::update_checksum", h2.update_checksum(src, dst, &pay));
        if r.is_ok() {
            if self.judge(rep, "Icmpv6Header::update_checksum", h2.checksum, exp, &msg, &ctx) {
                let tb = guard!(rep, "Icmpv6Header::to_bytes", h2.to_bytes());
                let ps = rf::pseudo_v6(src, dst, total as u32, 58);
                self.judge_emitted(
                    rep,
                    "Icmpv6Header::to_bytes(after update_checksum)",
                    &[&ps, &tb[..], &pay],
                    &ctx,
                );
                // ... and the crate's own validation accepts it
                let mut out: Vec<u8> = tb.to_vec();
                out.extend_from_slice(&pay);
                let ok = guard!(rep, "Icmpv6Slice::is_checksum_valid", {
                    Icmpv6Slice::from_slice(&out).ok().map(|s| s.is_checksum_valid(src, dst))
                });
                if let Some(ok) = ok {
                    let want = rf::icmpv6_verifies(src, dst, &out);
                    self.judge_valid(rep, ok, want, src, dst, &out, "emitted by Icmpv6Header");
                }
            }
        } else {
            rep.count("refused.Icmpv6Header::update_checksum");
        }
        // from a slice (documented to assume zero "unused" octets: only where re-parsing keeps
        // every octet of the header)
        let known = [1u8, 2, 3, 4, 128, 129, 133, 134, 135, 136, 137].contains(&hdr0[0]);
        if name != "Unknown" || !known {
            let mut wire_bytes = msg.clone();
            wire_bytes[2] = (garbage >> 8) as u8;
            wire_bytes[3] = (garbage & 0xff) as u8;
            let r = guard!(rep, "Icmpv6Header::from_slice", {
                Icmpv6Header::from_slice(&wire_bytes)
                    .ok()
                    .map(|(p, rest)| p.icmp_type.calc_checksum(src, dst, rest))
            });
            if let Some(r) = r {
                self.judge_res(rep, "Icmpv6Header::from_slice.calc_checksum", r, exp, &msg, &ctx);
            }
        }
        if n > 65535 - 8 {
            rep.count("icmpv6.length_above_16bit");
        }
        let carry = rf::word_sum(&msg) >= 0x1_0000;
        rep.sig(&format!(
            "icmpv6|{}|{}|a{}|c{}|z{}",
            name,
            len_parity_class(n),
            pay.as_ptr() as usize % 8,
            carry as u8,
            (exp == 0) as u8
        ));
        if rep.want_sample() && n < 12 && rng.chance(1, 20) {
            rep.sample(format!(
                "{{\"routine\":\"Icmpv6Type::calc_checksum\",\"src\":{},\"dst\":{},\"message_hex\":{},\"rfc\":\"{:04x}\"}}",
                jstr(&hex(&src)),
                jstr(&hex(&dst)),
                jstr(&hex(&msg)),
                exp
            ));
        }
    }

    fn judge_valid(&mut self, rep: &mut Report, got: bool, want: bool, src: [u8; 16], dst: [u8; 16], msg: &[u8], kind: &str) {
        rep.evals += 1;
        rep.count("checked.Icmpv6Slice::is_checksum_valid");
        rep.count(if want { "is_checksum_valid.expect_true" } else { "is_checksum_valid.expect_false" });
        if got != want {
            let ps = rf::pseudo_v6(src, dst, msg.len() as u32, 58);
            rep.violation(
                &format!("Icmpv6Slice::is_checksum_valid|{}", if want { "rejects_valid" } else { "accepts_invalid" }),
                format!(
                    "is_checksum_valid -> {} but the complete sum (pseudo header + message) folds to {:04x} ({}); src={} dst={} message={}",
                    got,
                    rf::folded_parts(&[&ps, msg]),
                    kind,
                    hex(&src),
                    hex(&dst),
                    short_hex(msg)
                ),
                trim(msg),
            );
        } else {
            rep.count(if got { "is_checksum_valid.true_seen" } else { "is_checksum_valid.false_seen" });
        }
    }

    /// `Icmpv6Slice::is_checksum_valid` accepts exactly the messages that verify
    fn icmpv6_valid_case(&mut self, rep: &mut Report, rng: &mut Prng) {
        let mut src = addr6(rng);
        let mut dst = addr6(rng);
        let kind = rng.below(8);
        let mut msg: Vec<u8>;
        let label: &str;
        if kind == 0 {
            // arbitrary octets
            let span = if rng.bool() { 8 } else { 200 };
            let n = 8 + rng.usize_below(span);
            msg = rng.bytes(n);
            label = "random";
        } else {
            let (_, hdr0, _) = gen_icmpv6(rng);
            let n = if rng.chance(1, 200) { rng.range(65528, 67000) as usize } else { payload_len(rng) };
            msg = hdr0;
            msg.extend_from_slice(&payload(rng, n));
            let zero = kind == 7 && n >= 2;
            if zero {
                // computed checksum 0: the field may carry 0x0000 or 0xffff, both sums are ffff
                let at = 8 + 2 * rng.usize_below(n / 2);
                msg[at] = 0;
                msg[at + 1] = 0;
                let ps = rf::word_sum(&rf::pseudo_v6(src, dst, msg.len() as u32, 58));
                let fix = solve_zero(ps + rf::word_sum(&msg));
                msg[at] = fix[0];
                msg[at + 1] = fix[1];
            }
            let c = rf::icmpv6(src, dst, &msg).unwrap_or(0);
            msg[2] = (c >> 8) as u8;
            msg[3] = (c & 0xff) as u8;
            if !rf::icmpv6_verifies(src, dst, &msg) {
                rep.selfcheck_fail("reference: computed ICMPv6 checksum does not verify".to_string());
            }
            match kind {
                1 | 2 => label = "valid",
                3 => {
                    // one bit off in the message (incl. the checksum field)
                    let bit = rng.usize_below(msg.len() * 8);
                    msg[bit / 8] ^= 1 << (bit % 8);
                    label = "one bit off (message)";
                }
                4 => {
                    // one bit off in an address
                    let bit = rng.usize_below(256);
                    if bit < 128 {
                        src[bit / 8] ^= 1 << (bit % 8);
                    } else {
                        dst[(bit - 128) / 8] ^= 1 << (bit % 8);
                    }
                    label = "one bit off (address)";
                }
                5 => {
                    // two aligned words exchanged: the sum does not depend on the order
                    let w = msg.len() / 2;
                    let a = 2 * rng.usize_below(w);
                    let b = 2 * rng.usize_below(w);
                    msg.swap(a, b);
                    msg.swap(a + 1, b + 1);
                    label = "words exchanged";
                }
                6 => {
                    // length changed by appending a zero octet pair: only the pseudo header differs
                    msg.push(0);
                    msg.push(0);
                    label = "two zero octets appended";
                }
                _ => {
                    if zero && rng.bool() {
                        msg[2] = 0xff;
                        msg[3] = 0xff;
                        label = "computed 0, field ffff";
                    } else {
                        label = if zero { "computed 0, field 0000" } else { "valid" };
                    }
                }
            }
        }
        let want = rf::icmpv6_verifies(src, dst, &msg);
        if label.starts_with("one bit off") && want {
            rep.selfcheck_fail("reference: a single bit error verifies".to_string());
        }
        let got = guard!(rep, "Icmpv6Slice::is_checksum_valid", {
            Icmpv6Slice::from_slice(&msg).ok().map(|s| s.is_checksum_valid(src, dst))
        });
        let got = match got {
            Some(g) => g,
            None => return,
        };
        self.judge_valid(rep, got, want, src, dst, &msg, label);
        rep.sig(&format!(
            "valid|{}|{}|a{}|{}",
            label,
            len_parity_class(msg.len()),
            msg.as_ptr() as usize % 8,
            want
        ));
        if rep.want_sample() && msg.len() < 20 && rng.chance(1, 10) {
            rep.sample(format!(
                "{{\"routine\":\"Icmpv6Slice::is_checksum_valid\",\"kind\":{},\"src\":{},\"dst\":{},\"message_hex\":{},\"verifies\":{},\"observed\":{}}}",
                jstr(label),
                jstr(&hex(&src)),
                jstr(&hex(&dst)),
                jstr(&hex(&msg)),
                want,
                got
            ));
        }
    }

    fn igmp_case(&mut self, rep: &mut Report, rng: &mut Prng) {
        let (ty, hdr0, name) = gen_igmp(rng);
        let n = match rng.below(4) {
            0 => 0,
            1 => 4 * rng.usize_below(40),
            _ => payload_len(rng),
        };
        let mut pay = payload(rng, n);
        if n >= 2 && rng.chance(1, 10) {
            let at = 2 * rng.usize_below(n / 2);
            pay[at] = 0;
            pay[at + 1] = 0;
            let fix = solve_zero(rf::word_sum(&hdr0) + rf::word_sum(&pay));
            pay[at] = fix[0];
            pay[at + 1] = fix[1];
            rep.count("igmp.computed_zero_cases");
        }
        let mut msg = hdr0.clone();
        msg.extend_from_slice(&pay);
        let exp = rf::igmp(&msg);
        let ctx = format!("IGMP {} {:?} payload_len={}", name, ty, n);
        let garbage = rng.u16_corner();
        let stale = IgmpHeader {
            igmp_type: ty.clone(),
            checksum: garbage,
        };
        let c = guard!(rep, "IgmpHeader::calc_checksum", stale.calc_checksum(&pay));
        self.judge(rep, &format!("IgmpHeader::calc_checksum[{}]", name), c, exp, &msg, &ctx);
        let h = guard!(rep, "IgmpHeader::with_checksum", IgmpHeader::with_checksum(ty.clone(), &pay));
        if self.judge(rep, "IgmpHeader::with_checksum", h.checksum, exp, &msg, &ctx) {
            let tb = guard!(rep, "IgmpHeader::to_bytes", h.to_bytes());
            self.judge_emitted(rep, "IgmpHeader::to_bytes(with_checksum)", &[&tb[..], &pay], &ctx);
        }
        // from a slice (not for raw headers whose type octet re-parses as a typed message that
        // drops the "unused" octet)
        let canonical = !(name == "Unknown" && [0x11u8, 0x12, 0x16, 0x17, 0x22].contains(&hdr0[0]));
        let mut wire_bytes = msg.clone();
        wire_bytes[2] = (garbage >> 8) as u8;
        wire_bytes[3] = (garbage & 0xff) as u8;
        let r = guard!(rep, "IgmpHeader::from_slice", {
            if canonical {
                IgmpHeader::from_slice(&wire_bytes).ok().map(|(p, rest)| p.calc_checksum(rest))
            } else {
                None
            }
        });
        if let Some(pc) = r {
            self.judge(rep, "IgmpHeader::from_slice.calc_checksum", pc, exp, &msg, &ctx);
        }
        let carry = rf::word_sum(&msg) >= 0x1_0000;
        rep.sig(&format!(
            "igmp|{}|{}|a{}|c{}|z{}",
            name,
            len_parity_class(n),
            pay.as_ptr() as usize % 8,
            carry as u8,
            (exp == 0) as u8
        ));
    }
}

impl C09 {
    /// `TransportHeader::update_checksum_ipv4 / _ipv6`
    fn transport_case(&mut self, rep: &mut Report, rng: &mut Prng) {
        let v6 = rng.bool();
        let ip4 = V4::gen(rng);
        let ip6 = V6::gen(rng);
        let n = payload_len(rng);
        let pay = payload(rng, n);
        let garbage = rng.u16_corner();
        let h4 = guard!(rep, "Ipv4Header(construct)", ip4.to_ep(0));
        let h6 = guard!(rep, "Ipv6Header(construct)", ip6.to_ep());
        let fam = if v6 { "ipv6" } else { "ipv4" };
        let routine = if v6 { "TransportHeader::update_checksum_ipv6" } else { "TransportHeader::update_checksum_ipv4" };
        // (header, own serialisation with zero checksum, expected)
        let (mut th, msg, exp, kind): (TransportHeader, Vec<u8>, u16, &str) = match rng.below(if v6 { 3 } else { 3 }) {
            0 => {
                let sp = rng.u16_corner();
                let dp = rng.u16_corner();
                let len = (8 + n) as u16;
                let hdr = udp_bytes(sp, dp, len, 0);
                let e = if v6 { rf::udp_v6(ip6.src, ip6.dst, &hdr, &pay) } else { rf::udp_v4(ip4.src, ip4.dst, &hdr, &pay) };
                let mut m = hdr;
                m.extend_from_slice(&pay);
                (
                    TransportHeader::Udp(UdpHeader {
                        source_port: sp,
                        destination_port: dp,
                        length: len,
                        checksum: garbage,
                    }),
                    m,
                    e,
                    "udp",
                )
            }
            1 => {
                let spec = TcpSpec::gen(rng);
                let hdr = spec.bytes(0, 0);
                let e = if v6 { rf::tcp_v6(ip6.src, ip6.dst, &hdr, &pay) } else { rf::tcp_v4(ip4.src, ip4.dst, &hdr, &pay) };
                let e = match e {
                    Some(e) => e,
                    None => return,
                };
                let h = guard!(rep, "TcpHeader(construct)", spec.to_ep(garbage));
                let mut m = hdr;
                m.extend_from_slice(&pay);
                (TransportHeader::Tcp(h), m, e, "tcp")
            }
            _ => {
                if v6 {
                    let (ty, hdr, _) = gen_icmpv6(rng);
                    let mut m = hdr;
                    m.extend_from_slice(&pay);
                    let e = match rf::icmpv6(ip6.src, ip6.dst, &m) {
                        Some(e) => e,
                        None => return,
                    };
                    (
                        TransportHeader::Icmpv6(Icmpv6Header {
                            icmp_type: ty,
                            checksum: garbage,
                        }),
                        m,
                        e,
                        "icmpv6",
                    )
                } else {
                    let (ty, hdr, _, _) = gen_icmpv4(rng);
                    let mut m = hdr;
                    m.extend_from_slice(&pay);
                    let e = rf::icmpv4(&m);
                    (
                        TransportHeader::Icmpv4(Icmpv4Header {
                            icmp_type: ty,
                            checksum: garbage,
                        }),
                        m,
                        e,
                        "icmpv4",
                    )
                }
            }
        };
        let ok = guard!(rep, routine, {
            if v6 {
                th.update_checksum_ipv6(&h6, &pay).is_ok()
            } else {
                th.update_checksum_ipv4(&h4, &pay).is_ok()
            }
        });
        if !ok {
            rep.count(&format!("refused.{}", routine));
            return;
        }
        let got = match &th {
            TransportHeader::Udp(h) => h.checksum,
            TransportHeader::Tcp(h) => h.checksum,
            TransportHeader::Icmpv4(h) => h.checksum,
            TransportHeader::Icmpv6(h) => h.checksum,
        };
        let ctx = format!(
            "{} over {} src={} dst={} payload_len={} checksum field before the call {:04x}",
            kind,
            fam,
            if v6 { hex(&ip6.src) } else { hex(&ip4.src) },
            if v6 { hex(&ip6.dst) } else { hex(&ip4.dst) },
            n,
            garbage
        );
        self.judge(rep, &format!("{}[{}]", routine, kind), got, exp, &msg, &ctx);
        rep.sig(&format!("transport|{}|{}|{}|a{}", fam, kind, len_parity_class(n), pay.as_ptr() as usize % 8));
    }
}

// ---------------------------------------------------------------------------------------------
// PacketBuilder output, parsed with plain indexing
// ---------------------------------------------------------------------------------------------

struct Built {
    v6: bool,
    src4: [u8; 4],
    dst4: [u8; 4],
    src6: [u8; 16],
    dst6: [u8; 16],
    /// protocol number in front of the upper layer
    proto: u8,
    ip_hdr: (usize, usize),
    upper: (usize, usize),
}

fn parse_built(b: &[u8], link: u64) -> Result<Built, String> {
    let mut off = 0usize;
    if link >= 1 {
        if b.len() < 14 {
            return Err("short ethernet".into());
        }
        let mut et = get16(b, 12);
        off = 14;
        if et == 0x8100 {
            if b.len() < 18 {
                return Err("short vlan".into());
            }
            et = get16(b, 16);
            off = 18;
        }
        if et != 0x0800 && et != 0x86dd {
            return Err(format!("ether type {:04x}", et));
        }
    }
    if b.len() <= off {
        return Err("no ip".into());
    }
    let mut r = Built {
        v6: false,
        src4: [0; 4],
        dst4: [0; 4],
        src6: [0; 16],
        dst6: [0; 16],
        proto: 0,
        ip_hdr: (0, 0),
        upper: (0, 0),
    };
    match b[off] >> 4 {
        4 => {
            if b.len() < off + 20 {
                return Err("short ipv4".into());
            }
            let ihl = ((b[off] & 0xf) as usize) * 4;
            let total = get16(b, off + 2) as usize;
            if ihl < 20 || total < ihl || b.len() < off + total {
                return Err("ipv4 lengths".into());
            }
            r.src4.copy_from_slice(&b[off + 12..off + 16]);
            r.dst4.copy_from_slice(&b[off + 16..off + 20]);
            r.ip_hdr = (off, off + ihl);
            let mut proto = b[off + 9];
            let mut next = off + ihl;
            let end = off + total;
            if proto == 51 {
                // RFC 4302: next header, payload len (in 4 octet units minus 2)
                if end < next + 12 {
                    return Err("short ah".into());
                }
                proto = b[next];
                next += (b[next + 1] as usize + 2) * 4;
            }
            if next > end {
                return Err("ah beyond total length".into());
            }
            r.proto = proto;
            r.upper = (next, end);
        }
        6 => {
            if b.len() < off + 40 {
                return Err("short ipv6".into());
            }
            let plen = get16(b, off + 4) as usize;
            let end = off + 40 + plen;
            if b.len() < end {
                return Err("ipv6 payload length".into());
            }
            r.v6 = true;
            r.src6.copy_from_slice(&b[off + 8..off + 24]);
            r.dst6.copy_from_slice(&b[off + 24..off + 40]);
            r.ip_hdr = (off, off + 40);
            let mut nh = b[off + 6];
            let mut next = off + 40;
            // RFC 8200 §4: hop-by-hop (0) and destination options (60): next header, hdr ext len
            // in 8 octet units not counting the first 8
            let mut guard_n = 0;
            while (nh == 0 || nh == 60) && guard_n < 8 {
                if end < next + 8 {
                    return Err("short ext".into());
                }
                nh = b[next];
                next += (b[next + 1] as usize + 1) * 8;
                guard_n += 1;
            }
            if next > end {
                return Err("ext beyond payload length".into());
            }
            r.proto = nh;
            r.upper = (next, end);
        }
        v => return Err(format!("ip version {}", v)),
    }
    Ok(r)
}

impl C09 {
    fn builder_case(&mut self, rep: &mut Report, rng: &mut Prng) {
        let v6 = rng.bool();
        let link = rng.below(3);
        let simple = rng.bool();
        let ip4 = V4::gen(rng);
        let ip6 = V6::gen(rng);
        let m1 = [rng.u8(), rng.u8(), rng.u8(), rng.u8(), rng.u8(), rng.u8()];
        let m2 = [rng.u8(), rng.u8(), rng.u8(), rng.u8(), rng.u8(), rng.u8()];
        let vid = rng.u16() & 0x0fff;
        let (src4, dst4, src6, dst6) = (ip4.src, ip4.dst, ip6.src, ip6.dst);
        let want_auth = !simple && !v6 && rng.chance(1, 3);
        let want_hbh = !simple && v6 && rng.chance(1, 3);
        let want_dopt = !simple && v6 && rng.chance(1, 3);
        let la = if rng.bool() { 6 } else { 14 };
        let ext_a = rng.bytes(la);
        let lb = if rng.bool() { 6 } else { 22 };
        let ext_b = rng.bytes(lb);
        let li = 4 * rng.usize_below(5);
        let icv = rng.bytes(li);
        let spi = rng.u32();
        let n = payload_len(rng);
        let mut pay = payload(rng, n);
        // 0 udp, 1 tcp(), 2 tcp_header(), 3 icmp typed, 4 icmp raw, 5 icmp echo
        let kind = rng.below(6);
        let sp = rng.u16_corner();
        let dp = rng.u16_corner();
        let tcp = TcpSpec::gen(rng);
        let garbage = rng.u16_corner();
        let mut udp_zero = false;
        if kind == 0 && n >= 2 && rng.chance(1, 4) {
            // computed UDP checksum 0 -> must be emitted as ffff
            let at = 2 * rng.usize_below(n / 2);
            pay[at] = 0;
            pay[at + 1] = 0;
            let len = (8 + n) as u16;
            let ps = if v6 {
                rf::word_sum(&rf::pseudo_v6(src6, dst6, len as u32, 17))
            } else {
                rf::word_sum(&rf::pseudo_v4(src4, dst4, 17, len))
            };
            let fix = solve_zero(ps + rf::word_sum(&udp_bytes(sp, dp, len, 0)) + rf::word_sum(&pay));
            pay[at] = fix[0];
            pay[at + 1] = fix[1];
            udp_zero = true;
        }
        let (i4ty, _, _, _) = gen_icmpv4(rng);
        let (i6ty, _, _) = gen_icmpv6(rng);
        let raw_t = rng.u8_corner();
        let raw_c = rng.u8_corner();
        let raw_b = [rng.u8(), rng.u8(), rng.u8(), rng.u8()];
        let echo_id = rng.u16_corner();
        let echo_seq = rng.u16_corner();
        let echo_req = rng.bool();
        let tcp_flag_bits = rng.u16();
        let ackn = rng.u32_corner();
        let urgp = rng.u16_corner();
        let wmode = rng.below(3);

        macro_rules! emit {
            ($b:expr) => {{
                let b = $b;
                match wmode {
                    0 => {
                        let mut v: Vec<u8> = Vec::new();
                        b.write_to_vec(&mut v, &pay).map(|_| v).map_err(|e| format!("{:?}", e))
                    }
                    1 => {
                        let mut v: Vec<u8> = Vec::new();
                        b.write(&mut v, &pay).map(|_| v).map_err(|e| format!("{:?}", e))
                    }
                    _ => {
                        let mut buf = vec![0u8; b.size(pay.len()) + 5];
                        b.write_to_slice(&mut buf, &pay)
                            .map(|k| {
                                buf.truncate(k);
                                buf
                            })
                            .map_err(|e| format!("{:?}", e))
                    }
                }
            }};
        }

        let out: Result<Vec<u8>, String> = guard!(rep, "PacketBuilder", {
            let step: PacketBuilderStep<IpHeaders> = if simple {
                match (link, v6) {
                    (0, false) => PacketBuilder::ipv4(src4, dst4, ip4.ttl),
                    (0, true) => PacketBuilder::ipv6(src6, dst6, ip6.hop),
                    (1, false) => PacketBuilder::ethernet2(m1, m2).ipv4(src4, dst4, ip4.ttl),
                    (1, true) => PacketBuilder::ethernet2(m1, m2).ipv6(src6, dst6, ip6.hop),
                    (_, false) => PacketBuilder::ethernet2(m1, m2)
                        .single_vlan(VlanId::try_new(vid).unwrap())
                        .ipv4(src4, dst4, ip4.ttl),
                    (_, true) => PacketBuilder::ethernet2(m1, m2)
                        .single_vlan(VlanId::try_new(vid).unwrap())
                        .ipv6(src6, dst6, ip6.hop),
                }
            } else {
                let iph = if v6 {
                    let mut e = Ipv6Extensions::default();
                    if want_hbh {
                        e.hop_by_hop_options = Some(Ipv6RawExtHeader::new_raw(IpNumber(0), &ext_a).unwrap());
                    }
                    if want_dopt {
                        e.destination_options = Some(Ipv6RawExtHeader::new_raw(IpNumber(0), &ext_b).unwrap());
                    }
                    IpHeaders::Ipv6(ip6.to_ep(), e)
                } else {
                    let mut e = Ipv4Extensions::default();
                    if want_auth {
                        e.auth = Some(IpAuthHeader::new(IpNumber(0), spi, 1, &icv).unwrap());
                    }
                    IpHeaders::Ipv4(ip4.to_ep(garbage), e)
                };
                match link {
                    0 => PacketBuilder::ip(iph),
                    1 => PacketBuilder::ethernet2(m1, m2).ip(iph),
                    _ => PacketBuilder::ethernet2(m1, m2)
                        .single_vlan(VlanId::try_new(vid).unwrap())
                        .ip(iph),
                }
            };
            match kind {
                0 => emit!(step.udp(sp, dp)),
                1 => {
                    let mut b = step.tcp(sp, dp, tcp.seq, tcp.win);
                    let f = tcp_flag_bits;
                    if f & 1 != 0 {
                        b = b.ns();
                    }
                    if f & 2 != 0 {
                        b = b.fin();
                    }
                    if f & 4 != 0 {
                        b = b.syn();
                    }
                    if f & 8 != 0 {
                        b = b.rst();
                    }
                    if f & 16 != 0 {
                        b = b.psh();
                    }
                    if f & 32 != 0 {
                        b = b.ack(ackn);
                    }
                    if f & 64 != 0 {
                        b = b.urg(urgp);
                    }
                    if f & 128 != 0 {
                        b = b.ece();
                    }
                    if f & 256 != 0 {
                        b = b.cwr();
                    }
                    if f & 512 != 0 {
                        b = match b.options_raw(&tcp.opts) {
                            Ok(b) => b,
                            Err(e) => return Err(format!("{:?}", e)),
                        };
                    }
                    emit!(b)
                }
                2 => emit!(step.tcp_header(tcp.to_ep(garbage))),
                3 => {
                    if v6 {
                        emit!(step.icmpv6(i6ty.clone()))
                    } else {
                        emit!(step.icmpv4(i4ty.clone()))
                    }
                }
                4 => {
                    if v6 {
                        emit!(step.icmpv6_raw(raw_t, raw_c, raw_b))
                    } else {
                        emit!(step.icmpv4_raw(raw_t, raw_c, raw_b))
                    }
                }
                _ => match (v6, echo_req) {
                    (true, true) => emit!(step.icmpv6_echo_request(echo_id, echo_seq)),
                    (true, false) => emit!(step.icmpv6_echo_reply(echo_id, echo_seq)),
                    (false, true) => emit!(step.icmpv4_echo_request(echo_id, echo_seq)),
                    (false, false) => emit!(step.icmpv4_echo_reply(echo_id, echo_seq)),
                },
            }
        });
        let out = match out {
            Ok(o) => o,
            Err(e) => {
                rep.count("builder.write_error");
                rep.note(&format!("NOTE PacketBuilder write failed: {}", e.chars().take(80).collect::<String>()));
                return;
            }
        };
        let p = match parse_built(&out, link) {
            Ok(p) => p,
            Err(e) => {
                rep.count("builder.output_not_as_modelled");
                rep.note(&format!("NOTE PacketBuilder output could not be walked: {}", e));
                return;
            }
        };
        let want_proto: u8 = match (kind, v6) {
            (0, _) => 17,
            (1, _) | (2, _) => 6,
            (_, true) => 58,
            (_, false) => 1,
        };
        let upper = &out[p.upper.0..p.upper.1];
        if p.v6 != v6 || p.proto != want_proto || !upper.ends_with(&pay) || upper.len() < 8 {
            rep.count("builder.output_not_as_modelled");
            rep.note("NOTE PacketBuilder output has another shape than requested (not judged here)");
            return;
        }
        let fam = if v6 { "ipv6" } else { "ipv4" };
        let ctx = format!(
            "builder link={} {} simple={} auth={} hbh={} dopt={} kind={} payload_len={} write_mode={} ; packet={}",
            link,
            fam,
            simple,
            want_auth,
            want_hbh,
            want_dopt,
            kind,
            n,
            wmode,
            short_hex(&out)
        );
        if !v6 {
            let hb = &out[p.ip_hdr.0..p.ip_hdr.1];
            self.judge(rep, "PacketBuilder[ipv4 header checksum]", get16(hb, 10), rf::ipv4_header(hb), hb, &ctx);
        }
        match want_proto {
            17 => {
                if get16(upper, 4) as usize != upper.len() {
                    rep.count("builder.output_not_as_modelled");
                    return;
                }
                let (exp, computed) = if v6 {
                    (
                        rf::udp_v6(p.src6, p.dst6, &upper[..8], &upper[8..]),
                        rf::udp_v6_computed(p.src6, p.dst6, &upper[..8], &upper[8..]),
                    )
                } else {
                    (
                        rf::udp_v4(p.src4, p.dst4, &upper[..8], &upper[8..]),
                        rf::udp_v4_computed(p.src4, p.dst4, &upper[..8], &upper[8..]),
                    )
                };
                if computed == 0 {
                    rep.count("udp.computed_zero_cases");
                    rep.count("builder.udp_computed_zero_cases");
                } else if udp_zero {
                    rep.selfcheck_fail(format!("builder: solve_zero missed ({:04x})", computed));
                }
                self.judge(rep, &format!("PacketBuilder[udp/{}]", fam), get16(upper, 6), exp, upper, &ctx);
            }
            6 => {
                let hl = ((upper[12] >> 4) as usize) * 4;
                if hl < 20 || hl > upper.len() {
                    rep.count("builder.output_not_as_modelled");
                    return;
                }
                let exp = if v6 {
                    rf::tcp_v6(p.src6, p.dst6, &upper[..hl], &upper[hl..])
                } else {
                    rf::tcp_v4(p.src4, p.dst4, &upper[..hl], &upper[hl..])
                };
                if let Some(exp) = exp {
                    self.judge(rep, &format!("PacketBuilder[tcp/{}]", fam), get16(upper, 16), exp, upper, &ctx);
                }
            }
            58 => {
                if let Some(exp) = rf::icmpv6(p.src6, p.dst6, upper) {
                    self.judge(rep, "PacketBuilder[icmpv6/ipv6]", get16(upper, 2), exp, upper, &ctx);
                }
            }
            _ => {
                self.judge(rep, "PacketBuilder[icmpv4/ipv4]", get16(upper, 2), rf::icmpv4(upper), upper, &ctx);
            }
        }
        rep.sig(&format!(
            "builder|{}|l{}|s{}|x{}{}{}|k{}|{}|w{}",
            fam,
            link,
            simple as u8,
            want_auth as u8,
            want_hbh as u8,
            want_dopt as u8,
            kind,
            len_parity_class(n),
            wmode
        ));
        if rep.want_sample() && out.len() < 90 && rng.chance(1, 10) {
            rep.sample(format!(
                "{{\"routine\":\"PacketBuilder\",\"packet_hex\":{},\"upper_layer_protocol\":{},\"checksums\":\"equal to the reference\"}}",
                jstr(&hex(&out)),
                want_proto
            ));
        }
    }
}

const EXH_LENS: u64 = 71;
const EXH_ALIGNS: u64 = 8;
const FOLD_CASES: u64 = 12 * 12 * 12 * 12;

impl Monitor for C09 {
    fn engines(&self, tier: Tier) -> Vec<(&'static str, u64)> {
        vec![
            ("fold", FOLD_CASES),
            // (length 0..=70) x (alignment 0..7) x (9 contents) [x repetitions with other random parts]
            ("helper_exh", EXH_LENS * EXH_ALIGNS * PATTERNS * tier.pick(2, 12)),
            ("helper_rand", tier.pick(200_000, 12_000_000)),
            ("ipv4", tier.pick(1_200_000, 72_000_000)),
            ("udp", tier.pick(1_000_000, 60_000_000)),
            ("tcp", tier.pick(800_000, 48_000_000)),
            ("icmpv4", tier.pick(800_000, 48_000_000)),
            ("icmpv6", tier.pick(640_000, 38_400_000)),
            ("icmpv6_valid", tier.pick(1_200_000, 72_000_000)),
            ("igmp", tier.pick(600_000, 36_000_000)),
            ("transport", tier.pick(800_000, 48_000_000)),
            ("builder", tier.pick(1_000_000, 60_000_000)),
        ]
    }

    fn run_case(&mut self, engine: &str, idx: u64, rng: &mut Prng, rep: &mut Report) {
        self.run_engine(engine, idx, rng, rep);
        rep.add("helper.receiver_state_checks", RECEIVER_CHECKS.with(|c| c.replace(0)));
        if RECEIVER_FAULT.with(|c| c.replace(false)) {
            rep.violation(
                "helper|Sum16BitWords|receiver_state",
                "after add_{4,8,16}bytes(&mut self, ..) the receiver holds neither its old sum nor the returned sum".into(),
                &[],
            );
        }
    }
}

impl C09 {
    fn run_engine(&mut self, engine: &str, idx: u64, rng: &mut Prng, rep: &mut Report) {
        if !self.selfchecked {
            self.selfchecked = true;
            for f in rf::selfcheck() {
                rep.selfcheck_fail(format!("reference checksum model: {}", f));
            }
        }
        match engine {
            "fold" => self.fold_case(rep, idx),
            "helper_exh" => {
                let len = (idx % EXH_LENS) as usize;
                let align = (idx / EXH_LENS % EXH_ALIGNS) as usize;
                let pat = idx / (EXH_LENS * EXH_ALIGNS) % PATTERNS;
                let data = pattern(pat, len, rng);
                let (buf, start) = place(&data, align);
                let d = placed(&buf, start, len);
                rep.count("helper_exh.cases");
                self.helper_case(rep, rng, d, true);
            }
            "helper_rand" => {
                let len = (match rng.below(100) {
                    0..=29 => rng.range(0, 70),
                    30..=59 => rng.range(71, 1600),
                    60..=84 => rng.range(1601, 9000),
                    85..=95 => rng.range(9001, 65535),
                    _ => 65536 - rng.below(9),
                }) as usize;
                let mut data = match rng.below(8) {
                    0 => vec![0xffu8; len],
                    1 => {
                        // mostly ones: many carries out of the wide accumulators
                        let mut v = vec![0xffu8; len];
                        for _ in 0..len / 32 + 1 {
                            if len > 0 {
                                let i = rng.usize_below(len);
                                v[i] = rng.u8();
                            }
                        }
                        v
                    }
                    2 => {
                        let mut v = vec![0u8; len];
                        for _ in 0..len / 32 + 1 {
                            if len > 0 {
                                let i = rng.usize_below(len);
                                v[i] = rng.u8();
                            }
                        }
                        v
                    }
                    3 => carry_stress(if rng.bool() { 4 } else { 8 }, len, rng),
                    _ => rng.bytes(len),
                };
                if len >= 2 && rng.chance(1, 16) {
                    // make the complete sum fold to ffff (complement 0 -> the no-zero variant matters)
                    let at = 2 * rng.usize_below(len / 2);
                    data[at] = 0;
                    data[at + 1] = 0;
                    let fix = solve_zero(rf::word_sum(&data));
                    data[at] = fix[0];
                    data[at + 1] = fix[1];
                }
                let align = rng.usize_below(8);
                let (buf, start) = place(&data, align);
                let d = placed(&buf, start, len);
                rep.count("helper_rand.cases");
                self.helper_case(rep, rng, d, false);
            }
            "ipv4" => self.ipv4_case(rep, rng),
            "udp" => self.udp_case(rep, rng),
            "tcp" => self.tcp_case(rep, rng),
            "icmpv4" => self.icmpv4_case(rep, rng),
            "icmpv6" => self.icmpv6_case(rep, rng),
            "icmpv6_valid" => self.icmpv6_valid_case(rep, rng),
            "igmp" => self.igmp_case(rep, rng),
            "transport" => self.transport_case(rep, rng),
            "builder" => self.builder_case(rep, rng),
            _ => {}
        }
    }
}
