//! Small public API surface that the main workloads of the monitors do not pass through (found with
//! `driver/coverage.py`): helper constructors, conversion impls, deprecated aliases of decoders,
//! owned ICMPv6 payload structs, union error types. Each function belongs to the property named in
//! its name and is run as engine `api` of that monitor; expected values come from the RFCs / from
//! the sibling function the item documents itself to be equal to, never from the item itself.

use crate::report::hex;
use crate::prng::Prng;
use crate::report::Report;
use crate::shell;
use etherparse::*;
use std::io::Cursor;

fn guarded_api(rep: &mut Report, what: &str, f: impl FnOnce(&mut Report)) {
    // Report is only borrowed inside: a panic leaves it usable
    let r = {
        let rep_ptr: *mut Report = rep;
        shell::guarded(|| f(unsafe { &mut *rep_ptr }))
    };
    if let Err(p) = r {
        if p.location().contains("etherparse/src/") {
            rep.violation(&format!("api_panic|{}|{}", what, p.location()), format!("{}: panicked: {}", what, p.0), &[]);
        } else {
            rep.selfcheck_fail(format!("harness panic in api check {}: {}", what, p.0));
        }
    }
}

macro_rules! expect {
    ($rep:expr, $sig:expr, $cond:expr, $($fmt:tt)+) => {
        if !$cond {
            $rep.violation(&format!("api|{}", $sig), format!($($fmt)+), &[]);
        } else {
            $rep.count(concat!("api.ok"));
        }
    };
}

// ------------------------------------------------------------------------------------------------
// C17: ICMPv4 / ICMPv6 code helpers, timestamp message, payload_from_slice, IGMP group address
// ------------------------------------------------------------------------------------------------

pub fn c17(rep: &mut Report, rng: &mut Prng) {
    guarded_api(rep, "c17", |rep| {
        rep.evals += 1;
        let mtu = rng.u16();
        let ptr = rng.u8();
        let gw = [rng.u8(), rng.u8(), rng.u8(), rng.u8()];
        for c in 0..=255u8 {
            // RFC 792 / RFC 1812 §5.2.7.1: destination unreachable codes 0..=15, code 4 carries the MTU (RFC 1191)
            let d = icmpv4::DestUnreachableHeader::from_values(c, mtu);
            expect!(rep, "icmpv4::DestUnreachableHeader::from_values|assigned", d.is_some() == (c <= 15), "code {} -> {:?}", c, d);
            if let Some(h) = &d {
                expect!(rep, "icmpv4::DestUnreachableHeader::code_u8", h.code_u8() == c, "from_values({}).code_u8() = {}", c, h.code_u8());
                let is_frag = matches!(h, icmpv4::DestUnreachableHeader::FragmentationNeeded { next_hop_mtu } if *next_hop_mtu == mtu);
                expect!(rep, "icmpv4::DestUnreachableHeader::from_values|mtu", is_frag == (c == 4), "code {} mtu {} -> {:?}", c, mtu, h);
            }
            // the decoder must give the same typed value / fall back to Unknown
            let m = [3u8, c, 0, 0, 0, 0, (mtu >> 8) as u8, mtu as u8];
            let (hdr, _) = Icmpv4Header::from_slice(&m).unwrap();
            match (&d, &hdr.icmp_type) {
                (Some(want), Icmpv4Type::DestinationUnreachable(got)) => {
                    // only code 4 keeps the MTU
                    let want2 = icmpv4::DestUnreachableHeader::from_values(c, if c == 4 { mtu } else { 0 }).unwrap();
                    let _ = want;
                    expect!(rep, "icmpv4::DestUnreachableHeader|decode_agrees", *got == want2 || *got == *want, "decode {:?} vs from_values {:?}", got, want)
                }
                (None, Icmpv4Type::Unknown { type_u8: 3, code_u8, .. }) => {
                    expect!(rep, "icmpv4::DestUnreachableHeader|decode_unknown", *code_u8 == c, "code {}", c)
                }
                (a, b) => rep.violation("api|icmpv4::DestUnreachableHeader|decode_class", format!("code {}: from_values {:?}, decoder {:?}", c, a, b), &m),
            }
            // RFC 792 / RFC 1108: parameter problem codes 0..=2
            let p = icmpv4::ParameterProblemHeader::from_values(c, ptr);
            expect!(rep, "icmpv4::ParameterProblemHeader::from_values|assigned", p.is_some() == (c <= 2), "code {} -> {:?}", c, p);
            if c == 0 {
                expect!(
                    rep,
                    "icmpv4::ParameterProblemHeader::from_values|pointer",
                    p == Some(icmpv4::ParameterProblemHeader::PointerIndicatesError(ptr)),
                    "pointer {} -> {:?}",
                    ptr,
                    p
                );
            }
            let m = [12u8, c, 0, 0, ptr, 0, 0, 0];
            let (hdr, _) = Icmpv4Header::from_slice(&m).unwrap();
            match (&p, &hdr.icmp_type) {
                (Some(want), Icmpv4Type::ParameterProblem(got)) => {
                    expect!(rep, "icmpv4::ParameterProblemHeader|decode_agrees", got == want, "decode {:?} vs from_values {:?}", got, want)
                }
                (None, Icmpv4Type::Unknown { type_u8: 12, .. }) => rep.count("api.ok"),
                (a, b) => rep.violation("api|icmpv4::ParameterProblemHeader|decode_class", format!("code {}: from_values {:?}, decoder {:?}", c, a, b), &m),
            }
            // redirect 0..=3, time exceeded 0..=1
            let r = icmpv4::RedirectCode::from_u8(c);
            expect!(rep, "icmpv4::RedirectCode::from_u8|assigned", r.is_some() == (c <= 3), "code {} -> {:?}", c, r);
            if let Some(r) = r {
                expect!(rep, "icmpv4::RedirectCode::code_u8", r.code_u8() == c, "{:?}.code_u8() = {}", r, r.code_u8());
                let m = [5u8, c, 0, 0, gw[0], gw[1], gw[2], gw[3]];
                let (hdr, _) = Icmpv4Header::from_slice(&m).unwrap();
                let ok = matches!(&hdr.icmp_type, Icmpv4Type::Redirect(h) if h.code == r && h.gateway_internet_address == gw);
                expect!(rep, "icmpv4::RedirectCode|decode_agrees", ok, "code {} gw {:?} decoded as {:?}", c, gw, hdr.icmp_type);
            }
            let t = icmpv4::TimeExceededCode::from_u8(c);
            expect!(rep, "icmpv4::TimeExceededCode::from_u8|assigned", t.is_some() == (c <= 1), "code {} -> {:?}", c, t);
            if let Some(t) = t {
                expect!(rep, "icmpv4::TimeExceededCode::code_u8", t.code_u8() == c, "{:?}.code_u8() = {}", t, t.code_u8());
            }
            // RFC 4443: destination unreachable 0..=6, time exceeded 0..=1; parameter problem 0..=10
            // (RFC 4443, 6564, 7112, 8200, 8883 as registered at IANA)
            let d6 = icmpv6::DestUnreachableCode::from_u8(c);
            expect!(rep, "icmpv6::DestUnreachableCode::from_u8|assigned", d6.is_some() == (c <= 6), "code {} -> {:?}", c, d6);
            if let Some(x) = d6 {
                expect!(rep, "icmpv6::DestUnreachableCode::code_u8", x.code_u8() == c, "{:?}.code_u8() = {}", x, x.code_u8());
            }
            let t6 = icmpv6::TimeExceededCode::from_u8(c);
            expect!(rep, "icmpv6::TimeExceededCode::from_u8|assigned", t6.is_some() == (c <= 1), "code {} -> {:?}", c, t6);
            if let Some(x) = t6 {
                expect!(rep, "icmpv6::TimeExceededCode::code_u8", x.code_u8() == c, "{:?}.code_u8() = {}", x, x.code_u8());
            }
            let p6 = icmpv6::ParameterProblemCode::from_u8(c);
            expect!(rep, "icmpv6::ParameterProblemCode::from_u8|assigned", p6.is_some() == (c <= 10), "code {} -> {:?}", c, p6);
            if let Some(x) = p6 {
                expect!(rep, "icmpv6::ParameterProblemCode::code_u8", x.code_u8() == c, "{:?}.code_u8() = {}", x, x.code_u8());
            }
        }
        // timestamp message: five big-endian fields (RFC 792)
        let b: [u8; 16] = {
            let v = rng.bytes(16);
            let mut a = [0u8; 16];
            a.copy_from_slice(&v);
            a
        };
        let t = icmpv4::TimestampMessage::from_bytes(b);
        let ok = t.id == u16::from_be_bytes([b[0], b[1]])
            && t.seq == u16::from_be_bytes([b[2], b[3]])
            && t.originate_timestamp == u32::from_be_bytes([b[4], b[5], b[6], b[7]])
            && t.receive_timestamp == u32::from_be_bytes([b[8], b[9], b[10], b[11]])
            && t.transmit_timestamp == u32::from_be_bytes([b[12], b[13], b[14], b[15]]);
        expect!(rep, "icmpv4::TimestampMessage::from_bytes", ok, "{} -> {:?}", hex(&b), t);
        // Icmpv6Type::payload_from_slice is payload_slice + to_payload; the owned fixed parts re-encode
        // to the bytes they were decoded from (RFC 4861 §4 layouts), the rest is the option area
        let ty = *rng.pick(&[133u8, 134, 135, 136, 137, 1, 128]);
        let mut m = vec![ty, 0, 0, 0];
        m.extend_from_slice(&rng.bytes(4));
        let body_len = rng.range(0, 60) as usize;
        m.extend_from_slice(&rng.bytes(body_len));
        if let Ok((hdr, body)) = Icmpv6Header::from_slice(&m) {
            let a = hdr.icmp_type.payload_from_slice(body);
            let b = hdr.icmp_type.payload_slice(body).map(|s| s.to_payload().map(|(p, r)| (p, r.to_vec())));
            match (&a, &b) {
                (Ok(x), Ok(y)) => {
                    let x2 = x.as_ref().map(|(p, r)| (p.clone(), r.to_vec()));
                    expect!(rep, "Icmpv6Type::payload_from_slice|equals_payload_slice", x2 == *y, "type {}: {:?} vs {:?}", ty, x2, y);
                    if let Some((p, rest)) = x {
                        let fixed = match ty {
                            133 => 0,
                            134 => 8,
                            135 | 136 => 16,
                            137 => 32,
                            _ => usize::MAX,
                        };
                        expect!(rep, "Icmpv6Payload::len|rfc4861", p.len() == fixed, "type {}: len() {} want {}", ty, p.len(), fixed);
                        expect!(rep, "Icmpv6Payload::is_empty", p.is_empty() == (fixed == 0), "type {}", ty);
                        let mut w = Vec::new();
                        p.write(&mut w).unwrap();
                        expect!(rep, "Icmpv6Payload::write|reencodes_fixed_part", fixed <= body.len() && w[..] == body[..fixed], "type {}: wrote {} from body {}", ty, hex(&w), hex(body));
                        let rest_ok = rest.len() + fixed == body.len() && rest.as_ptr() as usize == body.as_ptr() as usize + fixed;
                        expect!(rep, "Icmpv6Type::payload_from_slice|rest_is_option_area", rest_ok, "type {}: rest len {} body {}", ty, rest.len(), body.len());
                        let tb: Vec<u8> = match p {
                            icmpv6::Icmpv6Payload::RouterSolicitation(v) => v.to_bytes().to_vec(),
                            icmpv6::Icmpv6Payload::RouterAdvertisement(v) => v.to_bytes().to_vec(),
                            icmpv6::Icmpv6Payload::NeighborSolicitation(v) => v.to_bytes().to_vec(),
                            icmpv6::Icmpv6Payload::NeighborAdvertisement(v) => v.to_bytes().to_vec(),
                            icmpv6::Icmpv6Payload::Redirect(v) => v.to_bytes().to_vec(),
                            _ => w.clone(),
                        };
                        expect!(rep, "Icmpv6Payload::to_bytes|equals_write", tb == w, "type {}: to_bytes {} write {}", ty, hex(&tb), hex(&w));
                        rep.count("api.c17.owned_payloads");
                    } else {
                        expect!(rep, "Icmpv6Type::payload_from_slice|none_only_for_non_ndp", !(133..=137).contains(&ty), "type {} gave None", ty);
                    }
                }
                (Err(x), Err(y)) => expect!(rep, "Icmpv6Type::payload_from_slice|same_error", x == y, "{:?} vs {:?}", x, y),
                _ => rep.violation("api|Icmpv6Type::payload_from_slice|verdict", format!("type {}: {:?} vs {:?}", ty, a, b), &m),
            }
        }
        // IGMP group address
        let a = [rng.u8_corner(), rng.u8_corner(), rng.u8_corner(), rng.u8_corner()];
        let g = igmp::GroupAddress::new(a);
        expect!(rep, "igmp::GroupAddress::new", g.octets == a, "{:?}", g);
        expect!(rep, "igmp::GroupAddress::is_zero", g.is_zero() == (a == [0, 0, 0, 0]), "{:?}", g);
        let back: [u8; 4] = g.into();
        let g2: igmp::GroupAddress = a.into();
        let ip: std::net::Ipv4Addr = g.into();
        let g3: igmp::GroupAddress = std::net::Ipv4Addr::from(a).into();
        expect!(rep, "igmp::GroupAddress|conversions", back == a && g2 == g && ip.octets() == a && g3 == g, "{:?}", a);
        rep.sig(&format!("api|c17|{}", ty));
    });
}

// ------------------------------------------------------------------------------------------------
// C15: Display / From / TryFrom of the bounded types, DSCP known values
// ------------------------------------------------------------------------------------------------

pub fn c15(rep: &mut Report, rng: &mut Prng) {
    guarded_api(rep, "c15", |rep| {
        rep.evals += 1;
        macro_rules! small {
            ($T:ty, $raw:ty, $max:expr, $name:expr) => {{
                for v in 0..=<$raw>::MAX {
                    let r = <$T>::try_from(v);
                    expect!(rep, concat!($name, "::try_from|accepts_exactly_the_range"), r.is_ok() == ((v as u64) <= $max), "{} -> {:?}", v, r);
                    match r {
                        Ok(t) => {
                            expect!(rep, concat!($name, "|Display"), format!("{}", t) == format!("{}", v), "{} displays as {}", v, t);
                            expect!(rep, concat!($name, "|From<T> for raw"), <$raw>::from(t) == v, "{}", v);
                        }
                        Err(e) => {
                            expect!(rep, concat!($name, "::try_from|error_fields"), e.actual == v && (e.max_allowed as u64) == $max, "{:?}", e);
                        }
                    }
                    if (v as u64) > $max + 70000 {
                        break;
                    }
                }
            }};
        }
        small!(VlanPcp, u8, 7u64, "VlanPcp");
        small!(IpDscp, u8, 63u64, "IpDscp");
        small!(IpEcn, u8, 3u64, "IpEcn");
        small!(MacsecAn, u8, 3u64, "MacsecAn");
        small!(MacsecShortLen, u8, 63u64, "MacsecShortLen");
        small!(igmp::Qrv, u8, 7u64, "igmp::Qrv");
        small!(VlanId, u16, 0xfffu64, "VlanId");
        small!(IpFragOffset, u16, 0x1fffu64, "IpFragOffset");
        for _ in 0..256 {
            let v = match rng.below(4) {
                0 => rng.u32() & 0xf_ffff,
                1 => 0xf_ffff + rng.below(3) as u32,
                2 => rng.u32(),
                _ => 1u32 << rng.below(32),
            };
            let r = Ipv6FlowLabel::try_from(v);
            expect!(rep, "Ipv6FlowLabel::try_from|accepts_exactly_the_range", r.is_ok() == (v <= 0xf_ffff), "{} -> {:?}", v, r);
            if let Ok(t) = r {
                expect!(rep, "Ipv6FlowLabel|Display", format!("{}", t) == format!("{}", v), "{}", v);
                expect!(rep, "Ipv6FlowLabel|From<T> for raw", u32::from(t) == v, "{}", v);
            }
        }
        // MACsec short length from a payload length: 0..=63 as they are, everything above is the
        // documented "unknown" value 0 - never an out-of-range value
        for len in (0..130usize).chain([255, 256, 65535, 65536, usize::MAX]) {
            let t = MacsecShortLen::from_len(len);
            let want = if len <= 63 { len as u8 } else { 0 };
            expect!(rep, "MacsecShortLen::from_len|value", t.value() == want, "{} -> {}", len, t.value());
        }
        // ... also through the header's own setter, which counts the two ether type octets of an
        // unmodified payload (every usize, the largest ones included, gives an in-range value)
        for len in (0..70usize).chain([255, 256, 65535, 65536, usize::MAX - 2, usize::MAX - 1, usize::MAX]) {
            for unmod in [true, false] {
                let mut h = MacsecHeader {
                    ptype: if unmod { MacsecPType::Unmodified(EtherType(0x0800)) } else { MacsecPType::Modified },
                    endstation_id: false,
                    scb: false,
                    an: MacsecAn::default(),
                    short_len: MacsecShortLen::try_from_u8(9).unwrap(),
                    packet_nr: 1,
                    sci: None,
                };
                h.set_payload_len(len);
                let want = match len.checked_add(if unmod { 2 } else { 0 }) {
                    Some(c) if c <= 63 => c as u8,
                    _ => 0,
                };
                let enc = h.to_bytes()[1] & 0x3f;
                expect!(rep, "MacsecHeader::set_payload_len|short_len_in_range", h.short_len.value() == want && enc == want && (!unmod || want != 1), "payload {} (unmodified: {}) -> short_len {} (encoded {}), expected {}", len, unmod, h.short_len.value(), enc, want);
            }
        }
        // the four packet-level `vlan_ids()` copies: for every value of a tag's 16 bit control word
        // the id is its low 12 bit - priority and drop-eligible bit never reach it
        {
            let inner = rng.u16();
            let second = rng.bool();
            let mut frame = vec![0u8; 12];
            frame.extend_from_slice(&[0x81, 0x00, 0, 0, 0x81, 0x00, 0, 0, 0x08, 0x06]);
            frame.extend_from_slice(&[0, 1, 8, 0, 6, 4, 0, 1]);
            frame.extend_from_slice(&[0u8; 20]);
            for tci in 0..=u16::MAX {
                let (a, b) = if second { (inner, tci) } else { (tci, inner) };
                frame[14..16].copy_from_slice(&a.to_be_bytes());
                frame[18..20].copy_from_slice(&b.to_be_bytes());
                let want = [a & 0x0fff, b & 0x0fff];
                let got: [Option<Vec<u16>>; 4] = [
                    SlicedPacket::from_ethernet(&frame).ok().map(|p| p.vlan_ids().iter().map(|v| v.value()).collect()),
                    LaxSlicedPacket::from_ethernet(&frame).ok().map(|p| p.vlan_ids().iter().map(|v| v.value()).collect()),
                    PacketHeaders::from_ethernet_slice(&frame).ok().map(|p| p.vlan_ids().iter().map(|v| v.value()).collect()),
                    LaxPacketHeaders::from_ethernet(&frame).ok().map(|p| p.vlan_ids().iter().map(|v| v.value()).collect()),
                ];
                for (g, name) in got.iter().zip(["SlicedPacket", "LaxSlicedPacket", "PacketHeaders", "LaxPacketHeaders"]) {
                    if g.as_deref() != Some(&want[..]) {
                        rep.violation(&format!("api|{}::vlan_ids|low_12_bit_of_each_tag", name), format!("tags {:04x} {:04x}: {}::vlan_ids() = {:?}, expected {:?}", a, b, name, g, want), &frame);
                        return;
                    }
                }
            }
            rep.add("api.c15.vlan_ids_tag_values", 65_536);
        }
        // DSCP code points with a name (RFC 2474, 2597, 3246, 5865, 8622)
        let known: [u8; 23] = [0, 8, 16, 24, 32, 40, 48, 56, 10, 12, 14, 18, 20, 22, 26, 28, 30, 34, 36, 38, 46, 44, 1];
        for v in 0..64u8 {
            let d = IpDscp::try_new(v).unwrap();
            let k = IpDscpKnown::try_from_ip_dscp(d);
            let k2 = IpDscpKnown::try_from(d);
            expect!(rep, "IpDscpKnown::try_from_ip_dscp|known_set", k.is_ok() == known.contains(&v), "{} -> {:?}", v, k);
            expect!(rep, "IpDscpKnown|TryFrom_equals_try_from_ip_dscp", format!("{:?}", k) == format!("{:?}", k2), "{}", v);
            match k {
                Ok(k) => {
                    expect!(rep, "IpDscpKnown|From<IpDscpKnown> for u8", u8::from(k) == v, "{} -> {:?} -> {}", v, k, u8::from(k));
                    expect!(rep, "IpDscpKnown|From<IpDscpKnown> for IpDscp", IpDscp::from(k) == d, "{}", v);
                }
                Err(e) => {
                    expect!(rep, "IpDscpKnown::try_from_ip_dscp|error_value", e.value == v, "{:?}", e);
                    let _ = format!("{} {:?}", e, e);
                }
            }
        }
        rep.count("api.c15.sweeps");
        rep.sig("api|c15");
    });
}

// ------------------------------------------------------------------------------------------------
// C13: the trait doors of TcpOptions
// ------------------------------------------------------------------------------------------------

pub fn c13(rep: &mut Report, rng: &mut Prng) {
    guarded_api(rep, "c13", |rep| {
        rep.evals += 1;
        use std::collections::hash_map::DefaultHasher;
        use std::hash::{Hash, Hasher};
        let e = TcpOptions::new();
        expect!(rep, "TcpOptions::new|empty", e.len() == 0 && e.is_empty() && e.as_slice().is_empty() && e == TcpOptions::default(), "{:?}", e.as_slice());
        let la = rng.range(0, 46) as usize;
        let a_bytes = rng.bytes(la);
        let a1 = TcpOptions::try_from_slice(&a_bytes);
        let a2 = TcpOptions::try_from(&a_bytes[..]);
        expect!(rep, "TcpOptions|TryFrom<&[u8]>_equals_try_from_slice", format!("{:?}", a1.as_ref().map(|o| o.as_slice().to_vec())) == format!("{:?}", a2.as_ref().map(|o| o.as_slice().to_vec())), "len {}", la);
        expect!(rep, "TcpOptions::try_from_slice|accepts_exactly_what_fits", a1.is_ok() == (la <= 40), "len {} -> {:?}", la, a1.as_ref().map(|o| o.len()));
        if let Ok(a) = a1 {
            // padded to a multiple of four with end-of-list (0) bytes, content first
            let padded = (la + 3) / 4 * 4;
            let mut want = a_bytes.clone();
            want.resize(padded, 0);
            expect!(rep, "TcpOptions::try_from_slice|content", a.as_slice() == &want[..] && a.len() == padded && a.len_u8() as usize == padded, "{} -> {}", hex(&a_bytes), hex(a.as_slice()));
            let d: &[u8] = &a;
            let r: &[u8] = a.as_ref();
            expect!(rep, "TcpOptions|Deref_AsRef", d == a.as_slice() && r == a.as_slice(), "{}", hex(d));
            // a shorter value written over a longer one: stale bytes must not take part in eq / ord / hash
            let lb = rng.range(0, 40) as usize;
            let b_bytes = rng.bytes(lb);
            let b = TcpOptions::try_from_slice(&b_bytes).unwrap();
            let mut c = a.clone();
            c = {
                let _ = &c;
                TcpOptions::try_from_slice(&b_bytes).unwrap()
            };
            let h = |o: &TcpOptions| {
                let mut s = DefaultHasher::new();
                o.hash(&mut s);
                s.finish()
            };
            let hs = |o: &[u8]| {
                let mut s = DefaultHasher::new();
                o.hash(&mut s);
                s.finish()
            };
            expect!(rep, "TcpOptions|Eq", (a == b) == (a.as_slice() == b.as_slice()) && c == b, "{} vs {}", hex(a.as_slice()), hex(b.as_slice()));
            expect!(rep, "TcpOptions|Ord", a.cmp(&b) == a.as_slice().cmp(b.as_slice()) && a.partial_cmp(&b) == Some(a.as_slice().cmp(b.as_slice())), "{} vs {}", hex(a.as_slice()), hex(b.as_slice()));
            expect!(rep, "TcpOptions|Hash", h(&a) == hs(a.as_slice()) && h(&c) == h(&b), "{}", hex(a.as_slice()));
            // mutable views cover exactly the options
            let mut m = a.clone();
            let n = m.as_mut_slice().len();
            expect!(rep, "TcpOptions::as_mut_slice|len", n == a.len(), "{} vs {}", n, a.len());
            for x in m.as_mut_slice().iter_mut() {
                *x = !*x;
            }
            let flipped: Vec<u8> = a.as_slice().iter().map(|x| !x).collect();
            expect!(rep, "TcpOptions::as_mut_slice|writes_through", m.as_slice() == &flipped[..], "{}", hex(m.as_slice()));
            let mm: &mut [u8] = m.as_mut();
            expect!(rep, "TcpOptions|AsMut<[u8]>", mm.len() == n, "{}", mm.len());
            // deprecated accessors of the header
            let mut th = TcpHeader::new(1, 2, 3, 4);
            th.options = a.clone();
            #[allow(deprecated)]
            {
                expect!(rep, "TcpHeader::options_len|options", th.options_len() == a.len() && th.options() == a.as_slice(), "{}", a.len());
            }
            expect!(rep, "TcpHeader::header_len|with_options", th.header_len() == 20 + a.len() && th.data_offset() as usize * 4 == 20 + a.len(), "{}", th.header_len());
        }
        rep.sig(&format!("api|c13|{}", la.min(41)));
    });
}

// ------------------------------------------------------------------------------------------------
// C12: which protocol numbers are extension headers
// ------------------------------------------------------------------------------------------------

pub fn c12(rep: &mut Report, rng: &mut Prng) {
    guarded_api(rep, "c12", |rep| {
        rep.evals += 1;
        for n in 0..=255u8 {
            // RFC 8200 §4 / IANA "IPv6 Extension Header Types": 0, 43, 44, 50, 51, 60, 135, 139, 140, 253, 254
            let ext = matches!(n, 0 | 43 | 44 | 50 | 51 | 60 | 135 | 139 | 140 | 253 | 254);
            expect!(rep, "IpNumber::is_ipv6_ext_header_value", IpNumber(n).is_ipv6_ext_header_value() == ext, "{}", n);
            // the generic (next header, length, data) layout: all but fragment (44), ESP (50), AH (51) and the experimental ones
            let generic = matches!(n, 0 | 43 | 60 | 135 | 139 | 140);
            expect!(rep, "Ipv6RawExtHeader::header_type_supported", Ipv6RawExtHeader::header_type_supported(IpNumber(n)) == generic, "{}", n);
            expect!(rep, "Ipv6RawExtHeaderSlice::header_type_supported", Ipv6RawExtHeaderSlice::header_type_supported(IpNumber(n)) == generic, "{}", n);
        }
        let u1 = rng.below(4) as usize;
        let u2 = rng.below(4) as usize;
        let r = Ipv6RawExtHeader::new_raw(IpNumber(17), &vec![0u8; 6 + 8 * u1]).unwrap();
        let f = Ipv6RawExtHeader::new_raw(IpNumber(17), &vec![0u8; 6 + 8 * u2]).unwrap();
        let with = rng.bool();
        let re = Ipv6RoutingExtensions {
            routing: r,
            final_destination_options: if with { Some(f) } else { None },
        };
        let want = 8 + 8 * u1 + if with { 8 + 8 * u2 } else { 0 };
        expect!(rep, "Ipv6RoutingExtensions::header_len", re.header_len() == want, "{} want {}", re.header_len(), want);
        // the announced bounds: every header set stays inside [MIN_LEN, MAX_LEN] of its type, a
        // buffer of MAX_LEN octets takes every walkable chain, and the bounds are attained (sizes
        // from the formats: generic header 8 + 8 * 255, authentication header 4 * (255 + 2))
        {
            let size = |rng: &mut Prng| -> usize {
                match rng.below(4) {
                    0 => 0,
                    1 => 255,
                    2 => 254,
                    _ => rng.below(256) as usize,
                }
            };
            let all = rng.chance(1, 4);
            let extreme: Option<usize> = if rng.chance(1, 3) { Some(if rng.bool() { 255 } else { 0 }) } else { None };
            let mut raw = |rng: &mut Prng, next: u8| -> Ipv6RawExtHeader {
                let u = extreme.unwrap_or_else(|| size(rng));
                Ipv6RawExtHeader::new_raw(IpNumber(next), &vec![0x5au8; 6 + 8 * u]).unwrap()
            };
            let mut present = |rng: &mut Prng| all || rng.bool();
            let has_route = present(rng);
            let has_final = has_route && present(rng);
            let has_auth = present(rng);
            let mut e = Ipv6Extensions {
                hop_by_hop_options: if present(rng) { Some(raw(rng, 17)) } else { None },
                destination_options: if present(rng) { Some(raw(rng, 17)) } else { None },
                routing: if has_route {
                    Some(Ipv6RoutingExtensions {
                        routing: raw(rng, 17),
                        final_destination_options: if has_final { Some(raw(rng, 17)) } else { None },
                    })
                } else {
                    None
                },
                fragment: if present(rng) { Some(Ipv6FragmentHeader::new(IpNumber(17), IpFragOffset::ZERO, false, 7)) } else { None },
                auth: if has_auth {
                    let u = match extreme {
                        Some(255) => 254,
                        Some(_) => 0,
                        None => size(rng).min(254),
                    };
                    Some(IpAuthHeader::new(IpNumber(17), 1, 2, &vec![0xa5u8; 4 * u]).unwrap())
                } else {
                    None
                },
            };
            let first = e.set_next_headers(IpNumber(17));
            let len = e.header_len();
            let mut want = 0usize;
            for h in [&e.hop_by_hop_options, &e.destination_options].into_iter().flatten() {
                want += 8 + h.payload().len() - 6;
            }
            if let Some(r) = &e.routing {
                want += 8 + r.routing.payload().len() - 6;
                if let Some(f) = &r.final_destination_options {
                    want += 8 + f.payload().len() - 6;
                }
                let rl = r.header_len();
                expect!(rep, "Ipv6RoutingExtensions|announced_bounds", Ipv6RoutingExtensions::MIN_LEN <= rl && rl <= Ipv6RoutingExtensions::MAX_LEN, "header_len {} outside [MIN_LEN {}, MAX_LEN {}]", rl, Ipv6RoutingExtensions::MIN_LEN, Ipv6RoutingExtensions::MAX_LEN);
                if extreme == Some(255) && has_final {
                    expect!(rep, "Ipv6RoutingExtensions::MAX_LEN|attained", rl == Ipv6RoutingExtensions::MAX_LEN, "largest value has {} octets, MAX_LEN = {}", rl, Ipv6RoutingExtensions::MAX_LEN);
                }
                if extreme == Some(0) && !has_final {
                    expect!(rep, "Ipv6RoutingExtensions::MIN_LEN|attained", rl == Ipv6RoutingExtensions::MIN_LEN, "smallest value has {} octets, MIN_LEN = {}", rl, Ipv6RoutingExtensions::MIN_LEN);
                }
            }
            if e.fragment.is_some() {
                want += 8;
            }
            if let Some(a) = &e.auth {
                want += 12 + a.raw_icv().len();
            }
            expect!(rep, "Ipv6Extensions::header_len|sum_of_parts", len == want, "{} want {}", len, want);
            expect!(rep, "Ipv6Extensions|announced_bounds", Ipv6Extensions::MIN_LEN <= len && len <= Ipv6Extensions::MAX_LEN, "header_len {} outside [MIN_LEN {}, MAX_LEN {}]", len, Ipv6Extensions::MIN_LEN, Ipv6Extensions::MAX_LEN);
            let full = all && has_final && extreme == Some(255);
            if full {
                expect!(rep, "Ipv6Extensions::MAX_LEN|attained", len == Ipv6Extensions::MAX_LEN && len == 4 * 2048 + 8 + 1028, "largest chain has {} octets, MAX_LEN = {}", len, Ipv6Extensions::MAX_LEN);
                rep.count("api.c12.largest_chain");
            }
            // a buffer sized with the announced maximum takes the chain
            let mut buf = vec![0u8; Ipv6Extensions::MAX_LEN];
            let mut cur = Cursor::new(&mut buf[..]);
            let w = e.write(&mut cur, first);
            let pos = cur.position() as usize;
            expect!(rep, "Ipv6Extensions::write|fits_announced_maximum", w.is_ok() && pos == len, "{:?} after {} of {} octets into a MAX_LEN = {} buffer", w.as_ref().err().map(|e| format!("{}", e)), pos, len, Ipv6Extensions::MAX_LEN);
            let ip = IpHeaders::Ipv6(
                Ipv6Header {
                    next_header: first,
                    ..Default::default()
                },
                e.clone(),
            );
            let il = ip.header_len();
            expect!(rep, "IpHeaders|announced_bounds", il == 40 + len && il <= IpHeaders::MAX_LEN, "header_len {} (extensions {}) above MAX_LEN {}", il, len, IpHeaders::MAX_LEN);
            if full {
                expect!(rep, "IpHeaders::MAX_LEN|attained", il == IpHeaders::MAX_LEN, "largest header set has {} octets, MAX_LEN = {}", il, IpHeaders::MAX_LEN);
            }
            let mut buf = vec![0u8; IpHeaders::MAX_LEN];
            let mut cur = Cursor::new(&mut buf[..]);
            let w = ip.write(&mut cur);
            let pos = cur.position() as usize;
            expect!(rep, "IpHeaders::write|fits_announced_maximum", w.is_ok() && pos == il, "{:?} after {} of {} octets into a MAX_LEN = {} buffer", w.as_ref().err().map(|e| format!("{}", e)), pos, il, IpHeaders::MAX_LEN);
            // IPv4
            let v4 = Ipv4Extensions { auth: e.auth.clone() };
            let l4 = v4.header_len();
            expect!(rep, "Ipv4Extensions|announced_bounds", Ipv4Extensions::MIN_LEN <= l4 && l4 <= Ipv4Extensions::MAX_LEN && (extreme != Some(255) || !has_auth || l4 == Ipv4Extensions::MAX_LEN), "header_len {} outside / not attaining [MIN_LEN {}, MAX_LEN {}]", l4, Ipv4Extensions::MIN_LEN, Ipv4Extensions::MAX_LEN);
            rep.count("api.c12.announced_bounds_checked");
        }
        rep.sig("api|c12");
    });
}

// ------------------------------------------------------------------------------------------------
// C06: deprecated / alternative doors of the header decoders
// ------------------------------------------------------------------------------------------------

pub fn c06(rep: &mut Report, rng: &mut Prng) {
    use crate::observe::single::HEADERS;
    guarded_api(rep, "c06", |rep| {
        let pick = |name: &str, rng: &mut Prng| -> Vec<u8> {
            let t = HEADERS.iter().find(|t| t.name == name).unwrap();
            let mut b = (t.gen)(rng);
            if rng.chance(1, 3) && !b.is_empty() {
                b.truncate(rng.usize_below(b.len() + 1));
            }
            b
        };
        macro_rules! alias {
            ($name:expr, $gen:expr, $a:expr, $b:expr) => {{
                let bytes = pick($gen, rng);
                rep.evals += 1;
                let x = $a(&bytes[..]).map(|(h, rest): (_, &[u8])| (format!("{:?}", h), rest.as_ptr() as usize - bytes.as_ptr() as usize, rest.len())).map_err(|e| format!("{:?}", e));
                let y = $b(&bytes[..]).map(|(h, rest): (_, &[u8])| (format!("{:?}", h), rest.as_ptr() as usize - bytes.as_ptr() as usize, rest.len())).map_err(|e| format!("{:?}", e));
                if x != y {
                    rep.violation(&format!("api|{}|differs_from_from_slice", $name), format!("{}: {:?} but from_slice {:?}", $name, x, y), &bytes);
                } else {
                    rep.count(if x.is_ok() { "api.c06.alias_same_value" } else { "api.c06.alias_same_error" });
                }
            }};
        }
        #[allow(deprecated)]
        {
            alias!("Ethernet2Header::read_from_slice", "Ethernet2Header", Ethernet2Header::read_from_slice, Ethernet2Header::from_slice);
            alias!("SingleVlanHeader::read_from_slice", "SingleVlanHeader", SingleVlanHeader::read_from_slice, SingleVlanHeader::from_slice);
            alias!("Ipv4Header::read_from_slice", "Ipv4Header", Ipv4Header::read_from_slice, Ipv4Header::from_slice);
            alias!("Ipv6Header::read_from_slice", "Ipv6Header", Ipv6Header::read_from_slice, Ipv6Header::from_slice);
            alias!("TcpHeader::read_from_slice", "TcpHeader", TcpHeader::read_from_slice, TcpHeader::from_slice);
            alias!("UdpHeader::read_from_slice", "UdpHeader", UdpHeader::read_from_slice, UdpHeader::from_slice);
        }
        #[allow(deprecated)]
        {
            let bytes = pick("IpHeaders", rng);
            rep.evals += 1;
            let x = IpHeaders::read_from_slice(&bytes).map(|(h, n, rest)| (format!("{:?}", h), n, rest.as_ptr() as usize - bytes.as_ptr() as usize, rest.len())).map_err(|e| format!("{:?}", e));
            let y = IpHeaders::from_slice(&bytes).map(|(h, p)| (format!("{:?}", h), p.ip_number, p.payload.as_ptr() as usize - bytes.as_ptr() as usize, p.payload.len())).map_err(|e| format!("{:?}", e));
            if x != y {
                rep.violation("api|IpHeaders::read_from_slice|differs_from_from_slice", format!("{:?} but from_slice {:?}", x, y), &bytes);
            } else {
                rep.count(if x.is_ok() { "api.c06.alias_same_value" } else { "api.c06.alias_same_error" });
            }
        }
        expect!(rep, "UdpHeader::header_len_u16", UdpHeader::default().header_len_u16() == 8 && UdpHeader::default().header_len() == 8, "{}", UdpHeader::default().header_len_u16());
        // the skip walkers over a slice: reference walk (RFC 8200 §4 / RFC 4302 lengths), and the
        // io::Read door must give the same verdict, number and position
        {
            let all = pick("Ipv6Extensions", rng);
            if !all.is_empty() {
                let first = if rng.chance(1, 6) { *rng.pick(&[135u8, 139, 140, 50, 253, 17]) } else { all[0] };
                let data = &all[1..];
                let hl = |n: u8, b: &[u8]| -> Option<Option<usize>> {
                    match n {
                        44 => Some(if b.len() >= 2 { Some(8) } else { None }),
                        51 => Some(if b.len() >= 2 { Some((b[1] as usize + 2) * 4) } else { None }),
                        0 | 43 | 60 | 135 | 139 | 140 => Some(if b.len() >= 2 { Some((b[1] as usize + 1) * 8) } else { None }),
                        _ => None,
                    }
                };
                // Ok((number, offset of rest)) | Err((offset of the failing header, bytes available there, its length if known))
                let walk = |all_steps: bool| -> Result<(u8, usize), (usize, usize, Option<usize>)> {
                    let mut n = first;
                    let mut off = 0usize;
                    loop {
                        match hl(n, &data[off..]) {
                            None => return Ok((n, off)),
                            Some(Some(l)) if off + l <= data.len() => {
                                n = data[off];
                                off += l;
                            }
                            Some(l) => return Err((off, data.len() - off, l)),
                        }
                        if !all_steps {
                            return Ok((n, off));
                        }
                    }
                };
                for all_steps in [false, true] {
                    rep.evals += 1;
                    let name = if all_steps { "Ipv6Header::skip_all_header_extensions_in_slice" } else { "Ipv6Header::skip_header_extension_in_slice" };
                    let got = if all_steps { Ipv6Header::skip_all_header_extensions_in_slice(data, IpNumber(first)) } else { Ipv6Header::skip_header_extension_in_slice(data, IpNumber(first)) };
                    let want = walk(all_steps);
                    let ok = match (&got, &want) {
                        (Ok((n, rest)), Ok((wn, woff))) => n.0 == *wn && rest.len() == data.len() - woff && rest.as_ptr() as usize == data.as_ptr() as usize + woff,
                        (Err(e), Err((off, avail, l))) => {
                            e.layer_start_offset == *off && e.len == *avail && e.len_source == LenSource::Slice && e.layer == err::Layer::Ipv6ExtHeader && e.required_len > e.len && (Some(e.required_len) == *l || e.required_len == 2 || (e.required_len == 8 && l.is_none()))
                        }
                        _ => false,
                    };
                    if !ok {
                        rep.violation(&format!("api|{}|differs_from_reference_walk", name), format!("{}(number {}): {:?}, reference {:?}", name, first, got.as_ref().map(|(n, r)| (n.0, data.len() - r.len())), want), &all);
                    } else {
                        rep.count(if want.is_ok() { "api.c06.skip_in_slice_ok" } else { "api.c06.skip_in_slice_rejects" });
                    }
                    // the reader door
                    let mut cur = Cursor::new(data);
                    let r = if all_steps { Ipv6Header::skip_all_header_extensions(&mut cur, IpNumber(first)) } else { Ipv6Header::skip_header_extension(&mut cur, IpNumber(first)) };
                    let same = match (&r, &want) {
                        (Ok(n), Ok((wn, woff))) => n.0 == *wn && cur.position() as usize == *woff,
                        (Err(e), Err(_)) => e.kind() == std::io::ErrorKind::UnexpectedEof,
                        _ => false,
                    };
                    if !same {
                        rep.violation(&format!("api|{}|reader_door_differs", name), format!("{} via io::Read (number {}): {:?} at position {}, slice door / reference {:?}", name, first, r.as_ref().map(|n| n.0).map_err(|e| e.kind()), cur.position(), want), &all);
                    } else {
                        rep.count("api.c06.skip_reader_same");
                    }
                }
                // the predicate the walkers are built on
                for n in 0..=255u8 {
                    let want = matches!(n, 0 | 43 | 44 | 51 | 60 | 135 | 139 | 140);
                    expect!(rep, "Ipv6Header::is_skippable_header_extension", Ipv6Header::is_skippable_header_extension(IpNumber(n)) == want, "{}", n);
                }
            }
        }
        // Ethernet2Header::from_bytes == from_slice on exactly 14 bytes
        let b = rng.bytes(14);
        let mut a = [0u8; 14];
        a.copy_from_slice(&b);
        let x = Ethernet2Header::from_bytes(a);
        let y = Ethernet2Header::from_slice(&b).unwrap().0;
        rep.evals += 1;
        expect!(rep, "Ethernet2Header::from_bytes|equals_from_slice", x == y && x.to_bytes() == a, "{:?} vs {:?}", x, y);
        // Ipv6Header address accessors
        let hb = pick("Ipv6Header", rng);
        if let Ok((h, _)) = Ipv6Header::from_slice(&hb) {
            expect!(rep, "Ipv6Header::source_addr|destination_addr", h.source_addr().octets() == h.source && h.destination_addr().octets() == h.destination && h.source[..] == hb[8..24] && h.destination[..] == hb[24..40], "{:?}", h);
        }
        // the catch-all error types: a content fault found through the reader door lands in the same
        // variant (path) of `err::ReadError` as the same fault found through the slice door
        macro_rules! same_variant {
            ($name:expr, $bytes:expr, $slice:expr, $read:expr) => {{
                let bytes: &[u8] = $bytes;
                let se = $slice(bytes).err().map(|e| format!("{:?}", err::ReadError::from(e)));
                let mut cur = Cursor::new(bytes);
                let re = $read(&mut cur).err().map(|e| format!("{:?}", err::ReadError::from(e)));
                if let (Some(a), Some(b)) = (se, re) {
                    let content = |t: &str| !t.starts_with("Len(") && !t.starts_with("Io(");
                    if content(&a) && content(&b) {
                        rep.evals += 1;
                        if a != b {
                            rep.violation(&format!("api|{}|converted_variant_differs", $name), format!("{}: as err::ReadError the slice door gives {} and the reader door {}", $name, a, b), bytes);
                        } else {
                            rep.count("api.c06.converted_errors_same_variant");
                            rep.sig(&format!("api|c06|conv|{}", a.split(|c: char| !c.is_alphanumeric() && c != '(').next().unwrap_or("")));
                        }
                    }
                }
            }};
        }
        {
            let b = pick("IpHeaders", rng);
            same_variant!("IpHeaders", &b, |b| IpHeaders::from_slice(b).map(|_| ()), |c: &mut Cursor<&[u8]>| IpHeaders::read(c).map(|_| ()));
            let b = pick("Ipv4Header", rng);
            same_variant!("Ipv4Header", &b, |b| Ipv4Header::from_slice(b).map(|_| ()), |c: &mut Cursor<&[u8]>| Ipv4Header::read(c).map(|_| ()));
            let b = pick("Ipv6Header", rng);
            same_variant!("Ipv6Header", &b, |b| Ipv6Header::from_slice(b).map(|_| ()), |c: &mut Cursor<&[u8]>| Ipv6Header::read(c).map(|_| ()));
            let b = pick("IpAuthHeader", rng);
            same_variant!("IpAuthHeader", &b, |b| IpAuthHeader::from_slice(b).map(|_| ()), |c: &mut Cursor<&[u8]>| IpAuthHeader::read(c).map(|_| ()));
            let b = pick("Ipv6Extensions", rng);
            if !b.is_empty() {
                let first = IpNumber(b[0]);
                same_variant!("Ipv6Extensions", &b[1..], |b| Ipv6Extensions::from_slice(first, b).map(|_| ()), |c: &mut Cursor<&[u8]>| Ipv6Extensions::read(c, first).map(|_| ()));
            }
            let b = pick("LinuxSllHeader", rng);
            same_variant!("LinuxSllHeader", &b, |b| LinuxSllHeader::from_slice(b).map(|_| ()), |c: &mut Cursor<&[u8]>| LinuxSllHeader::read(c).map(|_| ()));
            let b = pick("MacsecHeader", rng);
            same_variant!("MacsecHeader", &b, |b| MacsecHeader::from_slice(b).map(|_| ()), |c: &mut Cursor<&[u8]>| MacsecHeader::read(c).map(|_| ()));
            let b = pick("TcpHeader", rng);
            same_variant!("TcpHeader", &b, |b| TcpHeader::from_slice(b).map(|_| ()), |c: &mut Cursor<&[u8]>| TcpHeader::read(c).map(|_| ()));
        }
        rep.sig("api|c06");
    });
}

// ------------------------------------------------------------------------------------------------
// C07: conversions into the union error types keep the fault; C02: every error renders
// ------------------------------------------------------------------------------------------------

fn chain_text(e: &(dyn std::error::Error + 'static)) -> String {
    // innermost error of the source chain (bounded walk: C02)
    let mut cur: &(dyn std::error::Error + 'static) = e;
    let mut n = 0;
    while let Some(s) = cur.source() {
        cur = s;
        n += 1;
        if n > 16 {
            return "<source chain longer than 16>".to_string();
        }
    }
    format!("{}", cur)
}

pub fn c07_convert(rep: &mut Report, rng: &mut Prng, bytes: &[u8]) {
    guarded_api(rep, "c07_convert", |rep| {
        macro_rules! slice_conv {
            ($name:expr, $call:expr) => {{
                rep.evals += 1;
                if let Err(e) = $call {
                    let text = format!("{}", e);
                    let inner = chain_text(&e);
                    let dbg = format!("{:?}", e);
                    let u = err::FromSliceError::from(e.clone());
                    let r = err::ReadError::from(e.clone());
                    // the union types render by delegating to the error they wrap
                    let ok = format!("{}", u) == text && format!("{}", r) == text;
                    if !ok {
                        rep.violation(
                            &format!("api|convert|{}|message_changed", $name),
                            format!("{}: {:?} renders as {:?}, FromSliceError::from(..) as {:?}, ReadError::from(..) as {:?}", $name, dbg, text, format!("{}", u), format!("{}", r)),
                            bytes,
                        );
                    } else if chain_text(&u) != inner || chain_text(&r) != inner {
                        rep.violation(&format!("api|convert|{}|source_changed", $name), format!("{}: innermost source {:?} vs {:?} / {:?}", $name, inner, chain_text(&u), chain_text(&r)), bytes);
                    } else {
                        rep.count("api.c07.conversions_preserve_message");
                    }
                    // exactly one typed accessor answers
                    let n = [u.len().is_some(), u.linux_sll().is_some(), u.macsec().is_some(), u.ip().is_some(), u.ip_auth().is_some(), u.ipv4().is_some(), u.ipv6().is_some(), u.ipv6_exts().is_some(), u.tcp().is_some()].iter().filter(|x| **x).count();
                    let m = [r.io().is_some(), r.len().is_some(), r.linux_sll().is_some(), r.macsec().is_some(), r.ip().is_some(), r.ip_auth().is_some(), r.ipv4().is_some(), r.ipv6().is_some(), r.ipv6_exts().is_some(), r.tcp().is_some()].iter().filter(|x| **x).count();
                    expect!(rep, concat!("convert|", $name, "|one_accessor"), n == 1 && m == 1, "{} / {} accessors answer for {:?}", n, m, dbg);
                    if let Some(l) = u.len() {
                        expect!(rep, concat!("convert|", $name, "|len_error_kept"), dbg.contains(&format!("{:?}", l)), "{:?} not inside {:?}", l, dbg);
                    }
                    rep.sig(&format!("api|convert|{}|{}", $name, dbg.split(|c: char| !c.is_alphanumeric()).next().unwrap_or("")));
                }
            }};
        }
        slice_conv!("SlicedPacket::from_ethernet", SlicedPacket::from_ethernet(bytes));
        slice_conv!("SlicedPacket::from_ip", SlicedPacket::from_ip(bytes));
        slice_conv!("IpSlice::from_slice", IpSlice::from_slice(bytes));
        slice_conv!("Ipv4Slice::from_slice", Ipv4Slice::from_slice(bytes));
        slice_conv!("Ipv6Slice::from_slice", Ipv6Slice::from_slice(bytes));
        slice_conv!("IpHeaders::from_slice", IpHeaders::from_slice(bytes));
        slice_conv!("Ipv4Header::from_slice", Ipv4Header::from_slice(bytes));
        slice_conv!("Ipv6Header::from_slice", Ipv6Header::from_slice(bytes));
        slice_conv!("IpAuthHeader::from_slice", IpAuthHeader::from_slice(bytes));
        slice_conv!("Ipv6Extensions::from_slice", Ipv6Extensions::from_slice(IpNumber(*rng.pick(&[0u8, 43, 44, 51, 60])), bytes));
        slice_conv!("LinuxSllHeader::from_slice", LinuxSllHeader::from_slice(bytes));
        slice_conv!("TcpHeader::from_slice", TcpHeader::from_slice(bytes));
        slice_conv!("UdpHeader::from_slice", UdpHeader::from_slice(bytes));
        macro_rules! read_conv {
            ($name:expr, $call:expr) => {{
                rep.evals += 1;
                let mut cur = Cursor::new(bytes);
                let res = $call(&mut cur);
                if let Err(e) = res {
                    let text = format!("{}", e);
                    let inner = chain_text(&e);
                    let dbg = format!("{:?}", e);
                    let r = err::ReadError::from(e);
                    // (the reader error types prefix I/O errors with the header's name, the union type
                    // does not: the innermost error is what has to survive)
                    let _ = &text;
                    if chain_text(&r) != inner {
                        rep.violation(&format!("api|convert|{}|source_changed", $name), format!("{}: innermost source {:?} vs {:?}", $name, inner, chain_text(&r)), bytes);
                    } else {
                        rep.count("api.c07.read_conversions_preserve_message");
                    }
                    let m = [r.io().is_some(), r.len().is_some(), r.linux_sll().is_some(), r.macsec().is_some(), r.ip().is_some(), r.ip_auth().is_some(), r.ipv4().is_some(), r.ipv6().is_some(), r.ipv6_exts().is_some(), r.tcp().is_some()].iter().filter(|x| **x).count();
                    expect!(rep, concat!("convert|", $name, "|one_accessor"), m == 1, "{} accessors answer for {:?}", m, dbg);
                    rep.sig(&format!("api|convert|{}|{}", $name, dbg.split(|c: char| !c.is_alphanumeric()).next().unwrap_or("")));
                }
            }};
        }
        // the typed accessors of the reader error types: exactly one of them answers, and with the
        // value the Debug rendering shows (the accessors consume the error, so the read is repeated)
        macro_rules! read_acc {
            ($name:expr, $call:expr, [$($acc:expr),+]) => {{
                let mut answers = 0usize;
                let mut total = 0usize;
                let mut dbg = String::new();
                let mut bad: Option<String> = None;
                $(
                    {
                        let mut cur = Cursor::new(bytes);
                        if let Err(e) = $call(&mut cur) {
                            dbg = format!("{:?}", e);
                            total += 1;
                            if let Some(shown) = $acc(e) {
                                answers += 1;
                                // the accessor's value is what the error holds
                                let core: String = shown;
                                if !dbg.contains(&core) {
                                    bad = Some(core);
                                }
                            }
                        }
                    }
                )+
                if total > 0 {
                    rep.evals += 1;
                    if answers != 1 {
                        rep.violation(&format!("api|accessors|{}|answers", $name), format!("{}: {} typed accessors answer for {}", $name, answers, dbg), bytes);
                    } else if let Some(b) = bad {
                        rep.violation(&format!("api|accessors|{}|value", $name), format!("{}: accessor returned {} for {}", $name, b, dbg), bytes);
                    } else {
                        rep.count("api.c07.reader_error_accessors");
                    }
                }
            }};
        }
        fn d<T: std::fmt::Debug>(o: Option<T>) -> Option<String> {
            o.map(|v| format!("{:?}", v))
        }
        read_acc!("ip::HeaderReadError", |c: &mut Cursor<&[u8]>| IpHeaders::read(c), [|e: err::ip::HeaderReadError| d(e.io()), |e: err::ip::HeaderReadError| d(e.len()), |e: err::ip::HeaderReadError| d(e.content())]);
        read_acc!("ipv4::HeaderReadError", |c: &mut Cursor<&[u8]>| Ipv4Header::read(c), [|e: err::ipv4::HeaderReadError| d(e.io_error()), |e: err::ipv4::HeaderReadError| d(e.content_error())]);
        read_acc!("ipv6::HeaderReadError", |c: &mut Cursor<&[u8]>| Ipv6Header::read(c), [|e: err::ipv6::HeaderReadError| d(e.io_error()), |e: err::ipv6::HeaderReadError| d(e.content_error())]);
        read_acc!("ip_auth::HeaderReadError", |c: &mut Cursor<&[u8]>| IpAuthHeader::read(c), [|e: err::ip_auth::HeaderReadError| d(e.io()), |e: err::ip_auth::HeaderReadError| d(e.content())]);
        read_acc!("ipv6_exts::HeaderReadError", |c: &mut Cursor<&[u8]>| Ipv6Extensions::read(c, IpNumber(0)), [|e: err::ipv6_exts::HeaderReadError| d(e.io_error()), |e: err::ipv6_exts::HeaderReadError| d(e.content_error())]);
        read_acc!("macsec::HeaderReadError", |c: &mut Cursor<&[u8]>| MacsecHeader::read(c), [|e: err::macsec::HeaderReadError| d(e.io_error()), |e: err::macsec::HeaderReadError| d(e.content_error())]);
        read_acc!("tcp::HeaderReadError", |c: &mut Cursor<&[u8]>| TcpHeader::read(c), [|e: err::tcp::HeaderReadError| d(e.io_error()), |e: err::tcp::HeaderReadError| d(e.content_error())]);
        {
            use etherparse::io::LimitedReader;
            let lim = bytes.len().min(rng.range(0, 64) as usize);
            read_acc!(
                "ipv6_exts::HeaderLimitedReadError",
                |c: &mut Cursor<&[u8]>| {
                    let mut lr = LimitedReader::new(c, lim, LenSource::Ipv6HeaderPayloadLen, 40, err::Layer::Ipv6ExtHeader);
                    Ipv6Extensions::read_limited(&mut lr, IpNumber(0)).map(|_| ())
                },
                [|e: err::ipv6_exts::HeaderLimitedReadError| d(e.io()), |e: err::ipv6_exts::HeaderLimitedReadError| d(e.len()), |e: err::ipv6_exts::HeaderLimitedReadError| d(e.content())]
            );
            read_acc!(
                "ip_auth::HeaderLimitedReadError",
                |c: &mut Cursor<&[u8]>| {
                    let mut lr = LimitedReader::new(c, lim, LenSource::Ipv4HeaderTotalLen, 20, err::Layer::IpAuthHeader);
                    IpAuthHeader::read_limited(&mut lr).map(|_| ())
                },
                [|e: err::ip_auth::HeaderLimitedReadError| d(e.io()), |e: err::ip_auth::HeaderLimitedReadError| d(e.len()), |e: err::ip_auth::HeaderLimitedReadError| d(e.content())]
            );
            read_acc!(
                "io::LimitedReadError",
                |c: &mut Cursor<&[u8]>| {
                    let mut lr = LimitedReader::new(c, lim, LenSource::Slice, 3, err::Layer::Ipv6ExtHeader);
                    Ipv6RawExtHeader::read_limited(&mut lr).map(|_| ())
                },
                [|e: err::io::LimitedReadError| d(e.io()), |e: err::io::LimitedReadError| d(e.len())]
            );
            // the reader's own accessors report what it was created with / has handed out
            let mut c = Cursor::new(bytes);
            let mut lr = LimitedReader::new(&mut c, lim, LenSource::UdpHeaderLen, 7, err::Layer::UdpHeader);
            let k = lim.min(rng.range(0, 9) as usize);
            let mut buf = vec![0u8; k];
            let r = lr.read_exact(&mut buf);
            rep.evals += 1;
            expect!(rep, "LimitedReader|accessors", r.is_ok() && lr.max_len() == lim && lr.len_source() == LenSource::UdpHeaderLen && lr.layer() == err::Layer::UdpHeader && lr.layer_offset() == 7 && lr.read_len() == k && buf[..] == bytes[..k], "limit {} read {}: max_len {} read_len {} offset {}", lim, k, lr.max_len(), lr.read_len(), lr.layer_offset());
            lr.start_layer(err::Layer::TcpHeader);
            expect!(rep, "LimitedReader::start_layer|rebases", lr.layer() == err::Layer::TcpHeader && lr.layer_offset() == 7 + k && lr.read_len() == 0 && lr.max_len() == lim - k, "after start_layer: offset {} read_len {} max_len {}", lr.layer_offset(), lr.read_len(), lr.max_len());
            let _ = format!("{:?}", lr);
        }
        read_conv!("IpHeaders::read", |c: &mut Cursor<&[u8]>| IpHeaders::read(c));
        read_conv!("Ipv4Header::read", |c: &mut Cursor<&[u8]>| Ipv4Header::read(c));
        read_conv!("Ipv6Header::read", |c: &mut Cursor<&[u8]>| Ipv6Header::read(c));
        read_conv!("IpAuthHeader::read", |c: &mut Cursor<&[u8]>| IpAuthHeader::read(c));
        read_conv!("Ipv6Extensions::read", |c: &mut Cursor<&[u8]>| Ipv6Extensions::read(c, IpNumber(0)));
        read_conv!("LinuxSllHeader::read", |c: &mut Cursor<&[u8]>| LinuxSllHeader::read(c));
        read_conv!("MacsecHeader::read", |c: &mut Cursor<&[u8]>| MacsecHeader::read(c));
        read_conv!("TcpHeader::read", |c: &mut Cursor<&[u8]>| TcpHeader::read(c));
    });
}

// ------------------------------------------------------------------------------------------------
// C04: variant accessors of the header / slice enums agree with the variant
// ------------------------------------------------------------------------------------------------

pub fn c04_accessors(rep: &mut Report, bytes: &[u8]) {
    guarded_api(rep, "c04_accessors", |rep| {
        rep.evals += 1;
        if let Ok(h) = PacketHeaders::from_ethernet_slice(bytes) {
            if let Some(l) = &h.link {
                let e = l.clone().ethernet2();
                let s = l.clone().linux_sll();
                let mut lm = l.clone();
                let em = lm.mut_ethernet2().map(|x| x.clone());
                let mut lm2 = l.clone();
                let sm = lm2.mut_linux_sll().map(|x| x.clone());
                let ok = match l {
                    LinkHeader::Ethernet2(x) => e.as_ref() == Some(x) && s.is_none() && em.as_ref() == Some(x) && sm.is_none(),
                    LinkHeader::LinuxSll(x) => s.as_ref() == Some(x) && e.is_none() && sm.as_ref() == Some(x) && em.is_none(),
                };
                expect!(rep, "LinkHeader|variant_accessors", ok, "{:?}", l);
            }
            if let Some(n) = &h.net {
                let ok = match n {
                    NetHeaders::Ipv4(a, b) => n.ipv4_ref() == Some((a, b)) && n.ipv6_ref().is_none() && n.arp_ref().is_none() && n.is_ipv4() && !n.is_ipv6() && !n.is_arp(),
                    NetHeaders::Ipv6(a, b) => n.ipv6_ref() == Some((a, b)) && n.ipv4_ref().is_none() && n.arp_ref().is_none() && n.is_ipv6() && !n.is_ipv4() && !n.is_arp(),
                    NetHeaders::Arp(a) => n.arp_ref() == Some(a) && n.ipv4_ref().is_none() && n.ipv6_ref().is_none() && n.is_arp() && !n.is_ipv4() && !n.is_ipv6(),
                };
                expect!(rep, "NetHeaders|variant_accessors", ok, "{:?}", n);
            }
            if let Some(t) = &h.transport {
                let mut tm = t.clone();
                let ok = match t {
                    TransportHeader::Udp(x) => t.clone().udp().as_ref() == Some(x) && t.clone().tcp().is_none() && t.clone().icmpv4().is_none() && t.clone().icmpv6().is_none() && tm.mut_udp().map(|v| v.clone()).as_ref() == Some(x),
                    TransportHeader::Tcp(x) => t.clone().tcp().as_ref() == Some(x) && t.clone().udp().is_none() && t.clone().icmpv4().is_none() && t.clone().icmpv6().is_none() && tm.mut_tcp().map(|v| v.clone()).as_ref() == Some(x),
                    TransportHeader::Icmpv4(x) => t.clone().icmpv4().as_ref() == Some(x) && t.clone().udp().is_none() && t.clone().tcp().is_none() && t.clone().icmpv6().is_none() && tm.mut_icmpv4().map(|v| v.clone()).as_ref() == Some(x),
                    TransportHeader::Icmpv6(x) => t.clone().icmpv6().as_ref() == Some(x) && t.clone().udp().is_none() && t.clone().tcp().is_none() && t.clone().icmpv4().is_none() && tm.mut_icmpv6().map(|v| v.clone()).as_ref() == Some(x),
                    _ => true,
                };
                expect!(rep, "TransportHeader|variant_accessors", ok, "{:?}", t);
                rep.count("api.c04.transport_accessors");
            }
            let tags: Vec<&SingleVlanHeader> = h.link_exts.iter().filter_map(|x| if let LinkExtHeader::Vlan(v) = x { Some(v) } else { None }).collect();
            let v = h.vlan();
            let ok = match (&v, tags.len()) {
                (None, 0) => true,
                (Some(VlanHeader::Single(s)), 1) => s == tags[0] && v.as_ref().unwrap().next_header() == tags[0].ether_type,
                // the two outermost tags
                (Some(VlanHeader::Double(d)), n) if n >= 2 => &d.outer == tags[0] && &d.inner == tags[1] && v.as_ref().unwrap().next_header() == tags[1].ether_type,
                _ => false,
            };
            expect!(rep, "PacketHeaders::vlan|view_of_link_exts", ok, "{:?} from {} tags", v, tags.len());
            let ids = h.vlan_ids();
            let want_ids: Vec<VlanId> = tags.iter().map(|t| t.vlan_id).collect();
            expect!(rep, "PacketHeaders::vlan_ids", ids[..] == want_ids[..], "{:?} vs {:?}", ids, want_ids);
        }
        if let Ok(s) = SlicedPacket::from_ethernet(bytes) {
            if let Some(n) = &s.net {
                let ok = match n {
                    NetSlice::Ipv4(x) => n.ipv4_ref() == Some(x) && n.ipv6_ref().is_none() && n.arp_ref().is_none(),
                    NetSlice::Ipv6(x) => n.ipv6_ref() == Some(x) && n.ipv4_ref().is_none() && n.arp_ref().is_none(),
                    NetSlice::Arp(x) => n.arp_ref() == Some(x) && n.ipv4_ref().is_none() && n.ipv6_ref().is_none(),
                };
                expect!(rep, "NetSlice|variant_accessors", ok, "{:?}", n);
                rep.count("api.c04.net_slice_accessors");
            }
        }
    });
}

// ------------------------------------------------------------------------------------------------
// C08: ARP Ethernet/IPv4 view and IPv4 options conversions
// ------------------------------------------------------------------------------------------------

pub fn c08(rep: &mut Report, rng: &mut Prng) {
    guarded_api(rep, "c08", |rep| {
        rep.evals += 1;
        let op = ArpOperation(rng.u16_corner());
        let mut smac = [0u8; 6];
        smac.copy_from_slice(&rng.bytes(6));
        let mut tmac = [0u8; 6];
        tmac.copy_from_slice(&rng.bytes(6));
        let sip = [rng.u8(), rng.u8(), rng.u8(), rng.u8()];
        let tip = [rng.u8(), rng.u8(), rng.u8(), rng.u8()];
        let p = ArpEthIpv4Packet { operation: op, sender_mac: smac, sender_ipv4: sip, target_mac: tmac, target_ipv4: tip };
        // RFC 826 layout: htype 1, ptype 0x0800, hlen 6, plen 4, op, sha, spa, tha, tpa
        let mut want = vec![0, 1, 8, 0, 6, 4, (op.0 >> 8) as u8, op.0 as u8];
        want.extend_from_slice(&smac);
        want.extend_from_slice(&sip);
        want.extend_from_slice(&tmac);
        want.extend_from_slice(&tip);
        expect!(rep, "ArpEthIpv4Packet::to_bytes|rfc826", p.to_bytes()[..] == want[..], "{} vs {}", hex(&p.to_bytes()), hex(&want));
        let g = p.to_arp_packet();
        let g2: ArpPacket = p.clone().into();
        expect!(rep, "ArpEthIpv4Packet::to_arp_packet|bytes", g.to_bytes()[..] == want[..] && g2 == g, "{}", hex(&g.to_bytes()));
        let back = ArpEthIpv4Packet::try_from(g.clone());
        expect!(rep, "ArpEthIpv4Packet|TryFrom<ArpPacket>_round_trip", back.as_ref().ok() == Some(&p), "{:?}", back);
        expect!(rep, "ArpEthIpv4Packet|addr_accessors", p.sender_ipv4_addr().octets() == sip && p.target_ipv4_addr().octets() == tip, "{:?}", p);
        // a packet of another kind is not an Ethernet/IPv4 ARP packet
        let hl = rng.range(0, 8) as u8;
        let pl = rng.range(0, 8) as u8;
        let sh = rng.bytes(hl as usize);
        let sp = rng.bytes(pl as usize);
        let th = rng.bytes(hl as usize);
        let tp = rng.bytes(pl as usize);
        let hw = ArpHardwareId(*rng.pick(&[1u16, 1, 6, 0]));
        let pt = EtherType(*rng.pick(&[0x0800u16, 0x0800, 0x86dd]));
        if let Ok(other) = ArpPacket::new(hw, pt, op, &sh, &sp, &th, &tp) {
            let is_eth_ip = hw.0 == 1 && pt.0 == 0x0800 && hl == 6 && pl == 4;
            let r = ArpEthIpv4Packet::try_from(other.clone());
            expect!(rep, "ArpEthIpv4Packet|TryFrom<ArpPacket>_accepts_exactly_eth_ipv4", r.is_ok() == is_eth_ip, "{:?} -> {:?}", other, r);
            if let Ok(v) = r {
                expect!(rep, "ArpEthIpv4Packet|TryFrom<ArpPacket>_bytes", v.to_bytes()[..] == other.to_bytes()[..], "{:?}", v);
            }
            rep.count("api.c08.arp_views");
        }
        // Ipv4Options from fixed arrays
        let o4: [u8; 4] = [rng.u8(), rng.u8(), rng.u8(), rng.u8()];
        let a = Ipv4Options::from(o4);
        expect!(rep, "Ipv4Options|From<[u8;4]>", a.as_slice() == o4 && a.len() == 4, "{}", hex(a.as_slice()));
        let mut o40 = [0u8; 40];
        o40.copy_from_slice(&rng.bytes(40));
        let b = Ipv4Options::from(o40);
        expect!(rep, "Ipv4Options|From<[u8;40]>", b.as_slice() == o40 && b.len() == 40, "{}", hex(b.as_slice()));
        let r: &[u8] = a.as_ref();
        expect!(rep, "Ipv4Options|AsRef", r == o4, "{}", hex(r));
        // stale bytes behind a shorter value do not take part in comparisons
        let mut c = b.clone();
        c = {
            let _ = &c;
            Ipv4Options::from(o4)
        };
        expect!(rep, "Ipv4Options|Eq_after_shrink", c == a && c.cmp(&a) == std::cmp::Ordering::Equal, "{:?}", c);
        // IGMP headers, byte direction: every accepted message re-encodes to its own header bytes and
        // decodes again to the same value (RFC 1112 / 2236 / 9776 layouts; the unknown form keeps all 8 octets)
        {
            let any = rng.u8();
            let ty = *rng.pick(&[0x11u8, 0x11, 0x12, 0x16, 0x17, 0x22, 0x22, any]);
            let len = match rng.below(4) {
                0 => 8,
                1 => 12,
                2 => rng.range(8, 40) as usize,
                _ => rng.range(12, 24) as usize,
            };
            let mut m = rng.bytes(len);
            m[0] = ty;
            if rng.chance(1, 3) && m.len() > 8 {
                m[8] = rng.u8_corner();
            }
            if let Ok((h, rest)) = IgmpHeader::from_slice(&m) {
                let enc = h.to_bytes();
                let hl = m.len() - rest.len();
                let again = IgmpHeader::from_slice(&enc).map(|(h2, r2)| (h2, r2.len()));
                // octet 1 is unused / reserved in the v1 report (0x12), v2 report (0x16), leave (0x17) and
                // v3 report (0x22) and written as 0 by the typed variants (a deliberate normalisation)
                let mut want = m[..hl].to_vec();
                if matches!(ty, 0x12 | 0x16 | 0x17 | 0x22) && want.len() > 1 {
                    want[1] = 0;
                }
                let ok = enc[..] == want[..] && enc.len() == h.header_len() && again.as_ref().ok() == Some(&(h.clone(), 0));
                expect!(rep, "IgmpHeader|reencoding", ok, "accepted {} -> {:?} -> re-encoded {} (header_len {}), decoded again {:?}", hex(&m[..hl.min(m.len())]), h, hex(&enc), h.header_len(), again);
                rep.count("api.c08.igmp_round_trips");
            }
        }
        // NDP option header
        let h = icmpv6::NdpOptionHeader { option_type: icmpv6::NdpOptionType(rng.u8()), length_units: rng.u8_corner() };
        expect!(rep, "NdpOptionHeader::to_bytes", h.to_bytes() == [h.option_type.0, h.length_units], "{:?}", h);
        expect!(rep, "NdpOptionHeader::byte_len", h.byte_len() == 8 * h.length_units as usize, "{:?} -> {}", h, h.byte_len());
        rep.sig("api|c08");
    });
}
