//! C11 — fragments reassemble to the original payload in any arrival order.
//!
//! History monitor: every delivery to `IpDefragPool::process_sliced_packet` is an event whose
//! result is compared with a small sequential model (per stream: set of delivered byte ranges +
//! known end). Each fragment is a real packet (Ethernet II [+VLAN] + IPv4 / IPv6+fragment
//! header) encoded by the harness with plain byte pushes and sliced by `SlicedPacket`.
//! The hook `IpDefragPool::verif_counts()` (feature verif_hooks) gives the number of active
//! streams and pooled buffers for the conservation checks.

use super::common::*;
use super::{Monitor, Tier};
use crate::prng::Prng;
use crate::report::{hex, jstr, Report};
use crate::shell;
use etherparse::defrag::*;
use etherparse::*;
use std::collections::BTreeMap;

pub struct C11 {
    small: bool,
}

impl C11 {
    pub fn new(flavour: &str) -> C11 {
        C11 {
            small: matches!(flavour, "miri" | "vg"),
        }
    }
}

#[derive(Clone, Debug, PartialEq, Eq, PartialOrd, Ord)]
struct StreamId {
    v6: bool,
    src: u8,
    dst: u8,
    ident: u32,
    proto: u8,
    vlans: Vec<u16>,
    channel: u8,
}

#[derive(Clone, Debug)]
struct Frag {
    stream: usize,
    off: usize,
    len: usize,
    more: bool,
    /// what the model expects the pool to answer
    dup_of: Option<usize>,
}

#[derive(Clone, Debug, Default)]
struct ModelStream {
    /// delivered ranges, merged, sorted
    ranges: Vec<(usize, usize)>,
    end: Option<usize>,
    last_ts: u32,
    active: bool,
    /// highest end of any accepted fragment, empty ones included (an empty fragment at x with
    /// more-fragments set still announces that the datagram reaches x)
    seen_max: usize,
}

impl ModelStream {
    fn add(&mut self, s: usize, e: usize) {
        self.seen_max = self.seen_max.max(e);
        if s == e {
            // an empty range still creates state in the pool; nothing to merge
            return;
        }
        let mut ns = s;
        let mut ne = e;
        let mut out = Vec::new();
        for (a, b) in self.ranges.drain(..) {
            if b < ns || a > ne {
                out.push((a, b));
            } else {
                ns = ns.min(a);
                ne = ne.max(b);
            }
        }
        out.push((ns, ne));
        out.sort();
        self.ranges = out;
    }
    fn complete(&self) -> bool {
        match self.end {
            Some(e) => self.ranges.len() == 1 && self.ranges[0].0 == 0 && self.ranges[0].1 >= e || (e == 0),
            None => false,
        }
    }
    fn max_end(&self) -> usize {
        self.ranges.iter().map(|r| r.1).max().unwrap_or(0).max(self.seen_max)
    }
}

fn payload_byte(stream: usize, datagram_gen: u32, off: usize) -> u8 {
    let mut x = (stream as u64 + 1).wrapping_mul(0x9E37_79B9_7F4A_7C15) ^ (off as u64).wrapping_mul(0xD6E8_FEB8_6659_FD93)
        ^ ((datagram_gen as u64) << 40);
    x ^= x >> 29;
    x = x.wrapping_mul(0xBF58_476D_1CE4_E5B9);
    (x >> 32) as u8
}

fn addr4(x: u8) -> [u8; 4] {
    [10, 0, x, 1]
}
fn addr6(x: u8) -> [u8; 16] {
    let mut a = [0u8; 16];
    a[0] = 0xfd;
    a[15] = x;
    a
}

/// encode one fragment as an Ethernet II packet (plain byte pushes: independent of the crate's
/// serialisers)
/// `noise` sets bits a receiver has to ignore: the reserved octet and the two reserved bits of the
/// IPv6 fragment header (RFC 8200 §4.5), the reserved flag / DF bit and the TOS octet of IPv4
fn encode(id: &StreamId, off: usize, more: bool, payload: &[u8], extra_ext: bool, noise: u8) -> Vec<u8> {
    let mut b = Vec::with_capacity(80 + payload.len());
    b.extend_from_slice(&[2, 0, 0, 0, 0, 1, 2, 0, 0, 0, 0, 2]);
    for v in &id.vlans {
        b.extend_from_slice(&0x8100u16.to_be_bytes());
        b.extend_from_slice(&(v & 0x0fff).to_be_bytes());
    }
    if id.v6 {
        b.extend_from_slice(&0x86ddu16.to_be_bytes());
        let ext_len = 8 + if extra_ext { 8 } else { 0 };
        b.extend_from_slice(&[0x60, 0, 0, 0]);
        b.extend_from_slice(&((ext_len + payload.len()) as u16).to_be_bytes());
        b.push(if extra_ext { 60 } else { 44 });
        b.push(64);
        b.extend_from_slice(&addr6(id.src));
        b.extend_from_slice(&addr6(id.dst));
        if extra_ext {
            // destination options in front of the fragment header (per-fragment part)
            b.extend_from_slice(&[44, 0, 1, 4, 0, 0, 0, 0]);
        }
        b.push(id.proto);
        b.push(if noise & 1 != 0 { noise | 1 } else { 0 });
        let w = ((off / 8) as u16) << 3 | more as u16 | if noise & 2 != 0 { ((noise >> 2) & 3) as u16 * 2 } else { 0 };
        b.extend_from_slice(&w.to_be_bytes());
        b.extend_from_slice(&id.ident.to_be_bytes());
    } else {
        b.extend_from_slice(&0x0800u16.to_be_bytes());
        b.push(0x45);
        b.push(if noise & 1 != 0 { noise } else { 0 });
        b.extend_from_slice(&((20 + payload.len()) as u16).to_be_bytes());
        b.extend_from_slice(&(id.ident as u16).to_be_bytes());
        let w = ((more as u16) << 13) | (off / 8) as u16 | if noise & 2 != 0 { ((noise >> 2) & 3) as u16 * 0x4000 } else { 0 };
        b.extend_from_slice(&w.to_be_bytes());
        b.push(64);
        b.push(id.proto);
        b.extend_from_slice(&[0, 0]);
        b.extend_from_slice(&addr4(id.src));
        b.extend_from_slice(&addr4(id.dst));
    }
    b.extend_from_slice(payload);
    b
}

struct World {
    pool: IpDefragPool<u32, u8>,
    model: BTreeMap<StreamId, ModelStream>,
    pooled_data: usize,
    pooled_sections: usize,
    held: Vec<IpDefragPayloadVec>,
    ts: u32,
}

impl World {
    fn new() -> World {
        World {
            pool: IpDefragPool::new(),
            model: BTreeMap::new(),
            pooled_data: 0,
            pooled_sections: 0,
            held: Vec::new(),
            ts: 0,
        }
    }
    fn model_active(&self) -> usize {
        self.model.values().filter(|m| m.active).count()
    }
    fn start_stream(&mut self) {
        if self.pooled_data > 0 {
            self.pooled_data -= 1;
        }
        if self.pooled_sections > 0 {
            self.pooled_sections -= 1;
        }
    }
}

#[derive(Debug, PartialEq, Eq)]
enum Expect {
    None,
    Complete(usize),
    ErrUnaligned,
    ErrTooBig,
    ErrConflict,
}

impl C11 {
    /// deliver one fragment and judge the answer against the model
    fn deliver(
        &mut self,
        rep: &mut Report,
        w: &mut World,
        id: &StreamId,
        original: &dyn Fn(usize) -> u8,
        off: usize,
        len: usize,
        more: bool,
        extra_ext: bool,
        history: &mut Vec<String>,
    ) -> bool {
        if off % 8 != 0 || off / 8 > 0x1fff {
            rep.selfcheck_fail(format!("harness asked for a fragment at offset {} that the 13 bit offset field cannot express", off));
            return false;
        }
        let payload: Vec<u8> = (off..off + len).map(|o| original(o)).collect();
        // deterministic per delivery: about half of the packets carry ignorable bits
        let noise = (w.ts.wrapping_mul(2654435761) >> 13) as u8;
        if noise & 3 != 0 {
            rep.count("deliveries.with_ignorable_bits_set");
        }
        let pkt = encode(id, off, more, &payload, extra_ext, noise);
        w.ts += 1;
        let ts = w.ts;
        history.push(format!(
            "{}#{:x}p{}{}c{} [{},{}){}",
            if id.v6 { "v6" } else { "v4" },
            id.ident,
            id.proto,
            if id.vlans.is_empty() { String::new() } else { format!("v{:?}", id.vlans) },
            id.channel,
            off,
            off + len,
            if more { "+" } else { "." }
        ));
        // model verdict
        let fragmenting = off != 0 || more;
        let st = w.model.entry(id.clone()).or_default();
        let end = off + len;
        let expect = if !fragmenting {
            Expect::None
        } else if end > 65535 {
            Expect::ErrTooBig
        } else if more && len % 8 != 0 {
            Expect::ErrUnaligned
        } else if st.active && st.end.map(|e| end > e || (!more && end != e)).unwrap_or(false) {
            Expect::ErrConflict
        } else if st.active && !more && st.max_end() > end {
            // a final fragment that ends below data already buffered contradicts it
            Expect::ErrConflict
        } else {
            let mut t = st.clone();
            t.add(off, end);
            if !more {
                t.end = Some(end);
            }
            if t.complete() {
                Expect::Complete(t.end.unwrap())
            } else {
                Expect::None
            }
        };
        rep.evals += 1;
        shell::progress_entry(1100);
        let before = w.pool.verif_counts();
        let res = shell::guarded(|| {
            let sliced = SlicedPacket::from_ethernet(&pkt).map_err(|e| format!("{:?}", e))?;
            let frag_flag = sliced.is_ip_payload_fragmented();
            Ok::<_, String>((w.pool.process_sliced_packet(&sliced, ts, id.channel), frag_flag))
        });
        let (res, frag_flag) = match res {
            Ok(Ok(r)) => r,
            Ok(Err(e)) => {
                rep.selfcheck_fail(format!("harness built an unparsable fragment: {} {}", e, hex(&pkt)));
                return false;
            }
            Err(p) => {
                rep.violation(
                    &format!("panic|process_sliced_packet|{}", p.location()),
                    format!("process_sliced_packet panicked: {} after history {:?}", p.0, history),
                    &pkt,
                );
                return false;
            }
        };
        if frag_flag != fragmenting {
            // (the packets are built by this file's own encoder straight from the RFCs: a wrong
            // flag is the library's - it shows as a deviation from the model below)
            rep.count("sliced_packet_fragment_flag_differs_from_intended");
        }
        let hist = || history.join(" | ");
        let mut ok = true;
        match (&expect, &res) {
            (Expect::None, Ok(None)) => {
                rep.count(if fragmenting { "deliveries.none" } else { "deliveries.unfragmented" });
            }
            (Expect::Complete(e), Ok(Some(v))) => {
                let want: Vec<u8> = (0..*e).map(|o| original(o)).collect();
                if v.payload != want {
                    let first_bad = v.payload.iter().zip(want.iter()).position(|(a, b)| a != b);
                    rep.violation(
                        &format!(
                            "wrong_payload|{}",
                            if v.payload.len() != want.len() { "length" } else { "content" }
                        ),
                        format!(
                            "reassembled payload differs from the original (len {} vs {}, first differing offset {:?}); history: {}",
                            v.payload.len(),
                            want.len(),
                            first_bad,
                            hist()
                        ),
                        &pkt,
                    );
                    ok = false;
                } else if v.ip_number.0 != id.proto {
                    rep.violation(
                        "wrong_protocol",
                        format!("reassembled protocol {} != {}; history: {}", v.ip_number.0, id.proto, hist()),
                        &pkt,
                    );
                    ok = false;
                } else {
                    rep.count("deliveries.completed");
                    rep.add("bytes_reassembled_and_compared", want.len() as u64);
                }
            }
            (Expect::ErrUnaligned, Err(IpDefragError::UnalignedFragmentPayloadLen { .. })) => rep.count("errors.unaligned"),
            (Expect::ErrTooBig, Err(IpDefragError::SegmentTooBig { .. })) => rep.count("errors.too_big"),
            (Expect::ErrConflict, Err(IpDefragError::ConflictingEnd { .. })) => rep.count("errors.conflicting_end"),
            (e, r) => {
                let got = match r {
                    Ok(None) => "Ok(None)".to_string(),
                    Ok(Some(v)) => format!("Ok(Some(len {}))", v.payload.len()),
                    Err(e) => format!("Err({:?})", e),
                };
                let class = match r {
                    Ok(None) => "none",
                    Ok(Some(_)) => "some",
                    Err(_) => "err",
                };
                rep.violation(
                    &format!("unexpected_result|expected={:?}|got={}", std::mem::discriminant(e), class)
                        .replace("Discriminant", "")
                        .replace(['(', ')'], ""),
                    format!("expected {:?} but the pool returned {}; history: {}", e, got, hist()),
                    &pkt,
                );
                ok = false;
            }
        }
        // update the model from what was expected (the model is the specification)
        let st = w.model.get_mut(id).unwrap();
        match expect {
            Expect::None if fragmenting => {
                if !st.active {
                    st.active = true;
                    st.ranges.clear();
                    st.end = None;
                    st.seen_max = 0;
                    w.start_stream();
                    let st = w.model.get_mut(id).unwrap();
                    st.add(off, end);
                    if !more {
                        st.end = Some(end);
                    }
                    st.last_ts = ts;
                } else {
                    st.add(off, end);
                    if !more {
                        st.end = Some(end);
                    }
                    st.last_ts = ts;
                }
            }
            Expect::Complete(_) => {
                if !st.active {
                    w.start_stream();
                }
                let st = w.model.get_mut(id).unwrap();
                *st = ModelStream::default();
                w.pooled_sections += 1;
            }
            Expect::ErrUnaligned | Expect::ErrTooBig | Expect::ErrConflict => {
                if !st.active {
                    // buffers were taken for the new stream and handed straight back
                    w.start_stream();
                    w.pooled_data += 1;
                    w.pooled_sections += 1;
                }
            }
            _ => {}
        }
        if let Ok(Some(v)) = res {
            w.held.push(v);
        }
        // conservation (only meaningful while the implementation followed the model)
        if ok {
            let c = w.pool.verif_counts();
            if c.0 != w.model_active() {
                rep.violation(
                    "conservation|active_streams",
                    format!(
                        "pool holds {} active streams, the model {} (before this delivery {:?}); history: {}",
                        c.0,
                        w.model_active(),
                        before,
                        hist()
                    ),
                    &pkt,
                );
                ok = false;
            } else if c.1 != w.pooled_data || c.2 != w.pooled_sections {
                rep.violation(
                    "conservation|pooled_buffers",
                    format!(
                        "pool holds {} data / {} section buffers, the model {} / {}; history: {}",
                        c.1,
                        c.2,
                        w.pooled_data,
                        w.pooled_sections,
                        hist()
                    ),
                    &pkt,
                );
                ok = false;
            } else {
                rep.count("conservation_checks");
            }
        }
        ok
    }

    fn history(&mut self, rep: &mut Report, rng: &mut Prng, conflicts: bool) {
        let mut w = World::new();
        let n_dgrams = rng.range(1, 4) as usize;
        // stream ids differ from the base in exactly one component
        let base = StreamId {
            v6: rng.bool(),
            src: 1,
            dst: 2,
            ident: rng.u32() & 0xffff,
            proto: *rng.pick(&[17u8, 6, 1, 58, 253, 47]),
            vlans: {
                // VLAN id 0 (a priority tag) is a tag like any other for the stream key
                let vid = |rng: &mut Prng| match rng.below(4) {
                    0 => 0u16,
                    1 => *rng.pick(&[1u16, 0x0fff]),
                    _ => rng.u16() & 0x0fff,
                };
                match rng.below(4) {
                    0 => vec![vid(rng)],
                    1 => vec![vid(rng), vid(rng)],
                    _ => vec![],
                }
            },
            channel: 0,
        };
        let mut ids = vec![base.clone()];
        while ids.len() < n_dgrams {
            let mut v = base.clone();
            match rng.below(7) {
                0 => v.src = 3,
                1 => v.dst = 4,
                2 => v.ident = base.ident ^ 1,
                3 => v.proto = if base.proto == 17 { 6 } else { 17 },
                4 => {
                    // tagged vs untagged (also with the priority tag, id 0), one tag more / fewer, another id
                    match (v.vlans.len(), rng.below(3)) {
                        (0, 0) => v.vlans.push(5),
                        (0, _) => v.vlans.push(0),
                        (1, 0) => v.vlans.push(0),
                        (2, 0) => {
                            v.vlans.pop();
                        }
                        (_, 1) => {
                            v.vlans.remove(0);
                        }
                        _ => v.vlans[0] ^= 1,
                    }
                }
                5 => v.channel = 1,
                _ => v.v6 = !base.v6,
            }
            if !ids.contains(&v) {
                ids.push(v);
            }
        }
        // datagram payload lengths and cuts
        let max_len = if self.small { 120 } else { 2600 };
        let mut queue: Vec<(usize, usize, usize, bool)> = Vec::new(); // (stream, off, len, more)
        let mut lens = Vec::new();
        for (si, _) in ids.iter().enumerate() {
            let total = if !self.small && rng.chance(1, 40) {
                // the upper half of the 13 bit offset range (fragments starting at >= 32768) up to the maximum
                rep.count("datagrams.above_32k");
                match rng.below(4) {
                    0 => 65535,
                    1 => 65528,
                    _ => rng.range(33_000, 65_535) as usize,
                }
            } else {
                match rng.below(10) {
                    0 => rng.range(9, 40) as usize,
                    1..=6 => rng.range(9, 400) as usize,
                    _ => rng.range(9, max_len) as usize,
                }
            };
            lens.push(total);
            // 8-aligned cut points
            let mut cuts = vec![0usize];
            let mut p = 0;
            loop {
                let max_units = if total > 3000 { total / 8 / 2 } else { (total / 8).max(1).min(40) };
                let step = 8 * rng.range(1, max_units as u64) as usize;
                p += step;
                if p >= total {
                    break;
                }
                cuts.push(p);
            }
            cuts.push(total);
            if cuts.len() == 2 {
                // force at least two fragments
                let c = 8 * rng.range(1, ((total - 1) / 8).max(1) as u64) as usize;
                if c < total {
                    cuts.insert(1, c);
                }
            }
            // a cut at a power-of-two offset (a single bit of the 13 bit offset field set), half of the
            // time as the start of the last fragment
            if rng.chance(1, 3) {
                let c = 8usize << rng.below(13);
                if c < total {
                    // (one fragment carries at most 65535 - 60 bytes)
                    if rng.bool() && total - c <= 65_000 {
                        cuts.retain(|x| *x < c || *x == total);
                    }
                    if !cuts.contains(&c) {
                        cuts.push(c);
                        cuts.sort();
                    }
                    rep.count("cuts.power_of_two_offset");
                }
            }
            // no piece larger than one IP packet can carry
            loop {
                match (0..cuts.len() - 1).find(|i| cuts[i + 1] - cuts[*i] > 60_000) {
                    Some(i) => cuts.insert(i + 1, cuts[i] + 32_768),
                    None => break,
                }
            }
            // an empty final fragment (carries only the end) where the length allows it
            let empty_final = total % 8 == 0 && rng.chance(1, 4);
            for i in 0..cuts.len() - 1 {
                queue.push((si, cuts[i], cuts[i + 1] - cuts[i], empty_final || i + 2 < cuts.len()));
            }
            if empty_final {
                queue.push((si, total, 0, false));
                rep.count("datagrams.with_empty_final_fragment");
            }
            // empty fragments inside the datagram
            if rng.chance(1, 8) {
                let a = 8 * rng.below((total / 8 + 1) as u64) as usize;
                if a > 0 {
                    queue.push((si, a, 0, true));
                    rep.count("fragments.empty_inner");
                }
            }
            // consistent overlaps and duplicates
            let extra = rng.below(3);
            for _ in 0..extra {
                let a = 8 * rng.below((total / 8).max(1) as u64) as usize;
                let maxl = total - a;
                if maxl == 0 {
                    continue;
                }
                let mut l = 8 * rng.range(1, (maxl / 8).max(1) as u64) as usize;
                let mut more = true;
                if a + l >= total || rng.chance(1, 6) {
                    l = total - a;
                    more = false;
                }
                if a == 0 && !more {
                    continue; // would be the unfragmented datagram
                }
                if l > 65_000 {
                    continue; // more than one IP packet can carry
                }
                queue.push((si, a, l, more));
            }
        }
        if queue.iter().any(|q| q.2 > 65_000) {
            rep.selfcheck_fail("harness generated a fragment larger than one IP packet can carry".to_string());
            return;
        }
        // delivery order: random permutation (interleaves the datagrams)
        for i in (1..queue.len()).rev() {
            let j = rng.usize_below(i + 1);
            queue.swap(i, j);
        }
        let gen_no = rng.u32();
        let mut history: Vec<String> = Vec::new();
        let mut delivered = 0;
        let mut completed_expected = 0;
        let n_q = queue.len();
        for (qi, (si, off, len, more)) in queue.into_iter().enumerate() {
            let id = ids[si].clone();
            let orig = move |o: usize| payload_byte(si, gen_no, o);
            // now and then: an unfragmented packet of the same stream passes through untouched
            if rng.chance(1, 12) {
                // (a protocol the slicer does not decode, so any body is a valid packet; same
                // addresses / identification / vlans / channel as the fragmented stream)
                let l = rng.range(0, 30) as usize;
                let mut uid = id.clone();
                if matches!(uid.proto, 17 | 6 | 1 | 58) {
                    uid.proto = 253;
                }
                if !self.deliver(rep, &mut w, &uid, &orig, 0, l, false, false, &mut history) {
                    return;
                }
            }
            if conflicts && rng.chance(1, 5) {
                // an inconsistent fragment (one of the three documented classes)
                let total = lens[si];
                let ok = match rng.below(4) {
                    0 => {
                        // not 8-aligned but more fragments follow
                        let l = rng.range(1, 7) as usize;
                        self.deliver(rep, &mut w, &id, &orig, 8 * rng.below(4) as usize, l, true, false, &mut history)
                    }
                    1 => {
                        // beyond the 65535 byte limit
                        let l = rng.range(8, 64) as usize;
                        self.deliver(rep, &mut w, &id, &orig, 65528, l, rng.bool() && l % 8 == 0, false, &mut history)
                    }
                    2 => {
                        // a final fragment that ends somewhere else than the datagram
                        // (the offset field has 13 bits: 65528 is the last expressible start)
                        let e = (8 * rng.range(2, (total / 8 + 6) as u64) as usize).min(65528 + 8);
                        let a = e.saturating_sub(8);
                        self.deliver(rep, &mut w, &id, &orig, a, e - a, false, false, &mut history)
                    }
                    _ => {
                        // data behind the end of the datagram
                        let a = ((total + 7) / 8 * 8 + 8 * rng.below(4) as usize).min(65528);
                        self.deliver(rep, &mut w, &id, &orig, a, 8, true, false, &mut history)
                    }
                };
                if !ok {
                    return;
                }
                rep.count("conflicting_fragments_injected");
            }
            let extra_ext = id.v6 && rng.chance(1, 4);
            if !self.deliver(rep, &mut w, &id, &orig, off, len, more, extra_ext, &mut history) {
                return;
            }
            delivered += 1;
            // duplicates
            if rng.chance(1, 6) {
                if !self.deliver(rep, &mut w, &id, &orig, off, len, more, false, &mut history) {
                    return;
                }
                rep.count("duplicates_delivered");
            }
            // hand results back for reuse
            if !w.held.is_empty() && rng.chance(1, 2) {
                let v = w.held.pop().unwrap();
                w.pool.return_buf(v);
                w.pooled_data += 1;
                rep.count("buffers_returned");
            }
            // eviction by timestamp
            if rng.chance(1, 25) && qi + 1 < n_q {
                let cutoff = w.ts.saturating_sub(rng.range(0, 6) as u32);
                w.pool.retain(|t| *t >= cutoff);
                let mut evicted = 0;
                for m in w.model.values_mut() {
                    if m.active && m.last_ts < cutoff {
                        *m = ModelStream::default();
                        evicted += 1;
                    }
                }
                w.pooled_data += evicted;
                w.pooled_sections += evicted;
                rep.add("streams_evicted", evicted as u64);
                let c = w.pool.verif_counts();
                if c.0 != w.model_active() || c.1 != w.pooled_data || c.2 != w.pooled_sections {
                    rep.violation(
                        "conservation|after_retain",
                        format!(
                            "after retain(cutoff {}): pool counts {:?}, model active {} pooled {}/{}; history: {}",
                            cutoff,
                            c,
                            w.model_active(),
                            w.pooled_data,
                            w.pooled_sections,
                            history.join(" | ")
                        ),
                        &[],
                    );
                    return;
                }
            }
            let _ = completed_expected;
            completed_expected += 0;
        }
        rep.count("histories");
        rep.add("deliveries", delivered);
        // behaviour signature of a history: engine, number of datagrams, deliveries, IP version,
        // and which of the stress ingredients actually occurred in it
        let first_off = history.first().map(|h| h.contains(" [0,")).unwrap_or(false);
        rep.sig(&format!(
            "{}|dgrams{}|deliv{}|{}|first_at_0={}|pool={:?}|held={}|vlans={}",
            if conflicts { "conflict" } else { "plain" },
            n_dgrams,
            history.len(),
            if base.v6 { "v6" } else { "v4" },
            first_off,
            w.pool.verif_counts(),
            w.held.len(),
            base.vlans.len()
        ));
        if rep.want_sample() && history.len() < 14 {
            rep.sample(format!("{{\"history\":{},\"note\":\"stream#id proto [from,to) +=more fragments .=last\"}}", jstr(&history.join(" | "))));
        }
    }

    /// IpDefragBuf driven directly
    fn buf(&mut self, rep: &mut Report, rng: &mut Prng) {
        let mut b = IpDefragBuf::new(IpNumber(17), Vec::new(), Vec::new());
        let mut m = ModelStream::default();
        let mut shadow = vec![None::<u8>; 70_000];
        let steps = rng.range(1, 14);
        let mut hist = Vec::new();
        for _ in 0..steps {
            let off = 8 * match rng.below(6) {
                0 => 8191,
                1 => rng.below(8192),
                _ => rng.below(40),
            } as usize;
            let len = match rng.below(6) {
                0 => rng.range(1, 7) as usize,
                1 => 8 * rng.range(1, 30) as usize,
                _ => 8 * rng.range(1, 6) as usize,
            };
            let more = rng.chance(4, 5);
            let data: Vec<u8> = (0..len).map(|i| payload_byte(7, 1, off + i)).collect();
            let end = off + len;
            let expect_err = end > 65535
                || (more && len % 8 != 0)
                || m.end.map(|e| end > e || (!more && end != e)).unwrap_or(false)
                || (!more && m.max_end() > end);
            hist.push(format!("[{},{}){}", off, end, if more { "+" } else { "." }));
            rep.evals += 1;
            let fo = match IpFragOffset::try_new((off / 8) as u16) {
                Ok(v) => v,
                Err(_) => continue,
            };
            let r = match shell::guarded(|| b.add(fo, more, &data)) {
                Ok(r) => r,
                Err(p) => {
                    rep.violation(&format!("panic|IpDefragBuf::add|{}", p.location()), format!("{} history {:?}", p.0, hist), &[]);
                    return;
                }
            };
            if r.is_err() != expect_err {
                rep.violation(
                    &format!("buf_unexpected_result|expected_err={}", expect_err),
                    format!("IpDefragBuf::add returned {:?} but expected error={}; history {:?}", r, expect_err, hist),
                    &[],
                );
                return;
            }
            if r.is_ok() {
                m.add(off, end);
                if !more {
                    m.end = Some(end);
                }
                for (i, d) in data.iter().enumerate() {
                    shadow[off + i] = Some(*d);
                }
                let mut secs: Vec<(usize, usize)> = b.sections().iter().map(|s| (s.start as usize, s.end as usize)).collect();
                secs.sort();
                // sections: merged delivered ranges (touching ranges merge); empty ranges may be listed
                let secs_nonempty: Vec<(usize, usize)> = secs.iter().cloned().filter(|s| s.0 != s.1).collect();
                if secs_nonempty != m.ranges {
                    // empty sections touching others are merged away by the implementation; accept
                    rep.violation(
                        "buf_sections",
                        format!("sections {:?} but delivered ranges {:?}; history {:?}", secs, m.ranges, hist),
                        &[],
                    );
                    return;
                }
                if b.end().map(|e| e as usize) != m.end {
                    rep.violation("buf_end", format!("end {:?} vs model {:?}; history {:?}", b.end(), m.end, hist), &[]);
                    return;
                }
                if b.is_complete() != m.complete() && !(m.end == Some(0)) {
                    rep.violation(
                        "buf_is_complete",
                        format!("is_complete {} vs model {}; history {:?}", b.is_complete(), m.complete(), hist),
                        &[],
                    );
                    return;
                }
                if b.is_complete() {
                    let e = m.end.unwrap();
                    let want: Vec<u8> = (0..e).map(|o| shadow[o].unwrap_or(0)).collect();
                    if b.data()[..] != want[..] {
                        rep.violation("buf_data", format!("completed data differs; history {:?}", hist), &[]);
                        return;
                    }
                    rep.count("buf.completed");
                }
                rep.count("buf.add_ok");
            } else {
                rep.count("buf.add_err");
            }
        }
        rep.sig(&format!("buf|{}|{}", hist.len(), m.ranges.len()));
    }
}

impl Monitor for C11 {
    fn engines(&self, tier: Tier) -> Vec<(&'static str, u64)> {
        vec![
            ("plain", tier.pick(120_000, 7_500_000)),
            ("conflict", tier.pick(120_000, 7_500_000)),
            ("buf", tier.pick(200_000, 10_000_000)),
        ]
    }

    fn run_case(&mut self, engine: &str, _idx: u64, rng: &mut Prng, rep: &mut Report) {
        match engine {
            "plain" => self.history(rep, rng, false),
            "conflict" => self.history(rep, rng, true),
            "buf" => self.buf(rep, rng),
            _ => {}
        }
        let _ = note_abnormal;
    }
}
